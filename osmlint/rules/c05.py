"""C05 -- Reader delivers each selected object exactly once and in file order (MONITOR + DISPATCH + who-may-call + PAIR).

The implementation's argument for schedule independence is structural: futures are enqueued by ONE thread in file order,
workers only fulfil them, the consumer takes them FIFO, waits on each, and unwinds nested buffers oldest first.  Each link
is a shape of the resolved program; this module decides the links, never the behaviour under schedules.

who-may-call (single producer)                                                                       [DESIGN 5/C05 clause 1]
 W1 pool-task-never-enqueues      nothing reachable from operator() of a functor type handed to Pool::submit puts anything
                                  on a queue of futures (workers only fulfil)
 W4 pool-task-shares-no-mutable-state   nothing reachable from operator() of a submitted functor declares a non-const function-local
                                  static or writes a namespace-scope / static-member variable (tasks share only their arguments and the queues)
 W2 queue-producer-role           every enqueue on a queue of futures (Queue<future<T>>::push, add_to_queue,
                                  add_end_of_data_to_queue) is written in the producer class of that queue: Parser hierarchy
                                  for Buffer, ReadThreadManager for raw input strings
 W2 thread-enqueues-only-its-queue   exactly one thread entry point (found by role: argument of a thread construction) reaches
                                  enqueues on each reader-side queue, no entry feeds both, the consumer side (Reader's own
                                  methods) feeds none
 W3 one-parser-thread             the function that starts the Buffer-producing thread starts it once, not in a loop
push precedes work                                                                                                 [clause 2]
 O1 submit-future-enqueued-directly   the future returned by Pool::submit in a parser is the argument of the enqueue (or a
                                  local that is enqueued on every path before the next iteration): no reordering container
 O1 one-enqueue-per-blob          between two constructions of the blob decoder exactly one enqueue happens on every path
FIFO monitor                                                                                                       [clause 3]
 Q*  the C19 Queue rules, applied to the explicit Queue instantiations (incl. Queue<future<Buffer>>)
consumer side                                                                                                      [clause 4]
 R1 back-buffers-drained-before-pop   Reader::read pops the queue only when the back-buffer member is empty (invalid)
 R2 last-nested-needs-nested      every Buffer::get_last_nested() call is guarded by has_nested_buffers() on the same buffer
                                  (or on the buffer it was move-assigned from just before)
 R2 whole-buffer-only-without-nested  the back buffer is handed out as a whole only when it has no nested buffers left
 R3 popped-nested-buffer-stashed  a popped buffer is tested for nested buffers on every path to a data return; if it has some,
                                  it is moved to the back-buffer member and its deepest nested buffer is handed out
 R4 end-of-data-marks-eof / pop-only-in-status-okay   the end-of-data branch stores a status that the gate before the pop
                                  rejects, on every path to its return
 R5 wrapper-pop-returns-future-value  queue_wrapper::pop takes one element with wait_and_pop and returns get() of that future
 R6 end-marker-is-invalid-buffer  at_end_of_data(Buffer) is `!buffer` and Buffer::operator bool tests the data pointer only: a valid
                                  buffer without data (block with nothing selected) is not the end
 I1 iterator-refills-only-at-buffer-end / iterator-skips-only-empty-buffers   InputIterator fetches the next buffer only when the
                                  current one is used up, and re-reads only while the buffer read has no item of its type
nested buffers (oldest first)
 B1 last-nested-walks-to-tail     get_last_nested() walks the nested link in a loop until the successor has no successor
 B2 grow-internal-chains-older    grow_internal() hangs the previous chain below the buffer it splits off before linking it
 B3 nested-buffer-never-empty     grow_internal() runs only with committed data (Reader::read pops the next queue element when
                                  the buffer it just took out of a nest is empty -- with blocks still waiting in the back buffer;
                                  that CFG path exists on the pristine tree and is infeasible only because of this invariant)
 B4 move-keeps-nested-chain       Buffer's move constructor, move assignment and swap transfer the nested link
 F1 taken-nested-buffer-is-sent   a buffer taken out with get_last_nested() in a parser is enqueued on every path
 F2 run-flushes-final-buffer      every run() of a ParserWithBuffer subclass reaches the final flush on all normal exits
 F3 final-flush-sends-whole-buffer  the method that enqueues the parser's buffer member does so under no other condition than
                                  committed() != 0, once
 F4 swapped-out-buffer-is-sent    a local Buffer that took over the parser buffer's contents (swap / move) is enqueued on every path
entity mask / metadata (DISPATCH)                                                                                  [clause 5]
 M1 object-creation-guarded-by-entity-mask   every construction of a top-level object builder in the four decoders executes only
                                  under `read_types & osm_entity_bits::K` with K the builder's kind (locally or at every call site)
 M2 pbf-field-consumed-once       in every protozero message loop of the PBF reader each field is consumed (get_*/skip) exactly
                                  once before the next next(): an unselected field must be skipped
 M3 xml-builder-used-under-own-mask   XMLParser touches (sets / dereferences) a builder member only under the mask of its kind
 M4 read-meta-guards-only-metadata    a read_meta test selects between decoding and skipping metadata only: the `no` side either
                                  just skips, or calls a sibling that makes the same object-content calls
 M5 created-object-committed      every object built is committed on all normal paths (uncommitted data never reaches the consumer)
 M7 no-meta-only-for-single-version-files   Reader stores a caller-supplied read_meta value only after has_multiple_object_versions()
                                  was false (history / change files carry visibility in the metadata)
 M6 read-options-forwarded        the entity mask / read_meta option is never replaced by a constant on its way from the Reader to the
                                  decoders (constructor initialisers, arguments handed on, accessors)

NOT decided: the schedules themselves; queue-size / pool-size independence beyond the links above; that flush_nested_buffer is
called often enough (nested buffers travel with the final buffer anyway); that the per-format decoders decode the right
*content* (C01/C02); case label <-> kind agreement of the format dispatchers (C02: a `case way:` that calls decode_node under
the node mask is not seen here); reachability through expat's C callbacks (the who-may-call closure cannot see through
XML_Parse, so the thread clause of W2 is decided for the resolved call graph only); the "status check precedes the pop" and
catch-all handling of Reader::read beyond R4 (C07/S1,S2); add_to_queue's push-then-fulfil shape (C07/P1).
Dropped from DESIGN 5/C05 clause 5: "the guarded region contains NOTHING but decode_info/dense-info reads" is decided in the
weaker, exact form M4 (no object-content call on the metadata side; siblings agree on content calls).
"""
from ..excflow import must_call, thread_starts
from ..flow import describe_path, path_search
from .. import c05_util as U
from . import c19

guards_of = U.guards        # flow.guards_of + named locals looked through

KNOWN = [
    # (rule, key, explanation) -- genuine findings on the pristine tree: none
]

EXPLANATION = (
    'Decided (structural links of the ordering argument, all paths / all sites of the resolved program): only the producer class of each '
    'queue of futures enqueues on it and pool tasks never do; the future returned by Pool::submit is enqueued in the iteration that created '
    'it, exactly one enqueue per blob; the C19 monitor discipline of Queue<T>; Reader::read drains the back buffer before popping, unwinds '
    'nested buffers oldest first (get_last_nested walks to the tail, guarded by has_nested_buffers), stashes a popped nest, marks eof at the '
    'end-of-data marker and pops only in status okay; queue_wrapper::pop returns get() of the one future it popped; nested buffers are never '
    'empty (grow_internal only with committed data) and keep the older chain; parsers send every buffer they take out and flush the final one; '
    'object creation in all four decoders is guarded by the entity mask of the same kind, PBF fields are consumed exactly once per next() (so '
    'unselected fields are skipped), XML builder members are used under their own mask, read_meta only switches metadata decoding. '
    'NOT decided: behaviour under actual interleavings, queue/pool size independence beyond these links, decoder content correctness, '
    'calls through expat callbacks.')
ASSUMPTIONS = ['std::queue is FIFO; std::future::get waits; std::promise/packaged_task behave per the standard',
               'the drivers io_read and thread instantiate every reader-side template the library itself uses',
               'protozero::pbf_reader::next() does not skip an unconsumed field (documented protozero contract)']

NS = 'osmium::io::detail::'
BUFFER = 'osmium::memory::Buffer'
READER = 'osmium::io::Reader'
PARSER = NS + 'Parser'
PWB = NS + 'ParserWithBuffer'
RTM = NS + 'ReadThreadManager'
QW = NS + 'queue_wrapper'
POOL = 'osmium::thread::Pool'
ITER = 'osmium::io::InputIterator'
# producer role of each queue-of-futures element type (reader side)
PRODUCER = {U.BUF: PARSER, U.STR: RTM}


NORETURN = ('__assert_fail', '__assert_perror_fail', '__assert', 'abort', 'std::abort', 'std::terminate', 'exit', '_Exit', 'std::exit')


def _exit_t(e):
    return isinstance(e, tuple) and e[0] == 'exit'


def _abnormal(fn, e):
    """Element that ends the path abnormally: a throw, or a call that does not return (failed assert, abort)."""
    n = fn.nodes.get(e) if not isinstance(e, tuple) else None
    if n is None:
        return False
    if n.get('k') == 'throw':
        return True
    return n.get('k') == 'call' and (n.get('q') or n.get('name') or '') in NORETURN


def _dedupe(fns):
    seen = {}
    for f in fns:
        seen.setdefault((f.q, f.pat), f)
    return list(seen.values())


def _hier(fb, base):
    return {base} | {r.q for r in fb.derived_from(base)}


def _is_call(n, q):
    return n is not None and n.get('k') == 'call' and n.get('q') == q


def _recv_root(fn, n):
    return fn.root_var(n['recv']) if n.get('recv') is not None else None


def _elem(fn, nid):
    pos = fn.positions()
    if nid not in pos:
        return None
    b, i = pos[nid]
    el = fn.blocks[b]['elems']
    return el[i] if i < len(el) else None


def _cond_tests(fn, pred):
    """Two-way branches whose condition is pred-matching expression X, possibly under negations:
    [(block, node id of X, successor taken when X is true, successor taken when X is false)]."""
    out = []
    for b in fn.blocks.values():
        if 'cond' not in b or len(b['succs']) != 2 or b.get('termcls') == 'SwitchStmt':
            continue
        cid = fn.strip(b['cond'])
        neg = False
        hops = 0
        while cid is not None and hops < 6:
            x = fn.nodes.get(cid)
            if x is not None and x.get('k') == 'unop' and x.get('op') == '!':
                neg = not neg
                cid = fn.strip(x['sub'])
                hops += 1
            else:
                break
        x = fn.nodes.get(cid) if cid is not None else None
        # a named local that holds the outcome of the test (`const bool done = at_end(x); if (done)`)
        seen = 0
        while x is not None and x.get('k') == 'var' and x.get('vk') == 'local' and seen < 3:
            seen += 1
            cid = U.single_init(fn, x['d'])
            cid = fn.strip(cid) if cid is not None else None
            while cid is not None and fn.nodes.get(cid, {}).get('k') == 'unop' and fn.nodes[cid].get('op') == '!':
                neg = not neg
                cid = fn.strip(fn.nodes[cid]['sub'])
            x = fn.nodes.get(cid) if cid is not None else None
        if x is not None and pred(x):
            t, f = b['succs']
            out.append((b, cid, f, t) if neg else (b, cid, t, f))
    return out


def _enqueuing(fb, fn, n, elem, memo):
    """Call n of fn puts something on a Queue<future<elem>>: push itself, or a callee that reaches such a push (depth 3)."""
    if n.get('k') != 'call' or 'q' not in n:
        return False
    if n['q'] == U.QUEUE + '::push':
        return U.queue_elem(n.get('rclsT', '')) == elem
    if not n['q'].startswith('osmium::'):
        return False
    key = (n.get('u'), elem)
    if key not in memo:
        hit = False
        for (g, _p, _c) in U.reach(fb, U.bodies(fb, n), 3).values():
            for m in g.all_nodes():
                if m.get('k') == 'call' and m.get('q') == U.QUEUE + '::push' and U.queue_elem(m.get('rclsT', '')) == elem:
                    hit = True
                    break
            if hit:
                break
        memo[key] = hit
    return memo[key]


# ================================================================================================ who-may-call

def rule_producers(fb, R):
    parser_h = _hier(fb, PARSER)
    roles = {U.BUF: parser_h, U.STR: {RTM}}
    nsites = 0
    for f in fb.functions:
        if not f.has_cfg or U.is_enqueue_helper(f) is not None or f.cls == U.QUEUE:
            continue
        for (n, e) in U.enqueue_calls(fb, f):
            nsites += 1
            owner = U.owner_class(fb, f)
            allowed = roles.get(e)
            key = '%s#%s<%s>' % (f.q, n['q'].rsplit('::', 1)[-1], e)
            if allowed is None:
                # a queue of futures with an element type the reader side does not know: no producer role recorded
                R.bad('W2-queue-producer-role', key, f.loc(n['id']),
                      '%s enqueues on a queue of std::future<%s>: no producer role is recorded for that queue' % (f.q, e))
                continue
            R.check(owner in allowed, 'W2-queue-producer-role', key, f.loc(n['id']),
                    '%s (class %s) enqueues on the queue of std::future<%s>; only %s may produce for it (single producer keeps file order)'
                    % (f.q, owner, e, PRODUCER[e]))
    if nsites == 0:
        R.broken('no enqueue on a queue of futures found on the reader side')

    # per thread: which queues can be fed from it.  Thread entries are found by role (argument of a thread construction).
    starts = thread_starts(fb)
    entries = {}
    for s in starts:
        for ent in s['entries']:
            entries.setdefault(ent.q, (ent, []))[1].append(s)
    if not entries:
        R.broken('no thread start found on the reader side')
        return
    feeds = {}
    for q, (ent, _ss) in sorted(entries.items()):
        seen = U.reach(fb, [ent], 14)
        feeds[q] = (_pushed_elems(seen), seen)
    for e in sorted(PRODUCER):
        prods = [q for q in feeds if e in feeds[q][0]]
        key = 'Queue<std::future<%s>>#producer-thread' % e
        if not prods:
            R.broken('no thread entry reaches an enqueue on the queue of std::future<%s>' % e)
            continue
        extra = prods[1:]
        if extra:
            g, n = feeds[extra[0]][0][e]
            R.bad('W2-thread-enqueues-only-its-queue', key, g.loc(n['id']),
                  'two thread entry points can enqueue on the queue of std::future<%s>: %s and %s (%s); with two producers the queue order is '
                  'no longer the file order' % (e, prods[0], extra[0], U.chain(feeds[extra[0]][1], g)))
        else:
            R.ok('W2-thread-enqueues-only-its-queue', key, entries[prods[0]][0].site, 'only %s (%d bodies reachable)' % (prods[0], len(feeds[prods[0]][1])))
    # a thread that produces for one queue must not also feed the other one (parser thread <-> read thread)
    for q in sorted(feeds):
        es = sorted(e for e in feeds[q][0] if e in PRODUCER)
        if len(es) > 1:
            g, n = feeds[q][0][es[1]]
            R.bad('W2-thread-enqueues-only-its-queue', q + '#feeds-one-queue', g.loc(n['id']),
                  'thread entry %s enqueues on both reader-side queues (%s)' % (q, ', '.join(es)))
        elif es:
            R.ok('W2-thread-enqueues-only-its-queue', q + '#feeds-one-queue', entries[q][0].site, es[0])
    # consumer side: the Reader's own methods (everything but its thread entry functions) never enqueue
    cons = [f for f in fb.functions if f.cls == READER and f.has_cfg and not f.is_lambda and f.q not in entries]
    if not cons:
        R.broken('no method bodies of %s found' % READER)
    else:
        seen = U.reach(fb, cons, 14)
        pe = _pushed_elems(seen)
        if pe:
            e = sorted(pe)[0]
            g, n = pe[e]
            R.bad('W2-thread-enqueues-only-its-queue', READER + '#consumer-side', g.loc(n['id']),
                  'the consumer side (%s methods) can enqueue on the queue of std::future<%s> itself (%s): elements would be interleaved with '
                  'those of the producer thread' % (READER, e, U.chain(seen, g)))
        else:
            R.ok('W2-thread-enqueues-only-its-queue', READER + '#consumer-side', cons[0].site, '%d bodies reachable' % len(seen))

    # W3: the thread that produces Buffers is started once per Reader
    for q in [q for q in feeds if U.BUF in feeds[q][0]]:
        by_fn = {}
        for s in entries[q][1]:
            by_fn.setdefault(s['fn'].q, []).append(s)
        for sq, lst in sorted(by_fn.items()):
            f = lst[0]['fn']
            inloop = any(f.in_range(s['node']['id'], l['b'], l['e']) for s in lst for l in f.loops)
            R.check(len(lst) == 1 and not inloop, 'W3-one-parser-thread', '%s#%s' % (sq, q.rsplit('::', 1)[-1]), f.loc(lst[0]['node']['id']),
                    '%s starts the parser thread %s %d times%s: two producers would interleave their buffers on the osmdata queue'
                    % (sq, q, len(lst), ' inside a loop' if inloop else ''))


def _pushed_elems(seen):
    """{element type: (Fn, call node)} of Queue<future<T>>::push calls in a reach() result."""
    out = {}
    for (g, _p, _c) in seen.values():
        for n in g.all_nodes():
            if _is_call(n, U.QUEUE + '::push'):
                e = U.queue_elem(n.get('rclsT', ''))
                if e is not None and e not in out:
                    out[e] = (g, n)
    return out


def rule_pool_tasks(fb, R):
    subs = fb.fns(POOL + '::submit')
    if not subs:
        R.broken('no instantiation of Pool::submit on the reader side')
        return []
    types = []
    for s in subs:
        t = (s.targs[0] if s.targs else '').replace('const ', '').rstrip('&').strip()
        if not t or t in types:
            continue
        types.append(t)
        ops = [f for f in fb.fns(t + '::operator()') if f.has_cfg]
        if not ops:
            R.broken('functor type %s submitted to the pool has no operator() body in the fact base' % t)
            continue
        seen = U.reach(fb, ops, 14)
        hit = None
        for (g, _p, _c) in seen.values():
            if g.cls == U.QUEUE:
                continue
            for (n, e) in U.enqueue_calls(fb, g):
                hit = (g, n, e)
                break
            if hit:
                break
        key = 'submit<%s>#task' % t
        if hit:
            g, n, e = hit
            R.bad('W1-pool-task-never-enqueues', key, g.loc(n['id']),
                  'pool task %s::operator() reaches %s on a queue of std::future<%s> (%s): workers run in any order, so they must only '
                  'fulfil futures that the parser thread enqueued' % (t, n['q'], e, U.chain(seen, g)))
        else:
            R.ok('W1-pool-task-never-enqueues', key, ops[0].site, '%d bodies reachable' % len(seen))
    return types


MUTATORS = ('push_back', 'emplace_back', 'push', 'emplace', 'insert', 'erase', 'clear', 'append', 'assign', 'resize', 'reserve', 'swap', 'reset',
            'store', 'exchange', 'fetch_add', 'fetch_sub', 'pop_back', 'pop', 'operator=', 'operator+=', 'operator-=', 'operator|=', 'operator&=',
            'operator++', 'operator--', 'operator[]', 'set', 'add')
# shared state a pool task may legitimately touch (one reason each)
SHARED_STATE_OK = {
    # (none needed on today's tree: the closure of PBFDataBlobDecoder::operator() references only const namespace-scope constants)
}


def _is_const_type(t):
    t = (t or '').strip()
    return t.startswith('const ') and not t.endswith(('*', '&')) or t.endswith(' const') or t.endswith('*const')


def _written_globals(fb, g):
    """[(node, how)] namespace-scope / static-member variables of non-const type that body g writes: assigned, incremented, receiver of
    a mutating member call, or handed to a non-const reference parameter of a function whose body is known."""
    out = []
    pm = g.parent_map()
    for n in g.all_nodes():
        is_var = n.get('k') == 'var' and n.get('vk') in ('global', 'static_member')
        is_mem = n.get('k') == 'member' and n.get('staticvar')
        if not (is_var or is_mem) or _is_const_type(n.get('t')) or not n.get('q', '').startswith('osmium::'):
            continue
        # climb through member / index / wrappers to the expression that uses the object
        x = n['id']
        hops = 0
        while x in pm and hops < 10:
            p = pm[x]
            pn = g.nodes[p]
            k = pn.get('k')
            hops += 1
            if k in ('wrap', 'icast', 'index') or (k == 'member' and pn.get('field')):
                x = p
                continue
            if k == 'assign' and g.strip(pn['lhs']) in g.subtree(pn['lhs']) and x in g.subtree(pn['lhs']):
                out.append((n, 'assigned'))
            elif k == 'unop' and pn.get('op') in ('++', '--'):
                out.append((n, pn['op']))
            elif k == 'unop' and pn.get('op') == '&':
                out.append((n, 'address taken'))
            elif k == 'call' and pn.get('recv') is not None and x in g.subtree(pn['recv']):
                nm = pn.get('q', '').rsplit('::', 1)[-1]
                bodies = fb.by_usr.get(pn.get('u'), []) if pn.get('u') else []
                if (bodies and not all(b.const for b in bodies)) or (not bodies and nm in MUTATORS):
                    out.append((n, 'receiver of ' + pn.get('q', nm)))
            elif k == 'call':
                idx = [i for i, a in enumerate(pn.get('args', [])) if a is not None and x in g.subtree(a)]
                for b in fb.by_usr.get(pn.get('u'), []) if pn.get('u') else []:
                    for i in idx:
                        if i < len(b.params):
                            t = b.params[i]['tC']
                            if t.rstrip().endswith('&') and not t.startswith('const ') and not t.rstrip().endswith('&&'):
                                out.append((n, 'passed by reference to ' + pn.get('q', '?')))
            break
    return out


def rule_pool_task_state(fb, R, task_types):
    """W4: a pool task shares no mutable state with other tasks except through its own arguments and the queues: nothing reachable
    from operator() of a submitted functor declares a function-local static of non-const type or writes a namespace-scope /
    static-member variable.  (Workers run the tasks in any interleaving; the result must equal a single-threaded decode.)"""
    for t in task_types:
        ops = [f for f in fb.fns(t + '::operator()') if f.has_cfg]
        if not ops:
            continue
        seen = U.reach(fb, ops, 14)
        key = 'submit<%s>#shared-state' % t
        bad = None
        for (g, _p, _c) in seen.values():
            if not g.q.startswith('osmium::') or g.cls == U.QUEUE:
                continue
            for n in g.all_nodes():
                if n.get('k') == 'decl':
                    for v in n['vars']:
                        if v.get('static') and not _is_const_type(v['tC']) and (g.q, v['name']) not in SHARED_STATE_OK:
                            bad = bad or (g, n, 'function-local static `%s %s` in %s' % (v['t'], v['name'], g.q))
            for (n, how) in _written_globals(fb, g):
                if (g.q, n.get('q')) not in SHARED_STATE_OK:
                    bad = bad or (g, n, 'variable %s (%s) in %s' % (n.get('q'), how, g.q))
        if bad:
            g, n, what = bad
            R.bad('W4-pool-task-shares-no-mutable-state', key, g.loc(n['id']),
                  'pool task %s::operator() reaches shared mutable state: %s (%s). All workers use the one object concurrently, so with two '
                  'blocks in flight one task decodes from / overwrites the data of the other: the result depends on the schedule'
                  % (t, what, U.chain(seen, g)))
        else:
            R.ok('W4-pool-task-shares-no-mutable-state', key, ops[0].site, '%d bodies reachable' % len(seen))


# ================================================================================================ push precedes work

def _flows_to(fn, nid, stop_calls):
    """Walk from expression nid up through wrappers / moves / elidable constructions; return the first enclosing call that is
    in stop_calls (ids), or ('decl', var decl id) when the value initialises a local variable, else None."""
    pm = fn.parent_map()
    x = nid
    hops = 0
    while x in pm and hops < 30:
        p = pm[x]
        n = fn.nodes[p]
        k = n.get('k')
        hops += 1
        if p in stop_calls:
            return p
        if k in ('wrap', 'icast'):
            x = p
        elif k == 'initlist' and len(n.get('args', [])) == 1:
            x = p
        elif k == 'construct' and (n.get('elidable') or n.get('copymove')) and len(n.get('args', [])) == 1:
            x = p
        elif k == 'call' and n.get('q') in ('std::move', 'std::forward'):
            x = p
        elif k == 'decl':
            for v in n['vars']:
                if isinstance(v.get('init'), int) and (v['init'] == x or x in fn.subtree(v['init'])):
                    return ('decl', v['d'])
            return None
        elif k == 'return':
            return ('return', p)
        else:
            return None
    return None


def _carriers(fn, enq, d):
    """Elements of the enqueuing calls (ids in enq) one of whose arguments mentions local d or a reference / pointer local bound to it."""
    al = {d}
    changed = True
    while changed:
        changed = False
        for n in fn.all_nodes():
            if n.get('k') != 'decl':
                continue
            for v in n['vars']:
                if v['d'] in al or not isinstance(v.get('init'), int) or not v['tC'].rstrip().endswith(('&', '*')):
                    continue
                r = fn.root_var(v['init'])
                if r is not None and r[0] == 'var' and r[1] in al:
                    al.add(v['d'])
                    changed = True
    return {_elem(fn, e) for e in enq
            if any(fn.nodes[x].get('k') == 'var' and fn.nodes[x].get('d') in al for a in fn.nodes[e].get('args', []) if a is not None
                   for x in fn.subtree(a))}


def _must_enqueue_elems(fb, fn, memo, elem=U.BUF):
    """Elements of fn that enqueue on the queue of future<elem> whenever they are executed: the push itself, or a call of a function
    every normal path of which does (a helper's body is treated as inlined)."""
    return U.hit_elems(fb, fn, lambda g, n: _is_call(n, U.QUEUE + '::push') and U.queue_elem(n.get('rclsT', '')) == elem, _abnormal, 4, memo)


def _future_enqueued(fb, f, s, memo, mmemo, callers, depth):
    """None if the future produced by call s in f goes straight into an enqueue on the Buffer queue: as the argument of the enqueuing
    call, through a local that is enqueued on every path before s is reached again, or -- when f merely returns it (a helper that
    wraps Pool::submit) -- at every call site of f.  Else (site, message)."""
    enq = {n['id'] for n in f.all_nodes() if _enqueuing(fb, f, n, U.BUF, memo)}
    must_elems = _must_enqueue_elems(fb, f, mmemo)
    tgt = _flows_to(f, s['id'], enq)
    if isinstance(tgt, int):
        return None
    if isinstance(tgt, tuple) and tgt[0] == 'decl':
        carriers = _carriers(f, enq, tgt[1]) & must_elems
        se = _elem(f, s['id'])
        w = path_search(f, se, lambda e: _exit_t(e) or e == se, lambda e: e in carriers or _abnormal(f, e))
        if carriers and w is None:
            return None
        return (f.loc(s['id']), 'the future returned by Pool::submit is kept in a local and not enqueued on every path before the next blob / '
                'the exit: %s' % describe_path(f, w))
    if isinstance(tgt, tuple) and tgt[0] == 'return' and depth > 0:
        sites = callers.get(f.usr, [])
        if sites:
            for (g, c) in sites:
                v = _future_enqueued(fb, g, c, memo, mmemo, callers, depth - 1)
                if v is not None:
                    return v
            return None
    return (f.loc(s['id']), 'the future returned by Pool::submit does not flow straight into the enqueue on the osmdata queue (stored or passed '
            'elsewhere: the queue order would no longer be the file order)')


def rule_push_precedes_work(fb, R, task_types):
    parser_h = _hier(fb, PARSER)
    memo = {}
    mmemo = {}
    callers = _callers(fb, ())
    n_sub = 0
    for f in _dedupe(fb.functions):
        if not f.has_cfg or U.owner_class(fb, f) not in parser_h:
            continue
        subs = [n for n in f.all_nodes() if _is_call(n, POOL + '::submit')]
        ctors = [n for n in f.all_nodes() if n.get('k') == 'construct' and n.get('rclsT') in task_types and not n.get('copymove')
                 and not n.get('elidable')]
        if not subs and not ctors:
            continue
        enq = {n['id'] for n in f.all_nodes() if _enqueuing(fb, f, n, U.BUF, memo)}
        enq_elems = {_elem(f, e) for e in enq}                          # may enqueue (for "at most once")
        must_elems = _must_enqueue_elems(fb, f, mmemo)                  # enqueue on every path through the callee (for "at least once")
        for s in subs:
            n_sub += 1
            key = '%s#submit' % f.q
            v = _future_enqueued(fb, f, s, memo, mmemo, callers, 2)
            if v is None:
                R.ok('O1-submit-future-enqueued-directly', key, f.loc(s['id']))
            else:
                R.bad('O1-submit-future-enqueued-directly', key, v[0], v[1])
        # one enqueue per decoder construction
        for c in ctors:
            ce = _elem(f, c['id'])
            key = '%s#%s' % (f.q, c['rclsT'])
            w = path_search(f, ce, lambda e: _exit_t(e) or e == ce, lambda e: e in must_elems or _abnormal(f, e))
            ok = R.check(w is None and bool(must_elems), 'O1-one-enqueue-per-blob', key, f.loc(c['id']),
                         'after constructing the blob decoder a path reaches the next blob / the exit without enqueuing its result (block lost): %s'
                         % describe_path(f, w))
            if ok:
                for e in enq_elems:
                    w2 = path_search(f, e, lambda x: x in enq_elems, lambda x: x == ce)
                    R.check(w2 is None, 'O1-one-enqueue-per-blob', key, f.loc(e),
                            'two enqueues for one blob on a path (block delivered twice): %s' % describe_path(f, w2))
    if n_sub == 0:
        R.broken('no Pool::submit call in a parser class found (PBFParser::parse_data_blobs expected)')


# ================================================================================================ consumer side

def _buffer_field(rec):
    fs = [f for f in rec.fields if f['tC'] == BUFFER]
    return fs[0]['name'] if len(fs) == 1 else None


def _status_field(fb, rec):
    for f in rec.fields:
        if fb.enum(f['tC']) is not None and f['tC'].startswith(rec.q + '::'):
            return f['name'], f['tC']
    return None, None


def _assign_from(fn, n):
    """(lhs root, rhs id) of an assignment-like node: Buffer/unique_ptr operator= call or builtin assign."""
    if n.get('k') == 'call' and n.get('op') == '=' and n.get('recv') is not None and n.get('args'):
        return fn.root_var(n['recv']), n['args'][0]
    if n.get('k') == 'assign' and n.get('op') == '=':
        return fn.root_var(n['lhs']), n['rhs']
    return None, None


def _implies_back_empty(fb, fn, c, sense, bb, reader, depth=2):
    """True / False when condition c having evaluated to `sense` says the back-buffer member bb is empty (invalid) / non-empty; None when
    c says nothing about it.  c may be the validity test itself or a call of a helper of the class with a bool result (helper =
    inlined, path-sensitive in its result: every return that can yield `sense` must itself lie behind such a test)."""
    x = fn.sn(c)
    if x is None:
        return None
    if x.get('k') == 'call' and x.get('q') == BUFFER + '::(conv)' and fn.is_this_member(x.get('recv'), bb):
        return not sense
    if x.get('k') == 'unop' and x.get('op') == '!':
        return _implies_back_empty(fb, fn, x['sub'], not sense, bb, reader, depth)
    if x.get('k') == 'call' and x.get('rcls') == reader and x.get('u') and depth > 0:
        gs = [g for g in fb.by_usr.get(x['u'], []) if g.has_cfg and g.retC == 'bool']
        if not gs:
            return None
        verdicts = []
        for g in gs:
            rets = [n for n in g.all_nodes() if n.get('k') == 'return' and 'sub' in n]
            relevant = 0
            for r in rets:
                val = g.const_value(r['sub'])
                if val is not None:
                    if bool(val) != bool(sense):
                        continue        # this return cannot produce the outcome observed by the caller
                    relevant += 1
                    vs = [_implies_back_empty(fb, g, c2, s2, bb, reader, depth - 1) for (c2, s2, _b) in guards_of(g, r['id'])]
                    vs = [v for v in vs if v is not None]
                    verdicts.append(True if any(v is True for v in vs) else (False if vs else None))
                else:
                    relevant += 1
                    verdicts.append(_implies_back_empty(fb, g, r['sub'], sense, bb, reader, depth - 1))
            if relevant == 0:
                return None
        if verdicts and all(v is True for v in verdicts):
            return True
        if verdicts and all(v is False for v in verdicts):
            return False
        return None
    return None


def rule_reader_read(fb, R, reader=READER):
    rec = fb.record(reader)
    if rec is None:
        R.broken('record %s not found' % reader)
        return
    bb = _buffer_field(rec)
    sf, _en = _status_field(fb, rec)
    if bb is None:
        R.broken('%s: cannot identify the back-buffer member (exactly one member of type %s expected)' % (reader, BUFFER))
        return
    fns = [f for f in _dedupe(fb.fns(reader + '::read')) if f.has_cfg]
    if not fns:
        R.broken('%s::read not found' % reader)
        return
    for fn in fns:
        pops = [n for n in fn.all_nodes() if _is_call(n, QW + '::pop') and 'Buffer' in n.get('rclsT', '')]
        if len(pops) != 1:
            R.broken('%s: expected one queue_wrapper<Buffer>::pop() call, found %d' % (fn.q, len(pops)))
            continue
        P = pops[0]
        # ---- R1
        gs = guards_of(fn, P['id'])
        r1 = None
        for (c, sense, _b) in gs:
            v = _implies_back_empty(fb, fn, c, sense, bb, reader)
            if v is not None:
                r1 = bool(r1) or v
        if r1 is None and any(fn.is_this_member(x, bb) for (c, _s, _b) in gs for x in fn.subtree(c)):
            R.broken('%s: the pop is guarded by an unknown test of %s' % (fn.q, bb))
        else:
            R.check(bool(r1), 'R1-back-buffers-drained-before-pop', fn.q + '#pop', fn.loc(P['id']),
                    'the queue pop in %s is not restricted to the case that %s is empty: the next queue element would overtake the nested '
                    'buffers still waiting there (blocks out of order / overwritten)' % (fn.q, bb))
        # ---- R4b status gate
        okay = None
        if sf is None:
            R.broken('%s: cannot identify the status member' % reader)
        else:
            for (c, sense, _b) in gs:
                x = fn.sn(c)
                if x is not None and x.get('k') == 'binop' and x['op'] in ('!=', '=='):
                    for (a, b2) in ((x['lhs'], x['rhs']), (x['rhs'], x['lhs'])):
                        if fn.is_this_member(a, sf):
                            e = fn.sn(b2)
                            if e is not None and e.get('vk') == 'enumconst' and ((x['op'] == '!=') != bool(sense)):
                                okay = e.get('q')
            R.check(okay is not None, 'R4-pop-only-in-status-okay', fn.q + '#pop', fn.loc(P['id']),
                    'the queue pop in %s is not gated by a test that %s equals one status value: after end-of-data a further read() must fail, '
                    'not deliver data' % (fn.q, sf))
        # popped variable
        pm = fn.parent_map()
        B = None
        x = P['id']
        hops = 0
        while x in pm and hops < 8:
            x = pm[x]
            hops += 1
            lhs, _rhs = _assign_from(fn, fn.nodes[x])
            if lhs is not None:
                B = lhs
                break
            if fn.nodes[x].get('k') == 'decl':
                B = ('var', fn.nodes[x]['vars'][0]['d'], fn.nodes[x]['vars'][0]['name'])
                break
        if B is None or B[0] != 'var':
            R.broken('%s: cannot identify the local variable that receives the popped buffer' % fn.q)
            continue
        Pe = _elem(fn, P['id'])
        rets = [n for n in fn.all_nodes() if n.get('k') == 'return' and 'sub' in n and fn.root_var(n['sub']) == B]
        # end-of-data branch: at_end_of_data(B) true (or `!B`)
        def is_eod(x):
            if _is_call(x, NS + 'at_end_of_data') and x.get('args') and fn.root_var(x['args'][0]) == B:
                return 1
            if x is not None and x.get('q') == BUFFER + '::(conv)' and x.get('k') == 'call' and _recv_root(fn, x) == B:
                return -1           # validity test: end of data is its negation
            return 0
        eods = []
        for (blk, inner, t, f) in _cond_tests(fn, lambda x: is_eod(x) != 0):
            eods.append((blk, inner, t, f) if is_eod(fn.nodes[inner]) > 0 else (blk, inner, f, t))
        if len(eods) != 1:
            R.broken('%s: expected one end-of-data test on the popped buffer, found %d' % (fn.q, len(eods)))
            continue
        _eb, einner, e_true, _e_false = eods[0]
        eod_sense = is_eod(fn.nodes[einner]) > 0
        eod_rets = set()
        data_rets = []
        for r in rets:
            if not fn.path_exists_avoiding(Pe, lambda e, r=r: e == r['id'], lambda e: False):
                continue            # returns not reachable from the pop (back-buffer branch, `nothing` shortcut)
            if any(fn.strip(c) == einner and bool(sn) == eod_sense for (c, sn, _b) in guards_of(fn, r['id'])):
                eod_rets.add(r['id'])
            else:
                data_rets.append(r)
        # ---- R4a  (a store made inside a helper of the class counts: its body is treated as inlined)
        if sf is not None:
            def is_store(f, n):
                if n.get('k') == 'assign' and n.get('op') == '=' and f.is_this_member(n['lhs'], sf) and U.owner_class(fb, f) == reader:
                    e = f.sn(n['rhs'])
                    return e is not None and e.get('vk') == 'enumconst' and e.get('q') != okay
                return False
            stores = U.hit_elems(fb, fn, is_store, _abnormal)
            w = path_search(fn, e_true, lambda e: e in eod_rets or _exit_t(e), lambda e: e in stores or _abnormal(fn, e),
                            from_block_start=True) if e_true is not None else None
            R.check(w is None and bool(eod_rets), 'R4-end-of-data-marks-eof', fn.q + '#end-of-data', fn.loc(einner),
                    'on the end-of-data branch of %s a path returns without storing a status other than %s into %s: a further read() would '
                    'block on / read from the shut-down queue instead of failing: %s' % (fn.q, okay, sf, describe_path(fn, w)))
        # ---- R3
        key3 = fn.q + '#popped'
        dr = {r['id'] for r in data_rets}
        sites, problems = _unnest_sites(fb, fn, B, bb, reader, {Pe} | dr)
        if not data_rets:
            R.broken('%s: no return of the popped buffer outside the end-of-data branch' % fn.q)
        elif not sites and not problems:
            R.bad('R3-popped-nested-buffer-stashed', key3, fn.loc(P['id']),
                  '%s returns the popped buffer without testing has_nested_buffers(): nested (older) buffers would be handed to the caller '
                  'inside the newest one / never iterated' % fn.q)
        elif problems:
            g, nid, msg = problems[0]
            R.bad('R3-popped-nested-buffer-stashed', key3, g.loc(nid), msg)
        else:
            w = path_search(fn, Pe, lambda e: e in dr, lambda e: e in sites or e in eod_rets)
            R.check(w is None, 'R3-popped-nested-buffer-stashed', key3, fn.loc(P['id']),
                    'a path from the pop to a data return does not test has_nested_buffers() on the popped buffer: %s' % describe_path(fn, w))
    # ---- R2b: wherever the back buffer is handed out as a whole (in read() or a helper of the class) it has no nested buffers
    n2 = 0
    for fn in _dedupe(fb.functions):
        if not fn.has_cfg or U.owner_class(fb, fn) != reader or fn.kind in ('ctor', 'dtor'):
            continue
        for n in fn.all_nodes():
            lhs, rhs = _assign_from(fn, n)
            if n.get('k') == 'decl':
                for v in n['vars']:
                    if v['tC'] == BUFFER and isinstance(v.get('init'), int):
                        lhs, rhs = ('var', v['d'], v['name']), v['init']
            elif n.get('k') == 'return' and 'sub' in n:
                lhs, rhs = ('return',), n['sub']
            if lhs is None or rhs is None:
                continue
            whole = fn.root_var(rhs)
            if whole is not None and whole[0] == 'field' and whole[2] == bb and lhs != whole and \
                    not any(fn.nodes[x].get('k') == 'call' and fn.nodes[x].get('q', '').startswith(BUFFER + '::') for x in fn.subtree(rhs)):
                n2 += 1
                ok = any(_is_call(fn.sn(c), BUFFER + '::has_nested_buffers') and fn.is_this_member(fn.sn(c).get('recv'), bb) and not sense
                         for (c, sense, _b) in guards_of(fn, n['id']))
                R.check(ok, 'R2-whole-buffer-only-without-nested', '%s#%s' % (reader, bb), fn.loc(n['id']),
                        '%s hands out %s as a whole although it may still have nested (older) buffers: they would be delivered after / inside '
                        'the newest one' % (fn.q, bb))
    if n2 == 0:
        # nothing hands the back buffer out as a whole: then its own (newest) data would never be delivered
        R.bad('R2-whole-buffer-only-without-nested', '%s#%s' % (reader, bb), '%s:%d' % (rec.file, rec.line),
              'no method of %s ever hands out %s itself (only its nested buffers): the newest block of every nest would never be delivered'
              % (reader, bb))


def _unnest_sites(fb, fn, B, bb, reader, stops, depth=2):
    """(sites, problems).  sites: elements of fn after which the buffer variable B (local, or by-reference parameter) no longer carries
    nested buffers: a has_nested_buffers() test on B whose true side moves B into the back-buffer member bb and re-assigns B from
    bb.get_last_nested() before a return / `stops` element is reached; or a call that hands B to a method of the class whose body does
    exactly that for its parameter on every path (helper = inlined).  problems: [(Fn, node id, message)] for a test whose true side is wrong."""
    sites = set()
    problems = []
    for (_tb, tinner, t_true, _t_false) in _cond_tests(fn, lambda x: _is_call(x, BUFFER + '::has_nested_buffers') and _recv_root(fn, x) == B):
        s1 = None
        for n in fn.all_nodes():
            lhs, rhs = _assign_from(fn, n)
            if lhs is not None and lhs[0] == 'field' and lhs[2] == bb and rhs is not None and fn.root_var(rhs) == B \
                    and any(fn.strip(c) == tinner and sn for (c, sn, _b) in guards_of(fn, n['id'])):
                s1 = n
        s2 = []
        for n in fn.all_nodes():
            lhs, rhs = _assign_from(fn, n)
            if s1 is not None and lhs == B and rhs is not None and fn.elem_dominates(_elem(fn, s1['id']), _elem(fn, n['id'])) and \
                    any(_is_call(fn.nodes[x], BUFFER + '::get_last_nested') and fn.is_this_member(fn.nodes[x].get('recv'), bb)
                        for x in fn.subtree(rhs)):
                s2.append(n)
        if s1 is None or not s2 or t_true is None:
            problems.append((fn, tinner, 'when the buffer taken from the queue has nested buffers %s must move it to %s and hand out '
                             '%s.get_last_nested(); that sequence is missing' % (fn.q, bb, bb)))
            continue
        s2e = {_elem(fn, n['id']) for n in s2}
        rets = {n['id'] for n in fn.all_nodes() if n.get('k') == 'return'}
        w = path_search(fn, t_true, lambda e: e in stops or e in rets or _exit_t(e), lambda e: e in s2e or _abnormal(fn, e), from_block_start=True)
        if w is not None:
            problems.append((fn, tinner, 'a buffer with nested buffers can be returned / dropped without being moved to %s and unwound from '
                             'its deepest nested buffer: %s' % (bb, describe_path(fn, w))))
        else:
            sites.add(_elem(fn, tinner))
    if depth > 0:
        for n in fn.all_nodes():
            if n.get('k') != 'call' or n.get('rcls') != reader or not n.get('u'):
                continue
            idx = [i for i, a in enumerate(n.get('args', [])) if a is not None and fn.root_var(a) == B]
            if len(idx) != 1:
                continue
            gs = [g for g in fb.by_usr.get(n['u'], []) if g.has_cfg and len(g.params) > idx[0]]
            ok = bool(gs)
            for g in gs:
                p = g.params[idx[0]]
                if not p['tC'].replace(' ', '').endswith(BUFFER.replace(' ', '') + '&') or p['tC'].startswith('const '):
                    ok = False
                    continue
                gs_sites, gs_problems = _unnest_sites(fb, g, ('var', p['d'], p['name']), bb, reader, set(), depth - 1)
                problems.extend(gs_problems)
                if gs_problems or not gs_sites or path_search(g, g.entry, _exit_t, lambda e: e in gs_sites or _abnormal(g, e),
                                                               from_block_start=True) is not None:
                    ok = False
            if ok:
                sites.add(_elem(fn, n['id']))
    return sites, problems


def rule_last_nested_guarded(fb, R):
    """R2: get_last_nested() @pre has_nested_buffers() -- on the same object (or on the object it was just move-assigned from)."""
    for fn in _dedupe(fb.functions):
        if not fn.has_cfg:
            continue
        for n in fn.all_nodes():
            if not _is_call(n, BUFFER + '::get_last_nested'):
                continue
            root = _recv_root(fn, n)
            key = '%s#%s' % (fn.q, root[-1] if root and len(root) > 1 else '?')
            if root is None:
                R.broken('%s: receiver of get_last_nested() is not a variable or member' % fn.q)
                continue
            ok = _guarded_has_nested(fn, n['id'], root)
            if not ok:
                # X = std::move(Y) dominating the call: the test may have been made on Y before the contents moved to X
                for m in fn.all_nodes():
                    lhs, rhs = _assign_from(fn, m)
                    if lhs == root and rhs is not None and fn.elem_dominates(_elem(fn, m['id']), _elem(fn, n['id'])):
                        src = fn.root_var(rhs)
                        if src is not None and src != root and not _reassigned_between(fn, m, n, root):
                            key = '%s<-%s' % (key, src[-1])
                            ok = _guarded_has_nested(fn, m['id'], src)
                            break
            R.check(ok, 'R2-last-nested-needs-nested', key, fn.loc(n['id']),
                    'get_last_nested() in %s is not guarded by has_nested_buffers() on the same buffer (precondition; null dereference in '
                    'release builds, or the wrong buffer is handed out first)' % fn.q)


def _guarded_has_nested(fn, nid, root):
    for (c, sense, _b) in guards_of(fn, nid):
        x = fn.sn(c)
        if _is_call(x, BUFFER + '::has_nested_buffers') and _recv_root(fn, x) == root and sense:
            return True
    return False


def _reassigned_between(fn, a, b, root):
    ae, be = _elem(fn, a['id']), _elem(fn, b['id'])
    others = set()
    for m in fn.all_nodes():
        lhs, _r = _assign_from(fn, m)
        if lhs == root and m['id'] != a['id']:
            others.add(_elem(fn, m['id']))
    if not others:
        return False
    return path_search(fn, ae, lambda e: e in others, lambda e: e == be) is not None


def _value_sink(fn, nid):
    """Where the value of expression nid goes: ('var', decl id, name) when it is assigned to / initialises a variable, 'returned'
    when it is the function's return value, else None (moves, wrappers and elidable copies are looked through)."""
    pm = fn.parent_map()
    x = nid
    hops = 0
    while x in pm and hops < 10:
        p = pm[x]
        n = fn.nodes[p]
        hops += 1
        lhs, rhs = _assign_from(fn, n)
        if lhs is not None and rhs is not None and x in fn.subtree(rhs):
            return lhs if lhs[0] == 'var' else None
        k = n.get('k')
        if k == 'decl':
            for v in n['vars']:
                if isinstance(v.get('init'), int) and x in fn.subtree(v['init']):
                    return ('var', v['d'], v['name'])
            return None
        if k == 'return':
            return 'returned'
        if k in ('wrap', 'icast', 'initlist') or (k == 'call' and n.get('q') in ('std::move', 'std::forward')) or \
                (k == 'construct' and len(n.get('args', [])) == 1):
            x = p
            continue
        return None
    return None


def rule_wrapper_pop(fb, R):
    """R5.  pop() and the private helpers of queue_wrapper it calls are read as one body (helper = inlined; a by-reference
    out-parameter of the helper stands for the caller's argument)."""
    fns = [f for f in fb.fns(QW + '::pop') if f.has_cfg]
    if not fns:
        R.broken('%s::pop not found' % QW)
    for fn in fns:
        key = fn.q
        # scope: pop and the helpers of the same class instantiation it reaches, with the unique call site of each helper
        scope = {id(fn): (fn, None, None)}          # id -> (Fn, caller Fn, call node)
        work = [fn]
        multi = False
        while work:
            f = work.pop()
            for n in f.all_nodes():
                if n.get('k') == 'call' and n.get('rcls') == QW and n.get('u') and n.get('rclsT') == fn.clsT:
                    for g in fb.by_usr.get(n['u'], []):
                        if g.has_cfg and g.name not in ('pop',):
                            if id(g) in scope:
                                multi = True
                            else:
                                scope[id(g)] = (g, f, n)
                                work.append(g)
        takes, gets = [], []
        for (f, _c, _n) in scope.values():
            for n in f.all_nodes():
                if n.get('k') == 'call' and n.get('rcls') == U.QUEUE and n['q'].rsplit('::', 1)[-1] in ('wait_and_pop', 'try_pop'):
                    takes.append((f, n))
                elif _is_call(n, 'std::future::get'):
                    gets.append((f, n))
        ok = len(takes) == 1 and takes[0][1]['q'] == U.QUEUE + '::wait_and_pop' and len(gets) == 1 and not multi
        why = 'expected exactly one Queue::wait_and_pop and one future::get (in pop() and its helpers)'
        if ok:
            (tf, t), (gf, g) = takes[0], gets[0]
            fut = tf.root_var(t['args'][0]) if t.get('args') else None
            ok = tf is gf and fut is not None and _recv_root(gf, g) == fut and tf.elem_dominates(_elem(tf, t['id']), _elem(gf, g['id']))
            why = 'get() must be called on the future that wait_and_pop filled, after the pop'
            # neither the take nor the call chain leading to it may sit in a loop
            f, n = tf, t
            while ok and f is not None:
                if any(f.in_range(n['id'], l['b'], l['e']) for l in f.loops):
                    ok, why = False, 'the pop happens inside a loop (elements would be dropped)'
                _f, caller, call = scope[id(f)]
                f, n = caller, call
            if ok:
                # follow the value of get() to the value pop() returns
                why = 'the value returned must be the one obtained from get() of the popped future'
                f, node = gf, g['id']
                steps = 0
                ok = False
                while steps < 6:
                    steps += 1
                    sink = _value_sink(f, node)
                    _f, caller, call = scope[id(f)]
                    if sink == 'returned':
                        if caller is None:
                            ok = True
                            break
                        f, node = caller, call['id']
                        continue
                    if sink is None:
                        break
                    pidx = [i for i, p_ in enumerate(f.params) if p_['d'] == sink[1]]
                    if pidx:
                        # out-parameter: non-const reference; continue with the caller's argument
                        pt = f.params[pidx[0]]['tC'].rstrip()
                        if caller is None or not pt.endswith('&') or pt.endswith('&&') or pt.startswith('const '):
                            break
                        args = [a for a in call.get('args', [])]
                        if pidx[0] >= len(args) or args[pidx[0]] is None:
                            break
                        arg = caller.root_var(args[pidx[0]])
                        if arg is None or arg[0] != 'var':
                            break
                        f = caller
                        sink = arg
                    rets = [n for n in f.all_nodes() if n.get('k') == 'return' and 'sub' in n]
                    if not rets or not all(f.root_var(r['sub']) == sink for r in rets):
                        # the variable may itself be an out-parameter one level further up
                        if any(p_['d'] == sink[1] for p_ in f.params) and scope[id(f)][1] is not None:
                            node = None
                            pidx = [i for i, p_ in enumerate(f.params) if p_['d'] == sink[1]]
                            _f2, caller2, call2 = scope[id(f)]
                            args = call2.get('args', [])
                            arg = caller2.root_var(args[pidx[0]]) if pidx[0] < len(args) and args[pidx[0]] is not None else None
                            if arg is None or arg[0] != 'var':
                                break
                            f, sink = caller2, arg
                            rets = [n for n in f.all_nodes() if n.get('k') == 'return' and 'sub' in n]
                            if not rets or not all(f.root_var(r['sub']) == sink for r in rets):
                                break
                        else:
                            break
                    if scope[id(f)][1] is None:
                        ok = True
                        break
                    # a helper that returns the variable: continue with its call expression in the caller
                    _f3, caller3, call3 = scope[id(f)]
                    f, node = caller3, call3['id']
        R.check(ok, 'R5-wrapper-pop-returns-future-value', key, fn.site, 'queue_wrapper::pop: %s' % why)


def _calls_end(fn, cid):
    """Expression contains a call of a function named end (resolved callee)."""
    return any(fn.nodes[y].get('k') == 'call' and fn.nodes[y].get('q', '').rsplit('::', 1)[-1] == 'end' for y in U.deep_subtree(fn, cid))


def rule_iterator(fb, R):
    fns = [f for f in fb.fns(ITER + '::operator++') if f.has_cfg and not f.params]
    if not fns:
        R.broken('%s::operator++() not found' % ITER)
    for fn in fns:
        ups = [n for n in fn.all_nodes() if _is_call(n, ITER + '::update_buffer')]
        if not ups:
            if not any(_is_call(n, ITER + '::operator++') for n in fn.all_nodes()):
                R.bad('I1-iterator-refills-only-at-buffer-end', fn.q + '#update_buffer', fn.site,
                      'InputIterator::operator++ never fetches the next buffer: iteration ends (or runs off the buffer) after the first one')
            continue            # postfix variants delegate
        incs = [n for n in fn.all_nodes() if n.get('k') == 'call' and n.get('op') == '++' and n.get('recv') is not None
                and (fn.root_var(n['recv']) or ('',))[0] == 'field']
        for u in ups:
            ok = False
            for (c, sense, _b) in guards_of(fn, u['id']):
                x = fn.sn(c)
                if x is not None and x.get('k') == 'call' and x.get('op') in ('==', '!=') and ((x['op'] == '==') == bool(sense)):
                    roots = {fn.root_var(a) for a in ([x.get('recv')] if x.get('recv') is not None else []) + list(x.get('args', [])) if a is not None}
                    if any(r is not None and r[0] == 'field' for r in roots) and _calls_end(fn, c):
                        ok = True
            dom = any(fn.elem_dominates(_elem(fn, i['id']), _elem(fn, u['id'])) for i in incs)
            R.check(ok and dom, 'I1-iterator-refills-only-at-buffer-end', fn.q + '#update_buffer', fn.loc(u['id']),
                    'InputIterator::operator++ must fetch the next buffer only after advancing and only when the item iterator reached end() of '
                    'the current buffer (otherwise the rest of the buffer is dropped)')


def rule_iterator_refill(fb, R):
    """I1: update_buffer() keeps reading only while the buffer just read has no item of the wanted type."""
    fns = [f for f in _dedupe(fb.fns(ITER + '::update_buffer')) if f.has_cfg]
    if not fns:
        R.broken('%s::update_buffer not found' % ITER)
    for fn in fns:
        reads = [n for n in fn.all_nodes() if n.get('k') == 'call' and n.get('q', '').rsplit('::', 1)[-1] == 'read' and
                 any(fn.in_range(n['id'], l['b'], l['e']) for l in fn.loops)]
        key = fn.q + '#skip-loop'
        if len(reads) != 1:
            R.broken('%s: expected one read() call inside a loop, found %d' % (fn.q, len(reads)))
            continue
        re_ = _elem(fn, reads[0]['id'])
        ok = False
        # any test `iter == end()` / `iter != end()` inside the loop (loop condition, or an if with break), named locals looked through
        for (blk, inner, t_true, t_false) in _cond_tests(fn, lambda x: x.get('k') == 'call' and x.get('op') in ('==', '!=')):
            x = fn.nodes[inner]
            if not _calls_end(fn, inner) or not any(fn.in_range(blk['cond'], l['b'], l['e']) or fn.in_range(inner, l['b'], l['e']) for l in fn.loops):
                continue
            cont, leave = (t_true, t_false) if x['op'] == '==' else (t_false, t_true)
            again = cont is not None and path_search(fn, cont, lambda e: e == re_, lambda e: False, from_block_start=True) is not None
            out = leave is None or path_search(fn, leave, lambda e: e == re_, lambda e: False, from_block_start=True) is None
            if again and out:
                ok = True
        R.check(ok, 'I1-iterator-skips-only-empty-buffers', key, fn.loc(reads[0]['id']),
                'update_buffer() must read another buffer exactly when the one just read has no item of the requested type (iter == end()); '
                'otherwise buffers with data are discarded')


def rule_end_marker(fb, R):
    """R6: the end-of-data marker is the INVALID buffer, nothing else: a valid buffer without data (a block in which nothing was selected)
    must not be mistaken for it."""
    fns = [f for f in fb.fns(NS + 'at_end_of_data') if f.has_cfg and f.params and BUFFER in f.params[0]['tC']]
    if not fns:
        R.broken('%sat_end_of_data(const Buffer&) not found' % NS)
    for fn in _dedupe(fns):
        rets = [n for n in fn.all_nodes() if n.get('k') == 'return' and 'sub' in n]
        ok = len(rets) == 1
        if ok:
            x = fn.sn(rets[0]['sub'])
            ok = x is not None and x.get('k') == 'unop' and x['op'] == '!'
            if ok:
                c = fn.sn(x['sub'])
                r = _recv_root(fn, c) if _is_call(c, BUFFER + '::(conv)') else None
                ok = r is not None and r[0] == 'var' and r[1] == fn.params[0]['d']
        R.check(ok, 'R6-end-marker-is-invalid-buffer', fn.q + '(Buffer)', fn.site,
                'at_end_of_data(const Buffer&) must be exactly `!buffer` (validity): valid buffers without data occur whenever a block '
                'contains nothing of the selected types, and reading must continue after them')
    for fn in _dedupe(fb.fns(BUFFER + '::(conv)')):
        if not fn.has_cfg or fn.ret != 'bool' and fn.retC != 'bool':
            continue
        rets = [n for n in fn.all_nodes() if n.get('k') == 'return' and 'sub' in n]
        ok = len(rets) == 1
        if ok:
            x = fn.sn(rets[0]['sub'])
            names = {fn.nodes[y].get('name') for y in fn.subtree(rets[0]['sub']) if fn.nodes[y].get('k') == 'member' and fn.nodes[y].get('field')}
            rec = fb.record(BUFFER)
            ptrs = {f['name'] for f in rec.fields if f['tC'].endswith('*')} if rec else set()
            ok = bool(names) and names <= ptrs and x is not None and (x.get('k') == 'binop' and x['op'] == '!=' or x.get('k') == 'member')
        R.check(ok, 'R6-end-marker-is-invalid-buffer', fn.q, fn.site,
                'Buffer::operator bool must test the data pointer only (validity, not emptiness)')


# ================================================================================================ nested buffers

def _committed_field(fb):
    for fn in fb.fns(BUFFER + '::committed'):
        for n in fn.all_nodes():
            if n.get('k') == 'return' and 'sub' in n:
                m = fn.sn(n['sub'])
                if m is not None and m.get('k') == 'member' and m.get('field'):
                    return m['name']
    return None


def _next_field(rec):
    fs = [f for f in rec.fields if f['tC'].startswith('std::unique_ptr<' + BUFFER)]
    return fs[0]['name'] if len(fs) == 1 else None


def _implies_nonzero(fn, cond, sense, is_committed):
    """Condition outcome (cond evaluated to sense) implies committed != 0."""
    x = fn.sn(cond)
    if x is None:
        return False
    if is_committed(x):
        return bool(sense)
    if x.get('k') == 'binop' and x['op'] in ('!=', '==', '>', '<', '>=', '<='):
        l, r = fn.sn(U.resolve(fn, x['lhs'])), fn.sn(U.resolve(fn, x['rhs']))      # named locals for the operands looked through
        lz, rz = fn.const_value(x['lhs']) == 0, fn.const_value(x['rhs']) == 0
        if is_committed(l) and rz:
            return (x['op'] in ('!=', '>') and sense) or (x['op'] in ('==', '<=') and not sense)
        if is_committed(r) and lz:
            return (x['op'] in ('!=', '<') and sense) or (x['op'] in ('==', '>=') and not sense)
    return False


def rule_nested_buffers(fb, R):
    rec = fb.record(BUFFER)
    if rec is None:
        R.broken('record %s not found' % BUFFER)
        return
    cf = _committed_field(fb)
    nf = _next_field(rec)
    if cf is None or nf is None:
        R.broken('%s: cannot identify the committed counter (%s) / the nested-buffer link (%s)' % (BUFFER, cf, nf))
        return

    def is_committed(fn):
        def f(x):
            if x is None:
                return False
            if x.get('k') == 'member' and x.get('field') and x['name'] == cf:
                b = fn.sn(x['base'])
                return b is not None and b.get('k') == 'this'
            if _is_call(x, BUFFER + '::committed'):
                r = fn.sn(x['recv']) if x.get('recv') is not None else None
                return r is not None and r.get('k') == 'this'
            return False
        return f

    # ---- B3
    gis = [f for f in _dedupe(fb.fns(BUFFER + '::grow_internal')) if f.has_cfg]
    if not gis:
        R.broken('%s::grow_internal not found' % BUFFER)
        return
    inner_ok = False
    for g in gis:
        news = [n for n in g.all_nodes() if n.get('k') == 'construct' and n.get('q') == BUFFER + '::(ctor)' and len(n.get('args', [])) >= 3]
        if news and all(any(_implies_nonzero(g, c, s, is_committed(g)) for (c, s, _b) in guards_of(g, n['id'])) for n in news):
            inner_ok = True
    ncalls = 0
    for fn in _dedupe(fb.functions):
        if not fn.has_cfg:
            continue
        for n in fn.all_nodes():
            if not _is_call(n, BUFFER + '::grow_internal'):
                continue
            ncalls += 1
            r = fn.sn(n['recv']) if n.get('recv') is not None else None
            on_this = r is not None and r.get('k') == 'this'
            ok = inner_ok or (on_this and any(_implies_nonzero(fn, c, s, is_committed(fn)) for (c, s, _b) in guards_of(fn, n['id'])))
            R.check(ok, 'B3-nested-buffer-never-empty', '%s#grow_internal' % fn.q, fn.loc(n['id']),
                    '%s calls grow_internal() without requiring committed data (%s != 0): an empty nested buffer is created, and Reader::read, '
                    'which skips empty buffers by popping the next queue element, would do so while the back buffer still holds blocks (lost or '
                    'out of order)' % (fn.q, cf))
    if ncalls == 0:
        R.broken('no call of %s::grow_internal found' % BUFFER)

    # ---- B2
    for g in gis:
        # the local that owns the buffer split off (initialised from the `new Buffer{memory, capacity, committed}`)
        olds = [v for n in g.all_nodes() if n.get('k') == 'decl' for v in n['vars']
                if v['tC'].startswith('std::unique_ptr<' + BUFFER) and isinstance(v.get('init'), int) and any(
                    g.nodes[y].get('k') == 'construct' and g.nodes[y].get('q') == BUFFER + '::(ctor)' and len(g.nodes[y].get('args', [])) >= 3
                    for y in U.deep_subtree(g, v['init']))]
        link_old = link_this = None
        for n in g.all_nodes():
            lhs, rhs = _assign_from(g, n)
            if lhs is None or rhs is None:
                continue
            l = g.sn(n['recv']) if n.get('k') == 'call' else g.sn(n['lhs'])
            if l is None or l.get('k') != 'member' or l['name'] != nf:
                continue
            src = U.source_root(g, rhs)          # a named local that carries the chain for a moment is looked through
            if lhs[0] == 'var' and any(lhs[1] == v['d'] for v in olds) and src is not None and src[0] == 'field' and src[2] == nf:
                link_old = n
            src = g.root_var(rhs)
            if lhs[0] == 'field' and src is not None and src[0] == 'var' and any(src[1] == v['d'] for v in olds):
                link_this = n
        for n in g.all_nodes():
            # std::swap(old->m_next, m_next) is the same hand-over while old's link is still empty
            if n.get('k') == 'call' and n.get('q', '').rsplit('::', 1)[-1] == 'swap' and len(n.get('args', [])) == 2 and link_old is None:
                ms = [g.sn(a) for a in n['args']]
                rs = [g.root_var(a) for a in n['args']]
                if all(m is not None and m.get('k') == 'member' and m.get('name') == nf for m in ms) and \
                        any(r is not None and r[0] == 'var' and any(r[1] == v['d'] for v in olds) for r in rs) and \
                        any(r is not None and r[0] == 'field' for r in rs):
                    link_old = n
        ok = link_old is not None and link_this is not None and g.elem_dominates(_elem(g, link_old['id']), _elem(g, link_this['id']))
        if ok:
            # from the point where the old contents are split off, every normal path links them in
            splits = [n for n in g.all_nodes() if n.get('k') == 'construct' and n.get('q') == BUFFER + '::(ctor)' and len(n.get('args', [])) >= 3]
            starts = [_elem(g, n['id']) for n in splits]
            w = None
            for st in starts:
                w = w or path_search(g, st, _exit_t, lambda e: e == _elem(g, link_this['id']) or _abnormal(g, e))
            ok = bool(starts) and w is None
        R.check(ok, 'B2-grow-internal-chains-older', g.q + '#' + nf, g.site,
                'grow_internal() must first hang the existing chain (%s) below the buffer it splits off and then link that buffer as %s; '
                'otherwise previously nested buffers are destroyed (blocks lost) or the order of the chain changes' % (nf, nf))

    # ---- B4: moving / swapping a Buffer carries the nested chain along
    def other_link(f, nid, pd):
        """expression is <param pd>.<nf>"""
        for y in f.subtree(nid):
            ny = f.nodes[y]
            if ny.get('k') == 'member' and ny.get('name') == nf:
                r = f.root_var(ny['base'])
                if r is not None and r[0] == 'var' and r[1] == pd:
                    return True
        return False
    movers = [f for f in _dedupe(fb.fns(BUFFER + '::(ctor)') + fb.fns(BUFFER + '::operator=')) if f.has_cfg and f.params
              and f.params[0]['tC'].replace('const ', '') == BUFFER + ' &&']
    swaps = [f for f in _dedupe(fb.fns(BUFFER + '::swap')) if f.has_cfg and f.params]
    if len(movers) < 2 or not swaps:
        R.broken('%s: move constructor / move assignment / swap not found (%d, %d)' % (BUFFER, len(movers), len(swaps)))
    for f in movers + swaps:
        pd = f.params[0]['d']
        ok = False
        for n in f.all_nodes():
            if n.get('k') == 'init' and n.get('name') == nf and isinstance(n.get('init'), int) and other_link(f, n['init'], pd):
                ok = True
            lhs, rhs = _assign_from(f, n)
            if lhs is not None and lhs[0] == 'field' and lhs[2] == nf and rhs is not None and other_link(f, rhs, pd):
                ok = True
            if n.get('k') == 'call' and n.get('q', '').rsplit('::', 1)[-1] == 'swap' and len(n.get('args', [])) == 2:
                r0 = f.root_var(n['args'][0])
                r1 = f.root_var(n['args'][1])
                if (r0 is not None and r0[0] == 'field' and r0[2] == nf and other_link(f, n['args'][1], pd)) or \
                        (r1 is not None and r1[0] == 'field' and r1[2] == nf and other_link(f, n['args'][0], pd)):
                    ok = True
        R.check(ok, 'B4-move-keeps-nested-chain', '%s(%s)#%s' % (f.q, f.params[0]['tC'], nf), f.site,
                '%s does not transfer %s: a buffer that travels through promise / future / queue (all by move) would lose its nested buffers '
                '(blocks lost)' % (f.q, nf))

    # ---- B1
    for fn in _dedupe(fb.fns(BUFFER + '::get_last_nested')):
        if not fn.has_cfg:
            continue
        key = fn.q + '#walk'
        rets = [n for n in fn.all_nodes() if n.get('k') == 'return' and 'sub' in n]
        if len(rets) != 1:
            R.broken('%s: expected one return' % fn.q)
            continue
        if any(_is_call(n, BUFFER + '::get_last_nested') for n in fn.all_nodes()):
            R.broken('%s: recursive shape is not modelled' % fn.q)
            continue
        r = rets[0]
        # returned expression: <cursor>->m_next (moved)
        m = None
        for x in fn.subtree(r['sub']):
            nx = fn.nodes[x]
            if nx.get('k') == 'member' and nx.get('field') and nx['name'] == nf:
                m = nx
                break
        cur = fn.root_var(m['base']) if m is not None else None
        if cur is None:
            R.bad('B1-last-nested-walks-to-tail', key, fn.loc(r['id']), 'get_last_nested() does not return a %s link' % nf)
            continue
        def hops(nid, budget=12):
            """number of nested-link steps from the cursor variable to the object denoted by nid (named locals looked through), or None"""
            cnt = 0
            while nid is not None and budget > 0:
                budget -= 1
                x = fn.sn(nid)
                if x is None:
                    return None
                k = x.get('k')
                if k == 'member' and x.get('field'):
                    if x['name'] != nf:
                        return None
                    cnt += 1
                    nid = x['base']
                elif k == 'call' and x.get('recv') is not None and x.get('q', '').startswith('std::unique_ptr::'):
                    nid = x['recv']
                elif k == 'call' and x.get('q') in ('std::move', 'std::forward') and x.get('args'):
                    nid = x['args'][0]
                elif k == 'unop' and x.get('op') in ('*', '&'):
                    nid = x['sub']
                elif k == 'var':
                    if ('var', x['d'], x['name']) == cur:
                        return cnt
                    init = U.single_init(fn, x['d']) if x.get('vk') == 'local' else None
                    if init is None:
                        return None
                    nid = init
                else:
                    return None
            return None

        ok = False
        why = 'no loop that advances along %s until the successor has no nested buffer' % nf
        if cur[0] != 'var' or hops(m['base']) != 0:
            why = 'the link returned is not the one of the cursor'
        else:
            for (c, sense, _b) in guards_of(fn, r['id']):
                x = fn.sn(c)
                if sense or not _is_call(x, BUFFER + '::has_nested_buffers') or x.get('recv') is None:
                    continue
                if not any(fn.in_range(x['id'], l['b'], l['e']) for l in fn.loops):
                    continue        # a single test outside any loop: one step only
                if hops(x['recv']) != 1:
                    why = 'the loop tests has_nested_buffers() on the cursor itself (or further down), not on its successor (returns one level too early / late)'
                    continue
                adv = False
                for n in fn.all_nodes():
                    lhs, rhs = _assign_from(fn, n)
                    if lhs == cur and rhs is not None and hops(rhs) == 1 and any(fn.in_range(n['id'], l['b'], l['e']) for l in fn.loops):
                        adv = True
                if adv:
                    ok = True
                else:
                    why = 'the loop does not advance the cursor to its %s' % nf
        R.check(ok, 'B1-last-nested-walks-to-tail', key, fn.site,
                'get_last_nested() must return the LAST buffer of the chain (the oldest data): %s' % why)


# ================================================================================================ parser flush discipline

def rule_parser_flush(fb, R):
    parser_h = _hier(fb, PARSER)
    memo = {}
    mmemo = {}
    # F1
    n1 = 0
    for fn in _dedupe(fb.functions):
        if not fn.has_cfg or U.owner_class(fb, fn) not in parser_h:
            continue
        for n in fn.all_nodes():
            if not _is_call(n, BUFFER + '::get_last_nested'):
                continue
            n1 += 1
            enq = {m['id'] for m in fn.all_nodes() if _enqueuing(fb, fn, m, U.BUF, memo)}
            tgt = _flows_to(fn, n['id'], enq)
            key = '%s#get_last_nested' % fn.q
            if isinstance(tgt, int):
                R.ok('F1-taken-nested-buffer-is-sent', key, fn.loc(n['id']))
            elif isinstance(tgt, tuple):
                d = tgt[1]
                carriers = _carriers(fn, enq, d) & _must_enqueue_elems(fb, fn, mmemo)
                w = path_search(fn, _elem(fn, n['id']), _exit_t, lambda e: e in carriers or _abnormal(fn, e))
                R.check(bool(carriers) and w is None, 'F1-taken-nested-buffer-is-sent', key, fn.loc(n['id']),
                        'the buffer taken out with get_last_nested() is not sent to the output queue on every path (it is destroyed with '
                        'the local: blocks lost): %s' % describe_path(fn, w))
            else:
                R.bad('F1-taken-nested-buffer-is-sent', key, fn.loc(n['id']),
                      'the buffer taken out with get_last_nested() does not flow into an enqueue on the output queue')
    if n1 == 0:
        R.broken('no get_last_nested() call in a parser class (ParserWithBuffer::flush_nested_buffer expected)')
    # F4: a local Buffer that took over the contents of the parser's buffer member (swap / move) is enqueued on every path
    rec = fb.record(PWB)
    bf = _buffer_field(rec) if rec is not None else None
    for fn in _dedupe(fb.functions):
        if not fn.has_cfg or bf is None or U.owner_class(fb, fn) not in parser_h:
            continue
        takers = []            # (node, local decl id)
        for n in fn.all_nodes():
            if n.get('k') == 'call' and n.get('q', '').rsplit('::', 1)[-1] == 'swap':
                ops = [a for a in ([n.get('recv')] if n.get('recv') is not None else []) + list(n.get('args', [])) if a is not None]
                roots = [fn.root_var(a) for a in ops]
                loc = [r for r in roots if r is not None and r[0] == 'var']
                if len(ops) == 2 and any(r is not None and r[0] == 'field' and r[2] == bf for r in roots) and len(loc) == 1:
                    takers.append((n, loc[0][1]))
            elif n.get('k') == 'decl':
                for v in n['vars']:
                    if v['tC'] == BUFFER and isinstance(v.get('init'), int):
                        r = fn.root_var(v['init'])
                        if r is not None and r[0] == 'field' and r[2] == bf:
                            takers.append((n, v['d']))
            else:
                lhs, rhs = _assign_from(fn, n)
                if lhs is not None and lhs[0] == 'var' and rhs is not None and n.get('rcls', BUFFER) == BUFFER:
                    r = fn.root_var(rhs)
                    if r is not None and r[0] == 'field' and r[2] == bf and not any(
                            fn.nodes[x].get('k') == 'call' and fn.nodes[x].get('q', '').startswith(BUFFER + '::') for x in fn.subtree(rhs)):
                        takers.append((n, lhs[1]))
        for (n, d) in takers:
            enq = {m['id'] for m in fn.all_nodes() if _enqueuing(fb, fn, m, U.BUF, memo)}
            carriers = _carriers(fn, enq, d) & _must_enqueue_elems(fb, fn, mmemo)
            w = path_search(fn, _elem(fn, n['id']), _exit_t, lambda e: e in carriers or _abnormal(fn, e))
            R.check(bool(carriers) and w is None, 'F4-swapped-out-buffer-is-sent', '%s#%s' % (fn.q, bf), fn.loc(n['id']),
                    'a local buffer takes over the contents of %s in %s but is not enqueued on every path: the objects collected so far are '
                    'destroyed with the local (lost): %s' % (bf, fn.q, describe_path(fn, w)))
    # F3: the final flush = the method(s) of ParserWithBuffer that enqueue the buffer member itself
    flushers = []
    for fn in _dedupe(fb.functions):
        if not fn.has_cfg or fn.cls != PWB or bf is None:
            continue
        sends = [n for n in fn.all_nodes() if _enqueuing(fb, fn, n, U.BUF, memo)
                 and any((fn.root_var(a) or ('',))[0] == 'field' and fn.root_var(a)[2] == bf and not any(
                     fn.nodes[y].get('k') == 'call' and fn.nodes[y].get('q', '').startswith(BUFFER + '::') for y in fn.subtree(a))
                     for a in n.get('args', []) if a is not None)]
        if not sends:
            continue
        flushers.append(fn)
        key = fn.q + '#' + bf

        def is_committed(x, fn=fn):
            return _is_call(x, BUFFER + '::committed') and (_recv_root(fn, x) or ('',))[0] == 'field' and _recv_root(fn, x)[2] == bf
        for s in sends:
            extra = []
            for (c, sense, _b) in guards_of(fn, s['id']):
                x = fn.sn(c)
                if x is not None and x.get('k') == 'binop' and ((x['op'] == '&&' and sense) or (x['op'] == '||' and not sense)):
                    continue        # its operands are listed separately
                if x is not None and x.get('k') == 'unop' and x['op'] == '!':
                    continue        # likewise
                if x is not None and x.get('k') == 'var' and x.get('vk') == 'local' and U.single_init(fn, x['d']) is not None:
                    continue        # a named condition: its initialiser is listed separately
                if _implies_nonzero(fn, c, sense, is_committed):
                    continue
                extra.append('%s is %s' % (fn.expr(c), 'true' if sense else 'false'))
            R.check(not extra, 'F3-final-flush-sends-whole-buffer', key, fn.loc(s['id']),
                    '%s sends the parser buffer only under an additional condition (%s): committed objects (and the nested buffers hanging '
                    'below them) can stay behind at the end of the file' % (fn.q, '; '.join(extra)))
        R.check(len(sends) == 1, 'F3-final-flush-sends-whole-buffer', key, fn.loc(sends[0]['id']),
                '%s enqueues the parser buffer %d times' % (fn.q, len(sends)))
    if not flushers:
        R.bad('F3-final-flush-sends-whole-buffer', '%s#%s' % (PWB, bf), rec.file + ':%d' % rec.line if rec is not None else PWB,
              'no method of %s enqueues the buffer member %s: whatever the parser has collected when the input ends is never delivered' % (PWB, bf))
    # F2: every run() of a subclass reaches the final flush on all normal paths
    fq = {f.q for f in flushers}
    pwb_h = {r.q for r in fb.derived_from(PWB)}
    if not pwb_h:
        R.broken('no class derived from %s' % PWB)
    for cls in sorted(pwb_h):
        runs = [f for f in fb.fns(cls + '::run') if f.has_cfg]
        for run in runs:
            w = must_call(fb, run, lambda f, n: n.get('q') in fq) if fq else ['no final flush exists']
            R.check(w is None, 'F2-run-flushes-final-buffer', run.q, run.site,
                    '%s can return normally without the final flush (%s): the objects still in the parser buffer (the end of the file) '
                    'are never delivered: %s' % (run.q, ', '.join(sorted(fq)) or 'missing', describe_path(run, w) if w and not isinstance(w[0], str) else w))


# ================================================================================================ entity mask / metadata

DECODER_FILES = ('/io/detail/pbf_decoder.hpp', '/io/detail/pbf_input_format.hpp', '/io/detail/o5m_input_format.hpp',
                 '/io/detail/xml_input_format.hpp', '/io/detail/opl_parser_functions.hpp', '/io/detail/opl_input_format.hpp')


def _creation_sites(fn):
    """[(node, builder class, kind)] constructions of a top-level object builder on a Buffer (directly or via make_unique)."""
    out = []
    for n in fn.all_nodes():
        if n.get('k') == 'construct' and n.get('rcls') in U.OBJECT_BUILDERS and not n.get('copymove'):
            a0 = fn.sn(n['args'][0]) if n.get('args') and n['args'][0] is not None else None
            if a0 is not None and a0.get('t', '').replace('const ', '').startswith(BUFFER):
                out.append((n, n['rcls'], U.OBJECT_BUILDERS[n['rcls']]))
        elif _is_call(n, 'std::make_unique'):
            t = n.get('t', '')
            if t.startswith('std::unique_ptr<') and t[len('std::unique_ptr<'):-1] in U.OBJECT_BUILDERS:
                c = t[len('std::unique_ptr<'):-1]
                out.append((n, c, U.OBJECT_BUILDERS[c]))
    return out


def _mask_verdict(fb, fn, nid, kind, callers, depth=3, stack=()):
    """'ok' if nid executes only under mask `kind`; ('bad', why, site) otherwise.  Looks at the guards in fn; when fn has no mask
    guard for nid, every call site of fn must be guarded instead."""
    ms = U.mask_guards(fn, nid, guards_of)
    wrong = [(k, s) for (k, s) in ms if s and k != kind]
    if any(k == kind and s for (k, s) in ms):
        if wrong:
            return ('bad', 'also nested inside the mask test for %s' % wrong[0][0], fn.loc(nid))
        return 'ok'
    if wrong:
        return ('bad', 'guarded by the mask test for %s instead of %s' % (wrong[0][0], kind), fn.loc(nid))
    if depth == 0 or fn.usr in stack:
        return ('bad', 'no entity-mask test found within the call depth examined', fn.loc(nid))
    sites = callers.get(fn.usr, [])
    if not sites:
        return ('bad', 'not guarded by `read_types & osm_entity_bits::%s` in %s, and no caller found that is' % (kind, fn.q), fn.loc(nid))
    for (g, c) in sites:
        v = _mask_verdict(fb, g, c['id'], kind, callers, depth - 1, stack + (fn.usr,))
        if v != 'ok':
            return ('bad', 'reached through %s: %s' % (g.q, v[1]), v[2])
    return 'ok'


def _callers(fb, files):
    out = {}
    for f in fb.functions:
        if not f.has_cfg:
            continue
        for n in f.all_nodes():
            if n.get('k') == 'call' and n.get('u') and n.get('q', '').startswith('osmium::io::detail::'):
                out.setdefault(n['u'], []).append((f, n))
    return out


def rule_entity_mask(fb, R, files=DECODER_FILES):
    callers = _callers(fb, files)
    for fn in _dedupe(fb.functions):
        if not fn.has_cfg or not fn.file.endswith(files):
            continue
        for (n, cls, kind) in _creation_sites(fn):
            key = '%s#%s' % (fn.q, cls.rsplit('::', 1)[-1])
            v = _mask_verdict(fb, fn, n['id'], kind, callers)
            if v == 'ok':
                R.ok('M1-object-creation-guarded-by-entity-mask', key, fn.loc(n['id']))
            else:
                R.bad('M1-object-creation-guarded-by-entity-mask', key, v[2],
                      'creation of a %s object (%s in %s) is not restricted to readers that selected %ss: %s -- the delivered sequence would not '
                      'be the selected subsequence of the file' % (kind, cls.rsplit('::', 1)[-1], fn.q, kind, v[1]))


def rule_commit(fb, R, files=DECODER_FILES, xml=NS + 'XMLParser'):
    """M5: an object that was built is committed on every normal path (uncommitted data is invisible to the consumer and is
    overwritten / dropped when the buffer is handed over)."""
    callers = _callers(fb, files)

    memo = {}

    def commits(f):
        """commit() calls, and calls of reader-side helpers that commit on every normal path"""
        out = set()
        for n in f.all_nodes():
            if _is_call(n, BUFFER + '::commit'):
                out.add(_elem(f, n['id']))
            elif n.get('k') == 'call' and n.get('q', '').startswith(NS) and n.get('u'):
                gs = [g for g in fb.by_usr.get(n['u'], []) if g.has_cfg]
                if gs and all(must_call(fb, g, lambda _f, m: m.get('q') == BUFFER + '::commit', 2, memo) is None for g in gs):
                    out.add(_elem(f, n['id']))
        return out

    def uncommitted_path(f, start):
        cs = commits(f)
        return path_search(f, start, _exit_t, lambda e: e in cs or _abnormal(f, e))

    for fn in _dedupe(fb.functions):
        if not fn.has_cfg or not fn.file.endswith(files):
            continue
        for (n, cls, kind) in _creation_sites(fn):
            if n.get('k') != 'construct':
                continue            # builders kept in members are finished elsewhere (XML: see below)
            key = '%s#%s' % (fn.q, cls.rsplit('::', 1)[-1])
            if uncommitted_path(fn, _elem(fn, n['id'])) is None:
                R.ok('M5-created-object-committed', key, fn.loc(n['id']), 'committed in the creating function')
                continue
            sites = callers.get(fn.usr, [])
            if not sites:
                R.broken('%s builds a %s but neither commits it nor has a caller in the fact base' % (fn.q, kind))
                continue
            bad = None
            for (g, c) in sites:
                w = uncommitted_path(g, _elem(g, c['id']))
                if w is not None:
                    bad = (g, c, w)
            if bad:
                g, c, w = bad
                R.bad('M5-created-object-committed', key, g.loc(c['id']),
                      'the %s built by %s is not committed on every path after the call in %s (%s): it stays invisible and is lost when the '
                      'buffer is handed over' % (kind, fn.q, g.q, describe_path(g, w)))
            else:
                R.ok('M5-created-object-committed', key, fn.loc(n['id']), 'committed after every call (%d call sites)' % len(sites))
    rec = fb.record(xml)
    if rec is None:
        R.broken('record %s not found' % xml)
        return
    tops = {f['name']: U.OBJECT_BUILDERS[f['t'][len('std::unique_ptr<'):-1]] for f in rec.fields
            if f['t'].startswith('std::unique_ptr<') and f['t'][len('std::unique_ptr<'):-1] in U.OBJECT_BUILDERS}
    nreset = 0
    for fn in _dedupe(fb.functions):
        if not fn.has_cfg or U.owner_class(fb, fn) != xml:
            continue
        for n in fn.all_nodes():
            if _is_call(n, 'std::unique_ptr::reset') and n.get('recv') is not None and \
                    all(a is None or fn.nodes[a].get('defarg') for a in n.get('args', [])):
                r = fn.sn(n['recv'])
                if r is not None and r.get('k') == 'member' and r.get('name') in tops and fn.is_this_member(n['recv']):
                    nreset += 1
                    w = uncommitted_path(fn, _elem(fn, n['id']))
                    R.check(w is None, 'M5-created-object-committed', '%s#%s' % (fn.q, r['name']), fn.loc(n['id']),
                            'after finishing the %s builder (%s.reset()) %s can return without committing the buffer: %s'
                            % (tops[r['name']], r['name'], fn.q, describe_path(fn, w)))
    if nreset == 0:
        R.broken('%s: no reset() of a top-level builder member found' % xml)


def rule_xml_builders(fb, R, cls=NS + 'XMLParser'):
    rec = fb.record(cls)
    if rec is None:
        R.broken('record %s not found' % cls)
        return
    kinds = {}
    for f in rec.fields:
        t = f['t']
        if t.startswith('std::unique_ptr<') and t.endswith('>'):
            inner = t[len('std::unique_ptr<'):-1]
            k = U.OBJECT_BUILDERS.get(inner) or U.SUB_BUILDERS.get(inner)
            if k:
                kinds[f['name']] = k
    if len(kinds) < 4:
        R.broken('%s: fewer than 4 builder members of a known kind (%s)' % (cls, sorted(kinds)))
        return
    callers = _callers(fb, ())
    for fn in _dedupe(fb.functions):
        if not fn.has_cfg or U.owner_class(fb, fn) != cls:
            continue
        per = {}
        for n in fn.all_nodes():
            if n.get('k') != 'call' or not n.get('q', '').startswith('std::unique_ptr::') or n.get('recv') is None:
                continue
            op = n['q'].rsplit('::', 1)[-1]
            if op not in ('operator*', 'operator->', 'operator=', 'get'):
                continue
            r = fn.sn(n['recv'])
            if r is None or r.get('k') != 'member' or r.get('name') not in kinds or not fn.is_this_member(n['recv']):
                continue
            k = kinds[r['name']]
            ms = U.mask_guards(fn, n['id'], guards_of)
            good = any(mk == k and s for (mk, s) in ms) and not any(mk != k and s for (mk, s) in ms)
            if not good and not ms:
                # a helper of the class without a mask test of its own: every call site must be guarded (body = inlined)
                good = _mask_verdict(fb, fn, n['id'], k, callers) == 'ok'
            cur = per.setdefault(r['name'], [True, None, k])
            if not good and cur[0]:
                cur[0] = False
                cur[1] = (n, ms)
        for name, (ok, info, k) in sorted(per.items()):
            key = '%s#%s' % (fn.q, name)
            if ok:
                R.ok('M3-xml-builder-used-under-own-mask', key, fn.site)
            else:
                n, ms = info
                R.bad('M3-xml-builder-used-under-own-mask', key, fn.loc(n['id']),
                      '%s uses %s (%s of a %s) outside a region guarded by `read_types() & osm_entity_bits::%s` (guards seen: %s): the member is '
                      'only set when %ss are selected -- null dereference, or data of another entity kind is built'
                      % (fn.q, name, n['q'].rsplit('::', 1)[-1], k, k, ms or 'none', k))


PBF_FILES = ('/io/detail/pbf_decoder.hpp', '/io/detail/pbf_input_format.hpp')


def rule_pbf_fields(fb, R, files=PBF_FILES):
    for fn in _dedupe(fb.functions):
        if not fn.has_cfg or not fn.file.endswith(files):
            continue
        mvars = {}
        for n in fn.all_nodes():
            if n.get('k') == 'decl':
                for v in n['vars']:
                    tc = v['tC'].replace('const ', '')
                    if tc.startswith('protozero::pbf_message<') or tc == 'protozero::pbf_reader':
                        mvars[v['d']] = v
        for d, v in mvars.items():
            def on_v(n, d=d):
                r = _recv_root(fn, n)
                return r is not None and r[0] == 'var' and r[1] == d
            nexts = [n for n in fn.all_nodes() if n.get('k') == 'call' and n.get('q', '').startswith('protozero::pbf_') and
                     n['q'].rsplit('::', 1)[-1] == 'next' and on_v(n)]
            cons = [n for n in fn.all_nodes() if n.get('k') == 'call' and n.get('q', '').startswith('protozero::pbf_') and
                    (n['q'].rsplit('::', 1)[-1].startswith('get_') or n['q'].rsplit('::', 1)[-1] == 'skip') and on_v(n)]
            if not nexts:
                continue
            # the message object handed by reference to another function (extracted helper): that callee consumes
            for n in fn.all_nodes():
                if n.get('k') == 'call' and not n.get('q', '').startswith(('protozero::', 'std::')) and any(
                        a is not None and (fn.sn(a) or {}).get('k') == 'var' and (fn.sn(a) or {}).get('d') == d for a in n.get('args', [])):
                    cons.append(n)
            key = '%s#%s' % (fn.q, v['tC'].replace('protozero::pbf_message<', '').rstrip('>'))
            ne = {_elem(fn, n['id']) for n in nexts}
            ce = {_elem(fn, n['id']) for n in cons}
            ok = True
            for nx in nexts:
                ct = _cond_tests(fn, lambda x, nx=nx: x.get('id') == nx['id'])
                if len(ct) != 1 or ct[0][2] is None:
                    R.broken('%s: next() on %s is not a loop/branch condition' % (fn.q, v['name']))
                    ok = None
                    continue
                w = path_search(fn, ct[0][2], lambda e: e in ne, lambda e: e in ce or _abnormal(fn, e),
                                from_block_start=True)
                if w is not None:
                    ok = False
                    R.bad('M2-pbf-field-consumed-once', key, fn.loc(w[-1]) if not isinstance(w[-1], tuple) else fn.loc(nx['id']),
                          'in %s a field of %s can reach the next %s.next() without being read or skipped (e.g. the field of an entity type '
                          'that is not selected): protozero then decodes the field body as the next tag -- garbage objects or a spurious '
                          'error: %s' % (fn.q, v['t'], v['name'], describe_path(fn, w)))
            for c in cons:
                w = path_search(fn, _elem(fn, c['id']), lambda e: e in ce, lambda e: e in ne)
                if w is not None:
                    ok = False
                    R.bad('M2-pbf-field-consumed-once', key, fn.loc(c['id']),
                          'in %s a field of %s can be consumed twice before the next next(): %s' % (fn.q, v['t'], describe_path(fn, w)))
            if ok:
                R.ok('M2-pbf-field-consumed-once', key, fn.loc(nexts[0]['id']), '%d consuming calls' % len(cons))


META_NAMES = ('set_version', 'set_changeset', 'set_timestamp', 'set_uid', 'set_uid_from_signed', 'set_visible', 'set_user', 'set_deleted')


def _is_content(n):
    """Call that creates / changes object content other than metadata."""
    q = n.get('q', '')
    if n.get('k') not in ('call', 'construct') or not q.startswith('osmium::'):
        return False
    name = q.rsplit('::', 1)[-1]
    if name in META_NAMES:
        return False
    rc = n.get('rcls', '')
    if rc.startswith('osmium::builder::'):
        return name not in ('object', 'cobject', '(dtor)')
    if q == BUFFER + '::commit':
        return True
    if rc in ('osmium::OSMObject', 'osmium::Node', 'osmium::Way', 'osmium::Relation', 'osmium::Changeset', 'osmium::OSMEntity'):
        return name.startswith(('set_', 'add_'))
    return False


def _is_meta(n):
    return n.get('k') == 'call' and n.get('q', '').startswith('osmium::') and n['q'].rsplit('::', 1)[-1] in META_NAMES


def _meta_of(fb, roots, depth=2):
    out = set()
    for (g, _p, _c) in U.reach(fb, roots, depth, stop=lambda f: not f.q.startswith('osmium::io::detail::')).values():
        if g.q.startswith('osmium::io::detail::'):
            out |= {n['q'] for n in g.all_nodes() if _is_meta(n)}
    return out


def _content_of(fb, roots, depth=2):
    out = set()
    for (g, _p, _c) in U.reach(fb, roots, depth, stop=lambda f: not f.q.startswith('osmium::io::detail::')).values():
        if not g.q.startswith('osmium::io::detail::'):
            continue
        for n in g.all_nodes():
            if _is_content(n):
                out.add(n['q'])
    return out


def _region_calls(fn, blk, side):
    """Call nodes that execute only when blk's condition evaluated to `side`."""
    out = []
    pos = fn.positions()
    for n in fn.all_nodes():
        if n.get('k') not in ('call', 'construct') or 'q' not in n or n['id'] not in pos:
            continue
        for (c, s, b) in guards_of(fn, n['id']):
            if b == blk['id'] and c == blk['cond'] and bool(s) == side:
                out.append(n)
                break
    return out


def rule_read_meta(fb, R, files=DECODER_FILES):
    nfound = 0
    for fn in _dedupe(fb.functions):
        if not fn.has_cfg or not fn.file.endswith(files):
            continue
        for blk in fn.blocks.values():
            if 'cond' not in blk or len(blk['succs']) != 2 or blk.get('termcls') not in ('IfStmt', 'ConditionalOperator'):
                continue
            x = fn.sn(blk['cond'])
            if x is None or x.get('k') != 'binop' or x['op'] not in ('==', '!='):
                continue
            en = None
            for o in (x['lhs'], x['rhs']):
                e = fn.sn(o)
                if e is not None and e.get('vk') == 'enumconst' and e.get('q', '').startswith('osmium::io::read_meta::'):
                    en = e['q'].rsplit('::', 1)[-1]
            if en is None:
                continue
            nfound += 1
            yes_side = (en == 'yes') == (x['op'] == '==')
            yes = _region_calls(fn, blk, yes_side)
            no = _region_calls(fn, blk, not yes_side)
            key = '%s#read_meta@%s' % (fn.q, _case_name(fn, blk) or 'body')
            no_osm = [n for n in no if n['q'].startswith('osmium::') and n.get('k') == 'call']
            yes_osm = [n for n in yes if n['q'].startswith('osmium::') and n.get('k') == 'call']
            my = _meta_of(fb, [g for n in yes_osm for g in U.bodies(fb, n)]) | {n['q'] for n in yes if _is_meta(n)}
            mn = _meta_of(fb, [g for n in no_osm for g in U.bodies(fb, n)]) | {n['q'] for n in no if _is_meta(n)}
            if not no_osm:
                # the `no` side only skips: the `yes` side must not create content
                cont = _content_of(fb, [g for n in yes_osm for g in U.bodies(fb, n)]) | {n['q'] for n in yes if _is_content(n)}
                R.check(not cont and bool(my), 'M4-read-meta-guards-only-metadata', key, fn.loc(blk['cond']),
                        'the read_meta::yes side in %s does more than decode metadata (%s): with read_meta::no that content would be missing'
                        % (fn.q, ', '.join(sorted(cont)) or 'no metadata is decoded there'))
            else:
                cy = _content_of(fb, [g for n in yes_osm for g in U.bodies(fb, n)])
                cn = _content_of(fb, [g for n in no_osm for g in U.bodies(fb, n)])
                ok = R.check(cy == cn and bool(cn), 'M4-read-meta-guards-only-metadata', key, fn.loc(blk['cond']),
                             'the functions selected by read_meta in %s do not make the same object-content calls: only with metadata: %s; only '
                             'without: %s' % (fn.q, sorted(cy - cn), sorted(cn - cy)))
                if ok:
                    R.check(bool(my) and not mn, 'M4-read-meta-guards-only-metadata', key, fn.loc(blk['cond']),
                            'the read_meta::yes side of %s must be the one that decodes metadata (metadata calls with yes: %s; with no: %s)'
                            % (fn.q, sorted(my) or 'none', sorted(mn) or 'none'))
    if nfound == 0:
        R.broken('no read_meta test found in the decoders')


OPTION_TYPES = ('osmium::osm_entity_bits::type', 'osmium::io::read_meta')


def _is_constant(fn, nid):
    x = fn.sn(nid)
    if x is None:
        return True
    if x.get('k') == 'var' and x.get('vk') == 'enumconst':
        return True
    if x.get('k') == 'lit':
        return True
    return x.get('k') not in ('var', 'member', 'call') and 'cv' in x


OPTION_FILES = ('/io/reader.hpp', '/io/detail/input_format.hpp') + DECODER_FILES


def rule_mask_forwarded(fb, R, files=OPTION_FILES):
    """M6: the entity mask and the read_meta switch the user gave to the Reader reach the decoders unchanged: on the way they are
    never replaced by a constant (constructor initialisers, constructor / call arguments, accessors)."""
    n_inst = 0
    for fn in _dedupe(fb.functions):
        if not fn.has_cfg or not fn.file.endswith(files):
            continue
        rec = fb.record(fn.cls) if fn.cls else None
        # constructor initialisers of option-typed members (classes that get the options handed in, i.e. have such a ctor parameter
        # or a parameter object carrying them)
        if fn.kind == 'ctor' and rec is not None and fn.cls != READER:
            for n in fn.all_nodes():
                if n.get('k') != 'init' or not n.get('name') or not isinstance(n.get('init'), int):
                    continue
                fld = rec.field(n['name'])
                if fld is None or fld['tC'].replace('const ', '') not in OPTION_TYPES:
                    continue
                n_inst += 1
                r = fn.root_var(n['init'])
                ok = not _is_constant(fn, n['init']) and r is not None and r[0] == 'var' and any(p['d'] == r[1] for p in fn.params)
                R.check(ok, 'M6-read-options-forwarded', '%s#%s' % (fn.q, n['name']), fn.loc(n['id']),
                        '%s initialises %s with %s instead of the value handed to the constructor: the entity selection / metadata switch of '
                        'the Reader would not reach the decoder' % (fn.q, n['name'], fn.expr(n['init'])))
        # option-typed arguments handed on
        for n in fn.all_nodes():
            if n.get('k') not in ('call', 'construct') or 'q' not in n or n['q'].startswith(('std::', 'osmium::osm_entity_bits::operator')):
                continue
            if n.get('copymove'):
                continue
            for i, a in enumerate(n.get('args', [])):
                if a is None:
                    continue
                x = fn.nodes[a]
                if (x.get('t') or '').replace('const ', '') not in OPTION_TYPES:
                    continue            # a defaulted option parameter counts as a constant: the caller's option is not handed on
                if fn.cls == READER and n['q'].startswith(READER + '::'):
                    continue        # option parsing of the variadic constructor (set_option / delegating constructor)
                n_inst += 1
                R.check(not _is_constant(fn, a), 'M6-read-options-forwarded', '%s#%s:%d' % (fn.q, n['q'], i), fn.loc(n['id']),
                        '%s passes the constant %s to %s where the reader option must be handed on: the entity selection / metadata switch '
                        'of the Reader would be ignored downstream' % (fn.q, fn.expr(a), n['q']))
        # accessors: a parameterless method returning an option type returns the member of that type
        if rec is not None and fn.kind == 'method' and not fn.params and fn.retC.replace('const ', '') in OPTION_TYPES:
            flds = [f['name'] for f in rec.fields if f['tC'].replace('const ', '') == fn.retC.replace('const ', '')]
            rets = [n for n in fn.all_nodes() if n.get('k') == 'return' and 'sub' in n]
            n_inst += 1
            ok = bool(rets) and all(fn.is_this_member(U.resolve(fn, r['sub'])) and (fn.sn(U.resolve(fn, r['sub'])) or {}).get('name') in flds for r in rets)
            R.check(ok, 'M6-read-options-forwarded', fn.q + '#return', fn.site,
                    '%s must return the %s member (%s)' % (fn.q, fn.retC, ', '.join(flds)))
    if n_inst == 0:
        R.broken('no hand-over of the entity mask / read_meta option found')


def _single_version_guard(fn, nid, depth=0):
    """nid executes only after <File>.has_multiple_object_versions() was seen to be false (directly, through a named local, or
    -- for a private helper -- at every call site inside the class)."""
    for (c, sense, _b) in guards_of(fn, nid):
        x = fn.sn(c)
        if x is not None and x.get('k') == 'var' and x.get('vk') == 'local':
            init = U._single_init(fn, x['d'])
            hops = 0
            while init is not None and hops < 4:
                y = fn.sn(init)
                if y is not None and y.get('k') == 'unop' and y.get('op') == '!':
                    sense = not sense
                    init = y['sub']
                    hops += 1
                else:
                    break
            x = fn.sn(init) if init is not None else None
        if _is_call(x, 'osmium::io::File::has_multiple_object_versions') and not sense:
            return True
    return False


def rule_meta_history(fb, R, reader=READER):
    """M7: for files with several versions of an object (history / change files) visibility travels in the metadata, so the Reader
    must never hand read_meta::no to the parsers for them: every store of a non-constant (or `no`) value into the read_meta member
    happens only after has_multiple_object_versions() was false."""
    rec = fb.record(reader)
    if rec is None:
        R.broken('record %s not found' % reader)
        return
    flds = [f['name'] for f in rec.fields if f['tC'].replace('const ', '') == 'osmium::io::read_meta']
    if len(flds) != 1:
        R.broken('%s: expected one member of type osmium::io::read_meta, found %d' % (reader, len(flds)))
        return
    mf = flds[0]
    callers = {}
    for f in fb.functions:
        if f.has_cfg and U.owner_class(fb, f) == reader:
            for n in f.all_nodes():
                if n.get('k') == 'call' and n.get('u') and n.get('rcls') == reader:
                    callers.setdefault(n['u'], []).append((f, n))

    def guarded(f, nid, depth=2):
        if _single_version_guard(f, nid):
            return True
        # a private / protected helper: every call site inside the class must be guarded (public setters stand for themselves)
        if depth == 0 or f.access == 'public' or f.kind == 'ctor':
            return False
        sites = [(g, c) for (g, c) in callers.get(f.usr, []) if g.q != f.q]
        return bool(sites) and all(guarded(g, c['id'], depth - 1) for (g, c) in sites)

    key = '%s#%s' % (reader, mf)
    nstores = 0
    bad = None
    for fn in _dedupe(fb.functions):
        if not fn.has_cfg or U.owner_class(fb, fn) != reader:
            continue
        for n in fn.all_nodes():
            val = None
            if n.get('k') == 'assign' and n.get('op') == '=' and fn.is_this_member(n['lhs'], mf):
                val = n['rhs']
            elif n.get('k') == 'init' and n.get('name') == mf and isinstance(n.get('init'), int):
                val = n['init']
            if val is None:
                continue
            v = fn.sn(val)
            if v is not None and v.get('vk') == 'enumconst' and v.get('q', '').endswith('::yes'):
                continue            # metadata on: always safe
            nstores += 1
            if not guarded(fn, n['id']) and bad is None:
                bad = (fn, n)
    if nstores == 0:
        R.broken('%s: no store of a caller-supplied value into %s found (set_option(read_meta) expected)' % (reader, mf))
    elif bad:
        fn, n = bad
        R.bad('M7-no-meta-only-for-single-version-files', key, fn.loc(n['id']),
              '%s stores a caller-supplied read_meta value into %s without having seen has_multiple_object_versions() false: with '
              'read_meta::no on a history / change file the PBF decoder skips the Info message that carries the visible flag, so deleted '
              'versions are delivered as live objects' % (fn.q, mf))
    else:
        R.ok('M7-no-meta-only-for-single-version-files', key, '%s:%d' % (rec.file, rec.line), '%d stores, all guarded' % nstores)


def _case_name(fn, blk):
    """Name of the last enumerator in the case label that dominates blk (for a stable key), or None."""
    dom = fn.dominators().get(blk['id'], set()) | {blk['id']}
    best = None
    for b in dom:
        lab = fn.blocks[b].get('label')
        if lab and lab.get('case') is not None:
            names = [fn.nodes[y].get('q', '').rsplit('::', 1)[-1] for y in fn.subtree(lab['case'])
                     if fn.nodes[y].get('k') == 'var' and fn.nodes[y].get('vk') == 'enumconst']
            if names and (best is None or b < best[0]):
                best = (b, names[0])
    return best[1] if best else None


# ================================================================================================ driver

def all_rules(fb, R, files=DECODER_FILES, pbf_files=PBF_FILES, opt_files=OPTION_FILES):
    rule_producers(fb, R)
    types = rule_pool_tasks(fb, R)
    rule_pool_task_state(fb, R, types)
    rule_push_precedes_work(fb, R, types)
    rule_reader_read(fb, R)
    rule_last_nested_guarded(fb, R)
    rule_wrapper_pop(fb, R)
    rule_iterator(fb, R)
    rule_iterator_refill(fb, R)
    rule_end_marker(fb, R)
    rule_nested_buffers(fb, R)
    rule_parser_flush(fb, R)
    rule_entity_mask(fb, R, files)
    rule_xml_builders(fb, R)
    rule_commit(fb, R, files)
    rule_pbf_fields(fb, R, pbf_files)
    rule_read_meta(fb, R, files)
    rule_mask_forwarded(fb, R, opt_files)
    rule_meta_history(fb, R)


def run(ctx):
    R = ctx.R
    configs = ['ndebug14'] if ctx.tier == 'quick' else ['ndebug14', 'debug14', 'ndebug17', 'debug17']
    for cfg in configs:
        fb = ctx.facts(['io_read'], cfg)
        all_rules(fb, R)
        # FIFO monitor: the C19 Queue rules on the explicit instantiations (Queue<future<Buffer>>, Queue<future<string>>, ...)
        c19.queue_rules(ctx.facts(['thread'], cfg), R)
    # floors: instances confirmed by reading the tree
    R.expect('W1-pool-task-never-enqueues', 1)               # PBFDataBlobDecoder
    R.expect('W4-pool-task-shares-no-mutable-state', 1)      # PBFDataBlobDecoder
    R.expect('W2-queue-producer-role', 6)                    # Parser::send_to_output_queue x2, Parser::parse x2, run_in_thread x2
    R.expect('W2-thread-enqueues-only-its-queue', 5)         # 2 queues, 2 producing entries, consumer side
    R.expect('W3-one-parser-thread', 1)                      # Reader constructor
    R.expect('O1-submit-future-enqueued-directly', 1)        # PBFParser::parse_data_blobs
    R.expect('O1-one-enqueue-per-blob', 1)
    R.expect('R1-back-buffers-drained-before-pop', 1)
    R.expect('R2-last-nested-needs-nested', 3)               # Reader::read x2 (back branch, after pop), flush_nested_buffer
    R.expect('R2-whole-buffer-only-without-nested', 1)
    R.expect('R3-popped-nested-buffer-stashed', 1)
    R.expect('R4-end-of-data-marks-eof', 1)
    R.expect('R4-pop-only-in-status-okay', 1)
    R.expect('R5-wrapper-pop-returns-future-value', 1)
    R.expect('R6-end-marker-is-invalid-buffer', 2)           # at_end_of_data(Buffer), Buffer::operator bool
    R.expect('I1-iterator-refills-only-at-buffer-end', 1)
    R.expect('I1-iterator-skips-only-empty-buffers', 1)
    R.expect('B1-last-nested-walks-to-tail', 1)
    R.expect('B2-grow-internal-chains-older', 1)
    R.expect('B3-nested-buffer-never-empty', 1)              # Buffer::reserve_space
    R.expect('B4-move-keeps-nested-chain', 3)                # move ctor, move assignment, swap
    R.expect('F1-taken-nested-buffer-is-sent', 1)            # flush_nested_buffer
    R.expect('F2-run-flushes-final-buffer', 3)               # XML, O5m, OPL
    R.expect('F3-final-flush-sends-whole-buffer', 1)
    R.expect('F4-swapped-out-buffer-is-sent', 1)             # maybe_new_buffer
    R.expect('M1-object-creation-guarded-by-entity-mask', 16)   # PBF 5, o5m 3, XML 4, OPL 4
    R.expect('M2-pbf-field-consumed-once', 15)               # every protozero message loop of the PBF reader
    R.expect('M3-xml-builder-used-under-own-mask', 12)       # data_level_element 4, start_element 7, end_element 1
    R.expect('M4-read-meta-guards-only-metadata', 4)         # decode_node/way/relation Info, dense selection
    R.expect('M5-created-object-committed', 16)              # 12 local builders + 4 XML builder members
    R.expect('M7-no-meta-only-for-single-version-files', 1)  # Reader::m_read_metadata (set_option(read_meta))
    R.expect('M6-read-options-forwarded', 15)                # 6 ctor initialisers, 7 arguments handed on, 2 accessors
    R.expect('Q1-access-under-lock', 6)  # same floor as C19 (a bare wait loop instead of a predicate lambda lowers the count)
    R.expect('Q2-insert-notifies-consumers', 1)
    R.expect('Q6-front-before-pop', 3)
    R.expect('Q7-push-inserts', 2)


POSITIVE = ('c05_reader.cpp',)


def _selftest(fb, R):
    all_rules(fb, R, files=POSITIVE, pbf_files=POSITIVE, opt_files=POSITIVE)


SELFTESTS = [(r, 'c05_reader.cpp', _selftest) for r in (
    'W1-pool-task-never-enqueues', 'W4-pool-task-shares-no-mutable-state', 'W2-queue-producer-role', 'W2-thread-enqueues-only-its-queue', 'W3-one-parser-thread',
    'O1-submit-future-enqueued-directly', 'O1-one-enqueue-per-blob', 'R1-back-buffers-drained-before-pop', 'R2-last-nested-needs-nested',
    'R2-whole-buffer-only-without-nested', 'R3-popped-nested-buffer-stashed', 'R4-end-of-data-marks-eof', 'R4-pop-only-in-status-okay',
    'R5-wrapper-pop-returns-future-value', 'R6-end-marker-is-invalid-buffer', 'I1-iterator-refills-only-at-buffer-end',
    'I1-iterator-skips-only-empty-buffers', 'B1-last-nested-walks-to-tail', 'B2-grow-internal-chains-older', 'B3-nested-buffer-never-empty',
    'B4-move-keeps-nested-chain', 'F1-taken-nested-buffer-is-sent', 'F2-run-flushes-final-buffer', 'F3-final-flush-sends-whole-buffer',
    'F4-swapped-out-buffer-is-sent', 'M1-object-creation-guarded-by-entity-mask', 'M2-pbf-field-consumed-once',
    'M3-xml-builder-used-under-own-mask', 'M4-read-meta-guards-only-metadata', 'M5-created-object-committed', 'M6-read-options-forwarded',
    'M7-no-meta-only-for-single-version-files')]
