"""C11 -- relation managers complete each relation exactly once with all its members (PAIR + SORTED + ordering).

Decided (DESIGN.md section 5 "C11" clause in brackets); every instance is keyed by what the property REQUIRES, so a
deleted construct is a violated instance:
 S1 [3] the key of every binary search on MembersDatabaseCommon's element vector is a prefix of the key of every sort
        of that vector (same accessor, direction and component comparison) -- SORTED engine, osmlint/sorted.py
 S2 [3] the searched vector is sorted by some method of the class (whole range, ascending)
 S3 [3] phase partition: no method of the database object both inserts into the vector (order-breaking) and searches it
 S4 [3] the search-key field of a stored element is never written outside the element's constructors
 S5 [3] one method of RelationsManagerBase runs the sort step on EVERY MembersDatabase<> member on every path
 S6 [3] read_relations() runs that method on each manager parameter, after the first-pass apply(), on every path
 S7 [3] (configurations where the debug-only phase flag exists, i.e. thorough tier) the flag is written only by the
        sort step, every public lookup method asserts "sorted" before it searches, every inserting method asserts
        "not yet sorted"
 T1 [2] track(): exactly one insertion and exactly one increment_members() on the handle parameter per call
 T2 [2,3] element field roles: the handle position passed by track() lands in the field that add()/remove() use to index
        the relations database; the member id lands in the search-key field; the search value built by find() carries
        find()'s parameter in the search-key field
 A1 [2] add(): looks the object up by object.id(); one decrement_members() per element of the found range, on the handle
        of that element's relation
 A2 [2] add(): has_all_members() is tested after each decrement, on the same handle, and the functor is called exactly
        when it is true, with that handle
 A3 [1] add(): the object is stored (stash add_item, handle written to every element of the range through a reference)
        before any completion functor can run
 A4     add(): returns false exactly when no element was found (objects no relation needs are reported as such)
 R1 [5] remove(): the stash release is guarded by count_not_removed(found range) == 1; the count ignores exactly the
        elements carrying the removed mark; count and release happen before any marking
 R2 [5] remove(): the searched parameter is the one every caller feeds with RelationMember::ref(), the parameter compared
        with the relation's id() is the one fed with the relation id
 R3 [5] remove(): exactly one element is marked per call -- not yet marked, belonging to that relation, through a
        reference, and the loop is left afterwards
 R4 [F23] remove(): after the stash release of a handle read from the found range no element of that range keeps it: on
        every path after the release the whole range is walked by an element loop (entered only when the object was
        released) that stores a default-constructed handle into the handle field of every element, unconditionally and
        through a mutable reference -- or the range is erased.  get_object() dereferences every handle that is valid(),
        so a kept handle is a wild pointer for "a later lookup reports them as absent" (defect F23, fixed in /repo).
        RelationsDatabase::remove's analogue is I1 (#stash-release-then-handle-invalidated).  Not accepted (would need an
        all-of-range quantifier in get_object, which G1 cannot classify either): leaving the handles and refusing in
        the lookup.
 H1 [1] handle_complete_relation(): the complete_relation() callback runs exactly once with *handle and dominates every
        call that reaches ItemStash::remove_item; every member with ref != 0 (and only guarded by that test) is released
        once per iteration with (member.ref(), handle->id()) on member_database(member.type()); the relation itself is
        released exactly once, after the members; the output is offered to possibly_flush() after the callback (here or
        in every second-pass caller)
 H2 [2] handle_node/way/relation(): the functor given to add() passes its handle to that completion routine exactly once
 H3     handle_node/way/relation(): X_not_in_any_relation() is called exactly when add() returned false
 W1 [4] relation(): every member of the STORED copy is either tracked (interest test true) or zeroed (interest test
        false), never both or neither; set_ref(0) has no other writer in the manager classes; the relation is stored
        only if new_relation() accepted it
 W2 [2] relation(): the member position passed to track() is a counter from 0 incremented once per member, after its use
 W3 [4] every consumer in a manager class that uses member.ref() as a lookup / release key skips ref() == 0
 D1     member_database(type): for type == item_type::X every reachable return yields the MembersDatabase<T> member with
        T::itemtype == X (both overloads; DISPATCH, value-directed CFG walk)
 I1     a released relation is not listed as incomplete: RelationsDatabase::remove releases the stash item and then
        invalidates the handle; for_each_relation visits every position and calls back only for valid handles;
        for_each_incomplete_relation forwards to it
 P1     wanted_type(): in every instantiation, for each of node/way/relation the result (all returns reachable for that
        value, template flags being constants) is true exactly when the second-pass handler that feeds the
        MembersDatabase<T> with T::itemtype == that value is enabled in the same instantiation.  This is the pairing
        TNodes<->node, TWays<->way, TRelations<->relation, derived from handle_node/way/relation rather than from names
 P2     an overriding new_relation() (MultipolygonManager, MultipolygonManagerLegacy) accepts a relation only through an
        existential test over relation.members() (std::any_of, directly, through a named bool or as the guard of the
        accepting return) whose member predicate is true only for member types the manager's wanted_type accepts.  The
        base class does NOT handle "zero wanted members": relation() stores every relation new_relation() accepts, the
        member counter stays 0, completion is only triggered from add() when a member arrives, so such a relation is
        never completed and is listed by for_each_incomplete_relation forever -- the any_of in new_relation is the only
        protection (observation: with the default new_relation() == true the base class has the same behaviour for
        relations without wanted members; no rule fires on that without a replayed history)
 "every element" loops (member release in handle_complete_relation, tracking loop in relation(), decrement loop in add(),
        handle store in add_object, handle invalidation in remove(), counting loop): no iteration may leave the loop
        without reaching the advance (break / return on a per-element condition); reported under H1 / W1 / A1 / A3 / R4 /
        R1 respectively
 B1     output buffers: every class of the anchor set that constructs osmium::memory::Buffer objects with an explicit growth
        mode uses ONE mode for all of them (CallbackBuffer: both constructors and read()), and auto_grow::internal occurs
        only in a class that drains nested buffers (get_last_nested / has_nested_buffers) -- CallbackBuffer, ItemStash
        and the managers do not, so everything written after the first internal growth would never reach the flush
        callback
 O1     const / non-const overload twins (RelationMember, RelationMemberList, Relation, OSMObject, Item, Collection<>,
        CollectionIterator<>, ItemStash, the databases, RelationHandle, the managers, CallbackBuffer): same CFG shape and
        same top-level statements / conditions modulo const, cbegin/begin and const_iterator/iterator; a twin that only
        delegates (`return cbegin();`) stands for its delegate; twins with the same ingredients (callees, fields,
        constants, operators) in a different arrangement are accepted without further comparison (prefer a miss); twins
        whose ingredients differ (a dropped branch such as the full-member skip in RelationMember::next) are a violation
 L1     lost update (all classes of the anchor set: members/relations database, handle, managers, ItemStash and its
        cleanup_helper, CallbackBuffer): a local initialised from a call that returns a non-const lvalue reference (or a
        std container element) and then written must be a reference, unless the written value is read again: otherwise
        the update never reaches the storage the call designated (ItemStash::remove_item's index slot,
        RelationsDatabase::remove's element)
 I2     ItemStash index: remove_item stores a constant (the removed marker) exactly once into an element of the stash's
        index vector -- through reference locals / the reference-returning accessor, not into a copy; the garbage-
        collection callback stores the new offset into an element of the index it holds BY REFERENCE; garbage_collect
        binds it to the stash's own index
 G1     retrievability: every condition evaluated on a path to a `return nullptr` of get_object() is either "found range
        is empty" or "the object handle stored in the found range is invalid"; a condition reading the removed mark of
        ONE (member, relation) entry is a violation (removal is per entry, retrievability per member: members stay
        available until the last relation needing them completed); any other condition is analysis-broken; the
        non-null answer is the stash item of the handle stored in the found range; MembersDatabase<T>::get forwards
        get_object(id) unconditionally
 C1 [2] the member counter: starts at 0 in RelationsDatabase::add (which returns the handle of the element just pushed),
        increment is ++, decrement is --, has_all_members is == 0, all on RelationsDatabase::members(m_pos)

Spelling independence (behaviour-preserving rewrites must stay silent, violations inside them must still fire):
 * every per-function rule is first decided on the function as written; if it does not hold there it is decided again on
   a view in which the function's own helpers -- methods of the same object, called on `this`, that take part in the
   protocol (touch a database / handle / stash, call a functor parameter, contain an element loop, mutate a member
   container) -- are expanded in place (c11_util.inline_calls: callee blocks spliced into the CFG, parameters aliased to
   the argument expressions).  The subject of a role is the OUTERMOST function having it, so an extracted helper is
   analysed as part of the method it was extracted from;
 * loops are "element loops" (c11_util.elem_loops): range-for, iterator for, iterator while; loop membership is taken
   from the CFG, not from source ranges;
 * named locals are looked through (c11_util.origin, guard_conds): `auto& db = member_database(t)`, `const bool last =
   (live == 1)`, `const auto handle = range.begin()->object_handle`, early `continue`/`return` versus if/else;
 * D1 walks the CFG for each item_type value (switch, if-chain or a mixture); the live-reference count may be
   std::count_if or an equivalent counting loop.

NOT decided: exactly-once completion for all histories; identity of the retrieved member objects with the input; the
behaviour of lookups after release (MembersDatabaseCommon::get_object dereferences the stash handle of an already
released member -- DESIGN.md section 7 observation, no rule here decides it); that the user calls prepare_for_lookup()
between the passes when not using read_relations(); ItemStash internals (C15); CheckOrder (C16).  The read_relations()
overload taking a ProgressBar is not instantiated by the drivers and therefore not examined.  Clause [1] "possibly_flush
follows the callback" is implemented in the weaker inter-procedural form stated under H1 because a flush inside
handle_complete_relation is redundant with the one every second-pass handler performs after add().
"""
from ..c11_util import exit_t as exit_t_, is_noreturn as is_noreturn_
from ..c11_util import (Collector, eval_bool, loop_escape, call_edge_filter, elem_loops, inline_calls, loop_contains, calls, can_follow, counts_from_zero_by_one, every_path_passes, exactly_once, guard_conds, live,
                        nonzero_guarded, origin, param_root, root_through_refs, subtree_calls, var_edge_filter, zero_test)
from ..flow import describe_path
from .. import sorted as S

EXPLANATION = (
    'Decided: structural necessary conditions of the relations manager protocol -- sort/search key agreement and phase '
    'partition of the members database (SORTED), count pairing of track()/add() (one insert + one increment; one decrement per '
    'found element, completion functor iff the counter reached zero, object stored first), release discipline of remove() '
    '(stash release only for the last live reference, counted before marking, exactly one element marked), order of '
    'handle_complete_relation() (callback exactly once and before every release, every wanted member released, relation released '
    'once), the wanted-member marking (tracked xor zeroed; every consumer skips ref 0), the item_type dispatch of '
    'member_database(), the member counter operations and the incomplete-relation listing. NOT decided: exactly-once completion '
    'over all histories, object identity, lookup-after-release behaviour, that user code calls prepare_for_lookup() between the '
    'passes, ItemStash internals.')
ASSUMPTIONS = ['std::sort / std::equal_range / std::count_if behave per the standard',
               'the manager instantiations of drivers/relarea.cpp (all three member kinds; ways only; MultipolygonManager) cover the '
               'template parameter space that changes control flow',
               'derived classes override the CRTP hooks only (complete_relation, new_relation, new_member, before_/after_/not_in_any_)']

KNOWN = []

ESC = ('a later element is never reached: an iteration can leave the loop without advancing (break / return inside the '
       'body): ')

NS = 'osmium::relations::'
MDC = NS + 'MembersDatabaseCommon'
MD = NS + 'MembersDatabase'
RDB = NS + 'RelationsDatabase'
RH = NS + 'RelationHandle'
RMB = NS + 'RelationsManagerBase'
RM = NS + 'RelationsManager'
STASH = 'osmium::ItemStash'
MEMBER = 'osmium::RelationMember'


class Model(object):
    """Anchors found by role, shared by the rule groups."""
    pass


def _site_id(fn, n):
    """Identity of a node across the plain and the inlined view of a function (never used as an instance key)."""
    return (n.get('f', fn.file), n.get('o'))


def _tops(fns):
    """Of several candidate functions for one role keep the outermost: drop those called by another candidate (an
    extracted helper shares the role-defining statement with the method it was extracted from)."""
    usrs = {f.usr for f in fns}
    called = set()
    for f in fns:
        for n in f.all_nodes():
            if n.get('k') == 'call' and n.get('u') in usrs and n['u'] != f.usr:
                called.add(n['u'])
    return [f for f in fns if f.usr not in called]


def _participates(g):
    """The helper's body contains something the rules reason about (calls into the databases / handles / stash, a functor
    call, an element loop); accessors such as derived(), member_database(), possibly_flush() do not."""
    for n in g.all_nodes():
        if n.get('k') != 'call':
            continue
        q = n.get('q', '')
        if q.startswith((RH + '::', STASH + '::', MEMBER + '::set_ref')) or n.get('rcls') in (MDC, MD, RDB, RH):
            return True
        if n.get('op') == '()' and n.get('recv') is not None:
            r = g.root_var(n['recv'])
            if r is not None and r[0] == 'var' and any(p['d'] == r[1] for p in g.params):
                return True
        if n.get('recv') is not None and q.rsplit('::', 1)[-1] in S.ORDER_BREAKING and g.is_this_member(n['recv']):
            return True
    return bool(elem_loops(g))


def per_fn(fb, R, M, fn, body):
    """Evaluate a per-function rule body; if it does not hold on the function as written, decide it on the view in which
    the function's own helpers (methods of the same object that take part in the protocol) are expanded in place, so an
    extract-helper refactoring neither hides a violation nor causes one."""
    c = Collector()
    body(fn, c)
    if c.failed:
        def should(view, n, g):
            if g.is_lambda or g.cls not in (MDC, MD, RDB, RM, RMB) or g.q in M.anchors or g.kind in ('ctor', 'dtor'):
                return False
            if n.get('recv') is not None and (view.sn(n['recv']) or {}).get('k') != 'this':
                return False
            return _participates(g)
        v = inline_calls(fb, fn, should)
        if v is not fn:
            c2 = Collector()
            body(v, c2)
            c = c2
    c.replay(R)


def _one_q(fns):
    return sorted({f.q for f in fns})


def build_model(fb, R):
    M = Model()
    rec = fb.record(MDC)
    if rec is None:
        R.broken('record %s not found' % MDC)
        return None
    vecs = [f for f in rec.fields if f['tC'].startswith(('std::vector<', 'std::deque<'))]
    if len(vecs) != 1:
        R.broken('%s: expected exactly one sequence-container member, found %s' % (MDC, [f['name'] for f in vecs]))
        return None
    M.cont = vecs[0]['name']
    M.elem_t = S.element_type(vecs[0]['tC'])
    M.elem = S.plain_name(M.elem_t)
    M.proto = S.container_protocol(fb, MDC, M.cont)
    if not M.proto.searches:
        R.broken('%s::%s: no binary search on the element vector found (lookup rewritten? unknown shape)' % (MDC, M.cont))
        return None
    M.searchers = M.proto.reaching('search')
    M.inserters = M.proto.reaching('mutate')
    M.sorters = M.proto.reaching('sort')
    M.find_qs = {s.fn.q for s in M.proto.searches}
    M.find_usrs = {s.fn.usr for s in M.proto.searches}
    M.track_fns = sorted(_tops([f for fs in M.inserters.values() for f in fs]), key=lambda f: f.line)
    # release routine of the members database: calls ItemStash::remove_item on a member
    # release routine of the members database: releases a stash item or sets the removed mark of an element
    M.mark = _mark_model(fb, M)
    M.remove_fns = [f for f in fb.functions if f.cls == MDC and f.has_cfg and not f.is_lambda and
                    (calls(f, STASH + '::remove_item') or (M.mark is not None and calls(f, M.mark[0])))]
    # add(): the method of the derived database that decrements the member counter, invokes a functor parameter, or
    # stores an object in the stash (any one of the three roles identifies it, so a deleted one is a violated instance)
    def _add_role(f):
        if calls(f, RH + '::decrement_members'):
            return True
        roots = [('var', p['d'], p['name']) for p in f.params[1:]]
        if [n for n in f.all_nodes() if n.get('k') == 'call' and n.get('op') == '()' and n.get('recv') is not None and f.root_var(n['recv']) in roots]:
            return True
        for n in f.all_nodes():
            if n.get('k') == 'call' and n.get('u') and n.get('recv') is not None and (f.sn(n['recv']) or {}).get('k') == 'this':
                if any(calls(g, STASH + '::add_item') for g in fb.by_usr.get(n['u'], [])):
                    return True
        return False
    M.add_fns = _tops([f for f in fb.functions if f.cls == MD and f.has_cfg and not f.is_lambda and _add_role(f)])
    M.remove_fns = _tops(M.remove_fns)
    M.anchors = set(M.sorters) | M.find_qs | {f.q for f in fb.functions if f.cls == MDC and f.has_cfg and calls(f, STASH + '::add_item')}
    M.search_key = None
    return M


# ================================================================================================ SORTED (clause 3)

def container_rules(fb, R, cls_q, cont, proto=None):
    """S1-S4 for one member container (generic: also used by the positive self-test).  Returns the search key."""
    proto = proto or S.container_protocol(fb, cls_q, cont)
    cq = '%s::%s' % (cls_q, cont)
    search_key = None
    if not proto.searches:
        R.broken('%s: no binary search found' % cq)
        return None
    whole = [s for s in proto.sorts if not s.partial]
    R.check(bool(whole), 'S2-searched-container-is-sorted', cq + '#sorted-by-a-prepare-step',
            proto.searches[0].loc, '%s is binary-searched (%s) but no method sorts the whole vector' % (
                cont, ', '.join(sorted({s.fn.q for s in proto.searches}))))
    sort_keys = []
    for so in whole:
        try:
            sort_keys.append((so, S.site_key(fb, so)))
        except S.UnknownShape as e:
            R.broken('sort key of %s at %s: %s' % (cq, so.loc, e))
            return None
    for se in proto.searches:
        key = '%s#%s%s' % (se.fn.q, se.label(), '#const' if se.fn.const else '')
        try:
            sk = S.site_key(fb, se)
        except S.UnknownShape as e:
            R.broken('search key of %s at %s: %s' % (cq, se.loc, e))
            continue
        search_key = sk
        if not sort_keys:
            R.bad('S1-search-key-prefix-of-sort-key', key, se.loc, 'searched by %s but the vector is never sorted' % sk.text())
            continue
        for so, k in sort_keys:
            why = S.is_prefix(sk, k)
            R.check(why is None, 'S1-search-key-prefix-of-sort-key', key, se.loc,
                    '%s in %s: %s' % (se.label(), se.fn.q, why), 'search key %s, sort key %s' % (sk.text(), k.text()))
    # S3 phase partition
    conflicts = {q: txt for (q, _f, txt) in proto.phase_conflicts()}
    for q, fns in sorted(proto.reaching('search').items()):
        R.check(q not in conflicts, 'S3-phase-partition', q + '#lookup-phase-only', fns[0].site, conflicts.get(q, ''))
    for q, fns in sorted(proto.reaching('mutate').items()):
        R.check(q not in conflicts, 'S3-phase-partition', q + '#insert-phase-only', fns[0].site, conflicts.get(q, ''))
    # S4 key fields immutable
    if search_key is not None:
        fields = sorted(set(search_key.fields()))
        writes = S.key_field_writes(fb, fields)
        for fq in fields:
            w = [(f, n) for (f, n) in writes if (f.sn(n.get('lhs', n.get('sub', n.get('recv')))) or {}).get('q') == fq]
            R.check(not w, 'S4-search-key-immutable', fq + '#never-written-after-construction',
                    w[0][0].loc(w[0][1]['id']) if w else cq,
                    'search-key field %s is written in %s: a sorted vector is no longer ordered by it' % (fq, w[0][0].q if w else ''))
    return search_key


def sorted_rules(fb, R, M):
    proto = M.proto
    cq = '%s::%s' % (MDC, M.cont)
    M.search_key = container_rules(fb, R, MDC, M.cont, proto)
    # S5 the manager's prepare step covers every members database
    mrec = fb.record(RMB)
    if mrec is None:
        R.broken('record %s not found' % RMB)
        return
    dbs = [f for f in mrec.fields if f['tC'].startswith(MD + '<')]
    if not dbs:
        R.broken('%s has no MembersDatabase<> members' % RMB)
        return
    sorter_qs = set(M.sorters)
    cands = {}
    for f in fb.functions:
        if f.cls != RMB or not f.has_cfg or f.kind != 'method':
            continue
        for n in f.all_nodes():
            if n.get('k') == 'call' and n.get('q') in sorter_qs and n.get('recv') is not None:
                r = f.root_var(n['recv'])
                if r is not None and r[0] == 'field':
                    cands.setdefault(f.q, (f, {}))[1].setdefault(r[2], []).append(n['id'])
    best = max(cands.values(), key=lambda c: len(c[1])) if cands else None
    M.manager_prepare = best[0] if best else None
    for d in dbs:
        key = '%s#sort-step-covers-%s' % (RMB, d['name'])
        if best is None:
            R.bad('S5-prepare-covers-every-members-db', key, '%s:%d' % (mrec.file, mrec.line),
                  'no method of %s runs the sort step (%s) of member %s' % (RMB, ', '.join(sorted(sorter_qs)) or 'none exists', d['name']))
            continue
        f, got = best
        ids = got.get(d['name'], [])
        w = every_path_passes(f, ids) if ids else []
        R.check(bool(ids) and w is None, 'S5-prepare-covers-every-members-db', key, f.site,
                '%s does not run the sort step of %s on every path: its lookups would binary-search an unsorted vector' % (f.q, d['name']))
    # S6 read_relations
    if M.manager_prepare is not None:
        n_inst = 0
        for f in fb.fns(NS + 'read_relations'):
            n_inst += 1
            mi = 0
            fed = set()
            for n in calls(f, 'osmium::apply'):
                for a in [a for a in n.get('args', []) if a is not None][1:]:
                    r = f.root_var(a)
                    if r is not None:
                        fed.add(r)
            for i, p in enumerate(f.params):
                if param_root(f, i) not in fed:
                    continue
                root = param_root(f, i)
                prep = calls(f, M.manager_prepare.q, on=root)
                applies = [n for n in calls(f, 'osmium::apply') if any(f.root_var(a) == root for a in n.get('args', []) if a is not None)]
                key = '%s#manager-%d-prepared-after-first-pass' % (f.q, mi)
                mi += 1
                ok = bool(prep) and every_path_passes(f, [n['id'] for n in prep]) is None
                ok = ok and bool(applies) and all(any(f.elem_dominates(a['id'], c['id']) for a in applies) for c in prep)
                ok = ok and can_follow(f, [c['id'] for c in prep], [a['id'] for a in applies]) is None
                R.check(ok, 'S6-read-relations-prepares-after-apply', key, f.site,
                        'read_relations must call %s on manager parameter #%d on every path, after the apply() that feeds it' % (
                            M.manager_prepare.q, mi))
        if n_inst == 0:
            R.broken('no instantiation of %sread_relations in the fact base' % NS)
    # S7 phase flag (only where it exists: -UNDEBUG configurations)
    flag = S.find_phase_flag(fb, proto)
    if flag is None:
        R.note('S7: no prepare-step flag in this configuration (compiled out under NDEBUG)')
        return
    fname, sorted_val = flag
    ws = S.flag_writes(fb, MDC, fname)
    bad = [(f, n) for (f, n, v) in ws if f.q not in M.sorters or v is None or bool(v) != sorted_val]
    R.check(not bad, 'S7-phase-flag', '%s::%s#written-only-by-the-sort-step' % (MDC, fname), bad[0][0].loc(bad[0][1]['id']) if bad else cq,
            '%s is also written in %s' % (fname, bad[0][0].q if bad else ''))
    for q, fns in sorted(M.searchers.items()):
        for f in fns:
            if f.access != 'public' and q in M.find_qs:
                continue
            entries = [s.node['id'] for s in proto.searches if s.fn is f]
            entries += [n['id'] for n in f.all_nodes() if n.get('k') == 'call' and n.get('u') in {g.usr for gs in M.searchers.values() for g in gs}
                        and n.get('recv') is not None and (f.sn(n['recv']) or {}).get('k') == 'this']
            ok = bool(entries) and all(S.flag_guard(f, e, fname) == sorted_val for e in entries)
            R.check(ok, 'S7-phase-flag', q + '#asserts-sorted-before-lookup', f.site,
                    '%s reaches the binary search without asserting %s%s first' % (q, '' if sorted_val else '!', fname))
    for (f, n, _nm) in proto.mutators:
        R.check(S.flag_guard(f, n['id'], fname) == (not sorted_val), 'S7-phase-flag', f.q + '#asserts-not-yet-sorted-before-insert',
                f.loc(n['id']), '%s inserts into %s without asserting %s%s first' % (f.q, M.cont, '!' if sorted_val else '', fname))


# ================================================================================================ track / element roles

def _elem_ctor(fb, M, nargs):
    cs = [f for f in fb.fns(M.elem + '::(ctor)') if len(f.params) == nargs and f.has_cfg]
    return cs[0] if len(cs) == 1 else None


def _elem_field_of(fn, nid, M):
    """Field qname if the (stripped) node reads a field of the vector's element type."""
    n = fn.sn(nid)
    if n is not None and n.get('k') == 'member' and n.get('field') and n.get('q', '').startswith(M.elem + '::'):
        return n['q']
    return None


def _relpos_fields(fb, M):
    """{field qname: [(Fn, node)]} element fields used as the index of RelationsDatabase::operator[] in the database."""
    out = {}
    for f in fb.functions:
        if not f.has_cfg or f.cls not in (MDC, MD):
            continue
        for n in calls(f, RDB + '::operator[]'):
            for a in n.get('args', []):
                if a is None:
                    continue
                fq = _elem_field_of(f, a, M)
                if fq:
                    out.setdefault(fq, []).append((f, n))
    return out


def _mutator_calls(fn, M):
    """Order-breaking mutator calls on the element vector in fn (works on inlined views, too)."""
    out = []
    for n in fn.all_nodes():
        if n.get('k') == 'call' and n.get('recv') is not None and 'q' in n and n['q'].rsplit('::', 1)[-1] in S.ORDER_BREAKING:
            r = fn.sn(n['recv'])
            if r is not None and r.get('k') == 'member' and r.get('field') and r.get('q') == M.proto.field_q:
                out.append(n)
    return sorted(out, key=lambda n: n['id'])


def track_rules(fb, R, M):
    if not M.track_fns:
        R.broken('%s: no inserting method (track) found' % MDC)
        return
    keyf = (M.search_key.fields() or [None])[0] if M.search_key is not None else None
    relpos = _relpos_fields(fb, M)
    for fn0 in M.track_fns:
        def body(fn, R, fn0=fn0):
            muts = _mutator_calls(fn, M)
            hparams = [i for i, p in enumerate(fn.params) if S.plain_name(p['tC']) == RH]
            incs = [n for i in hparams for n in calls(fn, RH + '::increment_members', on=param_root(fn, i))]
            why1 = exactly_once(fn, [m['id'] for m in muts])
            why2 = exactly_once(fn, [n['id'] for n in incs]) if incs else 'no increment_members() on the handle parameter'
            R.check(why1 is None and why2 is None, 'T1-track-pairs-insert-increment', fn.q + '#one-insert-and-one-increment-per-call', fn.site,
                    'insertion into %s: %s; increment_members(): %s -- the member count of the relation no longer equals the number of '
                    'tracked elements' % (M.cont, why1 or 'exactly once', why2 or 'exactly once'))
            # ---- T2 roles
            for m in muts:
                args = [a for a in m.get('args', []) if a is not None]
                if m['q'].endswith('push_back') and len(args) == 1:
                    c = fn.sn(args[0])
                    hops = 0
                    while c is not None and c.get('k') in ('cast', 'construct') and hops < 4 and not (c.get('k') == 'construct' and c.get('q') == M.elem + '::(ctor)' and not c.get('copymove')):
                        c = fn.sn((c.get('args') or [c.get('sub')])[0])
                        hops += 1
                    if c is not None and c.get('k') == 'construct':
                        args = [a for a in c.get('args', []) if a is not None]
                ctor = _elem_ctor(fb, M, len(args))
                if ctor is None:
                    R.broken('%s: cannot resolve the element constructor used by the insertion (arity %d)' % (fn.q, len(args)))
                    continue
                src = S.ctor_field_sources(fb, ctor)
                field_of_arg = {s[1]: fq for fq, s in src.items() if s[0] == 'param'}
                pos_arg = [j for j, a in enumerate(args) if (origin(fn, a) or {}).get('q') == RH + '::pos'
                           and fn.root_var((origin(fn, a) or {}).get('recv')) in [param_root(fn, i) for i in hparams]]
                fpos = field_of_arg.get(pos_arg[0]) if len(pos_arg) == 1 else None
                used = sorted(relpos)
                R.check(fpos is not None and used == [fpos], 'T2-element-field-roles', fn.q + '#handle-position-stored-in-the-field-used-for-relation-lookup',
                        fn.loc(m['id']), 'track() stores rel_handle.pos() in %s but add()/remove() index the relations database with %s' % (
                            fpos, ', '.join(used) or 'nothing'))
                # member id: the parameter that every caller feeds with RelationMember::ref()
                ref_params = set()
                ncallers = 0
                for g in fb.functions:
                    if not g.has_cfg:
                        continue
                    for c in calls(g, fn.q):
                        ncallers += 1
                        for i, a in enumerate(c.get('args', [])):
                            if a is not None and (g.sn(a) or {}).get('q') == MEMBER + '::ref':
                                ref_params.add(i)
                fid = None
                if len(ref_params) == 1:
                    pi = list(ref_params)[0]
                    js = [j for j, a in enumerate(args) if fn.root_var(a) == param_root(fn, pi) and (fn.sn(a) or {}).get('k') == 'var']
                    fid = field_of_arg.get(js[0]) if len(js) == 1 else None
                if ncallers == 0:
                    R.broken('%s has no caller in the fact base' % fn.q)
                elif keyf is not None:      # unknown search key: already reported as analysis-broken by S1
                    R.check(fid is not None and fid == keyf, 'T2-element-field-roles', fn.q + '#member-ref-stored-in-the-search-key-field', fn.loc(m['id']),
                            'the member id passed by the manager lands in %s but lookups search by %s' % (fid, keyf))
        per_fn(fb, R, M, fn0, body)
    # search value of find()
    for se in (M.proto.searches if keyf is not None else []):
        fn = se.fn
        args = [a for a in se.node.get('args', []) if a is not None]
        ok = False
        msg = 'search value is not a freshly constructed element'
        if len(args) >= 3:
            vroot = origin(fn, args[2])
            cons = [fn.nodes[x] for x in fn.subtree(vroot['id'] if vroot is not None else args[2]) if fn.nodes[x].get('k') == 'construct' and fn.nodes[x].get('q') == M.elem + '::(ctor)'
                    and not fn.nodes[x].get('copymove') and not fn.nodes[x].get('elidable')]
            if cons:
                cargs = [a for a in cons[0].get('args', []) if a is not None]
                ctor = _elem_ctor(fb, M, len(cargs))
                if ctor is not None:
                    src = S.ctor_field_sources(fb, ctor)
                    s = src.get(keyf)
                    proot = [param_root(fn, i) for i in range(len(fn.params))]
                    ok = s is not None and s[0] == 'param' and fn.root_var(cargs[s[1]]) in proot
                    msg = 'the constructor used for the search value initialises %s from %s' % (keyf, s)
        R.check(ok, 'T2-element-field-roles', '%s#search-value-carries-the-id-in-the-key-field%s' % (fn.q, '#const' if fn.const else ''), se.loc, msg)


# ================================================================================================ add()

def _found_range(fn, M):
    """(decl var d, name, find call node) of the local initialised from a searching method of this object."""
    for n in fn.all_nodes():
        if n.get('k') != 'decl':
            continue
        for v in n['vars']:
            if not isinstance(v.get('init'), int):
                continue
            for x in fn.subtree(v['init']):
                c = fn.nodes[x]
                if c.get('k') == 'call' and c.get('u') in M.find_usrs and c.get('recv') is not None and (fn.sn(c['recv']) or {}).get('k') == 'this':
                    return v['d'], v['name'], c
    return None


def add_rules(fb, R, M):
    if not M.add_fns:
        R.broken('%s: no method that decrements the member counter (add) found' % MD)
        return
    relpos = _relpos_fields(fb, M)
    for fn0 in M.add_fns:
        def body(fn, R, fn0=fn0):
            q = fn.q
            fr = _found_range(fn, M)
            if fr is None:
                R.broken('%s: no local initialised from the lookup' % fn.full)
                return
            rd, rname, fcall = fr
            rroot = ('var', rd, rname)
            a0 = (fcall.get('args') or [None])[0]
            an = fn.sn(a0) if a0 is not None else None
            ok = an is not None and an.get('q') == 'osmium::OSMObject::id' and fn.root_var(an.get('recv')) == param_root(fn, 0)
            R.check(ok, 'A1-add-decrements-each-found-element', q + '#looks-up-by-the-object-id', fn.loc(fcall['id']),
                    'add() must search for object.id() of its first parameter')
            acts = [n['id'] for n in calls(fn, RH + '::decrement_members') + calls(fn, RH + '::has_all_members')]
            loops = [L for L in elem_loops(fn) if fn.root_var(L.seq) == rroot and (not acts or any(loop_contains(fn, L, a) for a in acts))]
            if len(loops) != 1:
                R.bad('A1-add-decrements-each-found-element', q + '#one-decrement-per-element', fn.site,
                      'add() does not iterate over the found range exactly once (%d loops)' % len(loops))
                return
            L = loops[0]
            lroots = L.roots
            # handle of the element's relation
            hvars = []
            for n in fn.all_nodes():
                if n.get('k') == 'decl' and loop_contains(fn, L, n['id']):
                    for v in n['vars']:
                        if isinstance(v.get('init'), int):
                            cs = subtree_calls(fn, v['init'], RDB + '::operator[]')
                            if cs and any(_elem_field_of(fn, a, M) and fn.root_var(a) in lroots for a in cs[0].get('args', []) if a is not None):
                                hvars.append(('var', v['d'], v['name']))
            if len(hvars) != 1:
                R.bad('A1-add-decrements-each-found-element', q + '#one-decrement-per-element', fn.site,
                      'add(): the loop does not fetch the relation handle of the current element (m_relations_db[elem.<pos>])')
                return
            h = hvars[0]
            decs = [n for n in calls(fn, RH + '::decrement_members')]
            on_h = [n for n in decs if fn.root_var(n['recv']) == h]
            why = exactly_once(fn, [n['id'] for n in on_h], start=L.start, until=[L.inc]) if on_h else 'no decrement on the element\'s relation handle'
            if why is None and loop_escape(fn, L) is not None:
                why = ESC + describe_path(fn, loop_escape(fn, L))
            R.check(why is None and len(on_h) == len(decs), 'A1-add-decrements-each-found-element', q + '#one-decrement-per-element', fn.site,
                    'decrement_members() per found element: %s' % (why or 'a decrement targets another handle'))
            # A2
            has = [n for n in calls(fn, RH + '::has_all_members', on=h)]
            fparams = [param_root(fn, i) for i in range(1, len(fn.params))]
            fcalls = [n for n in fn.all_nodes() if n.get('k') == 'call' and n.get('op') == '()' and n.get('recv') is not None and fn.root_var(n['recv']) in fparams]
            ok = bool(has) and bool(fcalls) and bool(on_h)
            msg = 'has_all_members() on the handle / functor call missing'
            if ok:
                for c in fcalls:
                    g = [(n, s) for (n, s) in guard_conds(fn, c['id']) if n.get('k') == 'call' and n.get('q') == RH + '::has_all_members' and fn.root_var(n['recv']) == h]
                    if not g or not all(s for (_n, s) in g):
                        ok, msg = False, 'the completion functor is called without has_all_members() being true'
                    elif not any(fn.elem_dominates(d['id'], n['id']) for (n, _s) in g for d in on_h):
                        ok, msg = False, 'has_all_members() is tested before the decrement'
                    elif not [a for a in c.get('args', []) if a is not None and fn.root_var(a) == h]:
                        ok, msg = False, 'the functor is not given the handle whose counter reached zero'
                if ok:
                    hid = {n['id'] for n in has}

                    edge_ok = call_edge_filter(fn, lambda c, hid=hid: c.get('id') in hid, True)
                    for hn in has:
                        w = every_path_passes(fn, [c['id'] for c in fcalls], start=hn['id'], until=[L.inc], edge_ok=edge_ok)
                        if w is not None:
                            ok, msg = False, 'a path with has_all_members() true skips the functor: ' + describe_path(fn, w)
                    if can_follow(fn, [c['id'] for c in fcalls], [c['id'] for c in fcalls], [L.inc]) is not None:
                        ok, msg = False, 'the functor can run twice for one element'
            R.check(ok, 'A2-functor-iff-complete', q + '#functor-iff-has-all-members', fn.site, msg)
            # A3 stored before completion
            stores = []
            for n in fn.all_nodes():
                if n.get('k') == 'call' and n.get('recv') is not None and (fn.sn(n['recv']) or {}).get('k') == 'this' and n.get('u'):
                    for g in fb.by_usr.get(n['u'], []):
                        if calls(g, STASH + '::add_item'):
                            if any(fn.root_var(a) == param_root(fn, 0) for a in n['args'] if a is not None) and any(fn.root_var(a) == rroot for a in n['args'] if a is not None):
                                stores.append((n, g))
            ok = bool(stores) and all(any(fn.elem_dominates(s['id'], c['id']) for (s, _g) in stores) for c in fcalls)
            R.check(ok, 'A3-object-stored-before-callback', q + '#object-stored-before-completion', fn.site,
                    'add() must store the object (add_object(object, range)) before any completion functor can run: the callback retrieves its members from the stash')
            for (_s, g) in stores[:1]:
                _add_object_rule(fb, R, M, g)
            # A4
            rets = [n for n in fn.all_nodes() if n.get('k') == 'return' and 'sub' in n and live(fn, n['id'])]
            ok = len(rets) >= 2
            for r in rets:
                v = fn.const_value(r['sub'])
                rn = fn.sn(r['sub'])
                if v is None and rn is not None and rn.get('k') == 'var':       # `return needed;` under `if (!needed)`
                    vs = {s for (n, s) in guard_conds(fn, r['id']) if n.get('k') == 'var' and n.get('d') == rn.get('d')}
                    v = int(list(vs)[0]) if len(vs) == 1 else None
                emp = [s for (n, s) in guard_conds(fn, r['id']) if n.get('k') == 'call' and n.get('q', '').endswith('::empty') and fn.root_var(n['recv']) == rroot]
                if v == 0:
                    ok = ok and bool(emp) and all(emp)
                elif v == 1:
                    ok = ok and bool(emp) and not any(emp)
                else:
                    ok = False
            R.check(ok, 'A4-add-result', q + '#false-iff-nothing-found', fn.site,
                    'add() must return false exactly when the found range is empty (it decides X_not_in_any_relation)')
        per_fn(fb, R, M, fn0, body)


def _add_object_rule(fb, R, M, g0):
    key = g0.q + '#handle-stored-in-every-element-of-the-range'

    def body(g, R):
        adds = calls(g, STASH + '::add_item')
        rp = [param_root(g, i) for i, p in enumerate(g.params) if 'iterator_range' in p['tC']]
        loops = [L for L in elem_loops(g) if root_through_refs(g, L.seq) in rp]
        ok = len(adds) == 1 and len(loops) == 1 and g.root_var(adds[0]['args'][0]) == param_root(g, 0)
        msg = 'add_object must add the object to the stash once and loop over the range parameter'
        if ok:
            L = loops[0]
            stores = []
            for n in g.all_nodes():
                tgt = val = None
                if n.get('k') == 'call' and n.get('op') == '=' and n.get('recv') is not None:
                    tgt, val = n['recv'], (n.get('args') or [None])[0]
                elif n.get('k') == 'assign':
                    tgt, val = n['lhs'], n['rhs']
                if tgt is None or val is None:
                    continue
                src = origin(g, val)        # the add_item() result, directly, through a named local or a helper parameter
                if _elem_field_of(g, tgt, M) and g.root_var(tgt) in L.roots and src is not None and src.get('id') == adds[0]['id']:
                    stores.append(n['id'])
            why = exactly_once(g, stores, start=L.start, until=[L.inc]) if stores else 'no element field is assigned the stash handle'
            if why is None and loop_escape(g, L) is not None:
                why = ESC + describe_path(g, loop_escape(g, L))
            if why is None and not all(g.elem_dominates(adds[0]['id'], st) for st in stores):
                why = 'the handle is stored before the object is added to the stash'
            ok = why is None and L.mutable_reference()
            msg = 'per element of the range: %s%s' % (why or 'stored', '' if L.mutable_reference() else '; the loop variable is a copy, the handle is lost')
        R.check(ok, 'A3-object-stored-before-callback', key, g.site, msg)
    per_fn(fb, R, M, g0, body)


# ================================================================================================ remove()

def _mark_model(fb, M):
    """(marking method q, predicate method q, field, sentinel text) from the element class: a method that assigns a
    constant to a field and a const method that compares the same field with the same constant."""
    marks, preds = {}, {}
    for f in fb.functions:
        if f.cls != M.elem or not f.has_cfg or f.kind != 'method':
            continue
        for n in f.all_nodes():
            if n.get('k') == 'assign' and n.get('op') == '=':
                l = f.sn(n['lhs'])
                if l is not None and l.get('k') == 'member' and l.get('field') and f.is_this_member(n['lhs']):
                    marks[f.q] = (l['q'], f.expr(n['rhs']), f)
            if n.get('k') == 'return' and 'sub' in n:
                b = f.sn(n['sub'])
                if b is not None and b.get('k') == 'binop' and b['op'] == '==':
                    l = f.sn(b['lhs'])
                    if l is not None and l.get('k') == 'member' and l.get('field') and f.is_this_member(b['lhs']):
                        preds[f.q] = (l['q'], f.expr(b['rhs']), f)
    for mq, (mf, mv, mfn) in marks.items():
        for pq, (pf, pv, pfn) in preds.items():
            if mf == pf:
                return mq, pq, mf, mv, pv, mfn, pfn
    return None


def _counts_unmarked(fb, g, pred_q):
    """None when g returns the number of elements e of its range parameter with !e.pred(); otherwise the reason.
    Accepted spellings: `return std::count_if(r.begin(), r.end(), [](e){ return !e.pred(); })` and the equivalent counting
    loop (any element-loop form) `n = 0; for (e : r) if (!e.pred()) ++n; return n;`."""
    pr = [param_root(g, i) for i in range(len(g.params))]
    rets = [n for n in g.all_nodes() if n.get('k') == 'return' and 'sub' in n]
    if len(rets) != 1:
        return 'has %d return statements' % len(rets)
    cs = calls(g, 'std::count_if')
    if cs:
        c = cs[0]
        if len(cs) != 1 or c['id'] not in g.subtree(rets[0]['sub']):
            return 'is not a single std::count_if over the range'
        args = [a for a in c.get('args', []) if a is not None]
        if len(args) != 3:
            return 'count_if arity'
        b, e = g.sn(args[0]), g.sn(args[1])
        if b is None or e is None or b.get('q', '').rsplit('::', 1)[-1] not in ('begin', 'cbegin') or e.get('q', '').rsplit('::', 1)[-1] not in ('end', 'cend') \
                or g.root_var(b.get('recv')) not in pr or g.root_var(e.get('recv')) != g.root_var(b.get('recv')):
            return 'does not count over the whole range parameter'
        lam = None
        for x in g.subtree(args[2]):
            if g.nodes[x].get('k') == 'lambda':
                lam = fb.lambda_fn(g, g.nodes[x])
        if lam is None:
            return 'predicate is not a lambda'
        lr = [n for n in lam.all_nodes() if n.get('k') == 'return' and 'sub' in n]
        if len(lr) != 1:
            return 'predicate shape'
        u = lam.sn(lr[0]['sub'])
        if u is None or u.get('k') != 'unop' or u['op'] != '!':
            return 'predicate does not negate the removed test (it must count the elements NOT marked)'
        p = lam.sn(u['sub'])
        if p is None or p.get('q') != pred_q or lam.root_var(p.get('recv')) != param_root(lam, 0):
            return 'predicate does not test the removed mark of its argument'
        return None
    # counting loop
    rv = g.sn(rets[0]['sub'])
    if rv is None or rv.get('k') != 'var' or rv.get('vk') != 'local':
        return 'returns neither std::count_if nor a local counter'
    inc = counts_from_zero_by_one(g, rv['d'])
    if inc is None:
        return 'the returned counter does not start at 0 / is not changed by exactly one ++'
    loops = [L for L in elem_loops(g) if g.root_var(L.seq) in pr and loop_contains(g, L, inc)]
    if len(loops) != 1:
        return 'the counter is not incremented inside one loop over the whole range parameter'
    L = loops[0]
    conds = [(n, s_) for (n, s_) in guard_conds(g, inc) if loop_contains(g, L, n['id']) and not (n.get('k') == 'call' and n.get('op') == '!=')]
    tests = [(n, s_) for (n, s_) in conds if n.get('k') == 'call' and n.get('q') == pred_q and L.is_elem(g, n.get('recv'))]
    if not tests or any(s_ for (_n, s_) in tests):
        return 'the counter is not incremented only for elements NOT carrying the removed mark'
    if len(tests) != len([c for c in conds if not (c[0].get('k') == 'unop')]):
        return 'the increment hangs on a further condition'
    tid = {n['id'] for (n, _s) in tests}
    w = every_path_passes(g, [inc], start=L.start, until=[L.inc], edge_ok=call_edge_filter(g, lambda c: c.get('id') in tid, False))
    if w is not None:
        return 'an unmarked element is not counted'
    if can_follow(g, [inc], [inc], [L.inc]) is not None:
        return 'an element can be counted twice'
    if loop_escape(g, L) is not None:
        return 'the counting loop can be left before the last element'
    return None


def released_handle_check(fb, R, fn, rroot, rel_calls, elem_prefix, handle_ctor_q, container_q, key):
    """R4: after `stash.remove_item(h)` with h read from a stored element of the found range, no element of that range may
    keep h (lookups dereference every handle that is valid()).  Accepted: on every path after the release the WHOLE found
    range is walked by an element loop that is entered only after the release and stores a default-constructed (invalid)
    handle into the handle field of EVERY element, unconditionally, through a mutable reference; or the range is erased
    from the container.  Reports one instance `key`."""
    from ..flow import path_search
    ok, msg, site = True, '', fn.site
    for r in rel_calls:
        args = [a for a in r.get('args', []) if a is not None]
        o = origin(fn, args[0]) if args else None
        if o is None or o.get('k') != 'member' or not o.get('field') or not o.get('q', '').startswith(elem_prefix + '::') \
                or root_through_refs(fn, o['id']) != rroot:
            continue            # not a handle stored in the found range: nothing is left dangling there
        hfield = o['q']
        # (b) erased
        erased = [c for c in fn.all_nodes() if c.get('k') == 'call' and c.get('q', '').rsplit('::', 1)[-1] == 'erase' and c.get('recv') is not None
                  and (fn.sn(c['recv']) or {}).get('q') == container_q and fn.elem_dominates(r['id'], c['id'])
                  and len([a for a in c.get('args', []) if a is not None and root_through_refs(fn, a) == rroot]) == 2]
        if erased and every_path_passes(fn, [c['id'] for c in erased], start=r['id']) is None:
            continue
        # (a) invalidation loop
        good = None
        why = 'the elements of the found range keep the released handle: a later lookup finds it valid() and dereferences a freed stash item'
        for L in elem_loops(fn):
            if root_through_refs(fn, L.seq) != rroot:
                continue
            stores = []
            for n in fn.all_nodes():
                tgt = val = None
                if n.get('k') == 'call' and n.get('op') == '=' and n.get('recv') is not None:
                    tgt, val = n['recv'], (n.get('args') or [None])[0]
                elif n.get('k') == 'assign':
                    tgt, val = n['lhs'], n['rhs']
                if tgt is None or val is None or not loop_contains(fn, L, n['id']):
                    continue
                t = fn.sn(tgt)
                if t is None or t.get('k') != 'member' or t.get('q') != hfield or not L.is_elem(fn, tgt):
                    continue
                if [x for x in fn.subtree(val) if fn.nodes[x].get('k') == 'construct' and fn.nodes[x].get('q') == handle_ctor_q and not fn.nodes[x].get('args')]:
                    stores.append(n['id'])
            if not stores:
                continue
            if not L.mutable:
                why = 'the invalidation loop works on copies of the elements (loop variable by value)'
                continue
            def gkeys(nid):
                return {(('var', n.get('d')) if n.get('k') == 'var' else ('expr', fn.expr(n['id'])), s_) for (n, s_) in guard_conds(fn, nid)
                        if not (n.get('k') == 'call' and n.get('op') == '!=')}
            same_condition = bool(gkeys(r['id'])) and gkeys(r['id']) <= gkeys(L.start) and can_follow(fn, [r['id']], [L.start]) is not None
            if not fn.elem_dominates(r['id'], L.start) and not same_condition:
                why = 'the handles of the range are invalidated on paths on which the object was NOT released (the reset does not follow the release)'
                continue
            w = every_path_passes(fn, stores, start=L.start, until=[L.inc])
            if w is not None:
                why = 'not every element of the range gets the invalid handle (the store is conditional): ' + describe_path(fn, w)
                continue
            if loop_escape(fn, L) is not None:
                why = ESC + describe_path(fn, loop_escape(fn, L))
                continue
            # the loop is reached on every path from the release to the exit
            pos = fn.positions()
            header = fn.succs(pos[L.inc][0]) if L.inc in pos else []          # the loop condition block follows the advance
            gate = {e for b in header for e in fn.blocks[b]['elems']} | {L.start}
            # paths are followed consistently with the named bool conditions under which the release itself executes
            filters = [var_edge_filter(fn, k[1], s_) for (k, s_) in gkeys(r['id']) if k[0] == 'var']

            def edge_ok(b, idx, s_, filters=filters):
                return all(f(b, idx, s_) for f in filters)
            w = path_search(fn, r['id'], exit_t_, lambda e: e in gate or is_noreturn_(fn, e), edge_ok)
            if w is not None:
                why = 'a path from the release to the exit skips the invalidation loop: ' + describe_path(fn, w)
                continue
            good = L
        if good is None:
            ok, msg, site = False, why, fn.loc(r['id'])
    R.check(ok, 'R4-released-handle-not-kept', key, site, msg)


def remove_rules(fb, R, M):
    if not M.remove_fns:
        R.broken('%s: no method that releases a member from the stash (remove) found' % MDC)
        return
    mm = M.mark
    if mm is None:
        R.broken('%s: cannot identify the removed mark (a method assigning a sentinel and a predicate comparing the same field)' % M.elem)
        return
    mark_q, pred_q, mfield, mval, pval, mfn, pfn = mm
    R.check(mval == pval, 'R1-release-only-last-reference', M.elem + '#removed-mark-set-and-tested-with-the-same-value', mfn.site,
            '%s sets %s to %s but %s compares it with %s' % (mark_q, mfield, mval, pred_q, pval))
    for fn0 in M.remove_fns:
        def body(fn, R, fn0=fn0):
            q = fn.q
            fr = _found_range(fn, M)
            if fr is None:
                R.broken('%s: no local initialised from the lookup' % q)
                return
            rd, rname, fcall = fr
            rroot = ('var', rd, rname)
            proots = [param_root(fn, i) for i in range(len(fn.params))]
            a0 = (fcall.get('args') or [None])[0]
            p_find = proots.index(fn.root_var(a0)) if a0 is not None and fn.root_var(a0) in proots else None
            rel = calls(fn, STASH + '::remove_item')
            marks = calls(fn, mark_q)
            # ---- R1
            cnt_calls = []
            ok = True
            msg = ''
            for r in rel:
                g = []
                for (n, s) in guard_conds(fn, r['id']):
                    if n.get('k') == 'binop' and n['op'] == '==' and s:
                        for (x, y) in ((n['lhs'], n['rhs']), (n['rhs'], n['lhs'])):
                            c = origin(fn, x)
                            if fn.const_value(y) == 1 and c is not None and c.get('k') == 'call' and c.get('u') and \
                                    any(fn.root_var(a) == rroot for a in c.get('args', []) if a is not None):
                                g.append(c)
                if not g:
                    ok, msg = False, 'the stash release is not guarded by `<count of live references in the found range> == 1`'
                cnt_calls.extend(g)
            if not rel:
                ok, msg = False, 'no stash release'
            R.check(ok, 'R1-release-only-last-reference', q + '#release-guarded-by-exactly-one-live-reference', (fn.loc(rel[0]['id']) if rel else fn.site),
                    msg + ': an object shared by several relations would be released with the first, or never')
            for c in cnt_calls[:1]:
                for g in fb.by_usr.get(c['u'], [])[:1]:
                    why = _counts_unmarked(fb, g, pred_q)
                    R.check(why is None, 'R1-release-only-last-reference', g.q + '#counts-the-elements-not-marked-removed', g.site, '%s %s' % (g.q, why))
            w = can_follow(fn, [m['id'] for m in marks], [c['id'] for c in cnt_calls] + [r['id'] for r in rel])
            R.check(bool(marks) and w is None, 'R1-release-only-last-reference', q + '#count-and-release-before-marking', fn.site,
                    'an element can be marked removed before the live references are counted: %s' % describe_path(fn, w))
            ok = bool(rel)
            for r in rel:
                srcs = [r['id']] + [o['id'] for o in (origin(fn, a) for a in r.get('args', []) if a is not None) if o is not None]
                hs = [fn.nodes[x] for sid in srcs for x in fn.subtree(sid) if fn.nodes[x].get('k') == 'member' and fn.nodes[x].get('field')
                      and fn.nodes[x].get('q', '').startswith(M.elem + '::') and S.plain_name(fn.nodes[x].get('t', '')) == STASH + '::handle_type']
                ok = ok and bool(hs) and all(root_through_refs(fn, h['id']) == rroot for h in hs)
            R.check(ok, 'R1-release-only-last-reference', q + '#releases-the-handle-of-the-found-range', fn.site,
                    'the stash item released must be the object handle stored in the found range')
            # ---- R3
            loops = [L for L in elem_loops(fn) if fn.root_var(L.seq) == rroot and (not marks or any(loop_contains(fn, L, m['id']) for m in marks))]
            p_rel = None
            ok, msg = True, ''
            if len(loops) != 1 or not marks:
                ok, msg = False, 'no single loop over the found range that marks an element'
            else:
                L = loops[0]
                lroots = L.roots
                for m in marks:
                    if fn.root_var(m['recv']) not in lroots or not L.mutable_reference():
                        ok, msg = False, 'the mark is not applied to the stored element (loop variable must be a non-const reference)'
                        continue
                    gs = guard_conds(fn, m['id'])
                    unmarked = any(n.get('k') == 'call' and n.get('q') == pred_q and fn.root_var(n['recv']) in lroots and not s for (n, s) in gs)
                    same_rel = False
                    for (n, s) in gs:
                        if n.get('k') == 'binop' and n['op'] == '==' and s:
                            for (x, y) in ((n['lhs'], n['rhs']), (n['rhs'], n['lhs'])):
                                yn = fn.sn(y)
                                if fn.root_var(x) in proots and (fn.sn(x) or {}).get('k') == 'var' and yn is not None and yn.get('q') == 'osmium::OSMObject::id':
                                    idx = [c for c in subtree_calls(fn, y, RDB + '::operator[]')
                                           if any(_elem_field_of(fn, a, M) and fn.root_var(a) in lroots for a in c.get('args', []) if a is not None)]
                                    if idx:
                                        same_rel = True
                                        p_rel = proots.index(fn.root_var(x))
                    if not unmarked:
                        ok, msg = False, 'an element already marked removed can be marked again (the live-reference count would never reach 1)'
                    elif not same_rel:
                        ok, msg = False, 'the marked element is not tested to belong to the relation given (relation id == m_relations_db[elem.<pos>]->id())'
                if ok and can_follow(fn, [m['id'] for m in marks], [m['id'] for m in marks]) is not None:
                    ok, msg = False, 'more than one element can be marked per call (duplicate members of one relation would never be released)'
            R.check(ok, 'R3-remove-marks-exactly-one', q + '#marks-one-live-element-of-that-relation', fn.site, msg)
            # ---- R4 released handle not kept
            released_handle_check(fb, R, fn, rroot, rel, M.elem, STASH + '::handle_type::(ctor)', M.proto.field_q,
                                  q + '#no-element-keeps-the-released-handle')
            # ---- R2 roles at the call sites
            ncs = 0
            ok, msg = p_find is not None and p_rel is not None and p_find != p_rel, 'cannot tell the searched parameter from the relation-id parameter'
            if ok:
                for g in fb.functions:
                    if not g.has_cfg:
                        continue
                    for c in calls(g, q):
                        if not live(g, c['id']):
                            continue
                        ncs += 1
                        args = [a for a in c.get('args', [])]
                        a_f, a_r = g.sn(args[p_find]), g.sn(args[p_rel])
                        if a_f is None or a_f.get('q') != MEMBER + '::ref':
                            ok, msg = False, '%s passes %s as the member id' % (g.q, g.expr(args[p_find])[:50])
                        if a_r is None or a_r.get('q') != 'osmium::OSMObject::id' or not [x for x in g.subtree(args[p_rel]) if g.nodes[x].get('q') in (RH + '::operator->', RH + '::operator*')]:
                            ok, msg = False, '%s passes %s as the relation id' % (g.q, g.expr(args[p_rel])[:50])
                if ncs == 0:
                    R.broken('%s has no live caller in the fact base' % q)
                    return
            R.check(ok, 'R2-remove-argument-roles', q + '#member-ref-is-searched-relation-id-is-matched', fn.site, msg)
            M.remove_roles = (p_find, p_rel)
        per_fn(fb, R, M, fn0, body)


# ================================================================================================ manager: second pass

def _reaches_stash_release(fb, call):
    for g in fb.by_usr.get(call.get('u'), []):
        if g.q == STASH + '::remove_item' or STASH + '::remove_item' in fb.callees_closure(g, depth=4):
            return True
    return call.get('q') == STASH + '::remove_item'


def _derived_hook_calls(fn, suffix):
    """Calls `derived().<name>(...)` whose name ends with suffix."""
    out = []
    for n in fn.all_nodes():
        if n.get('k') == 'call' and 'q' in n and n['q'].rsplit('::', 1)[-1].endswith(suffix) and n.get('recv') is not None:
            r = fn.sn(n['recv'])
            if r is not None and r.get('k') == 'call' and r.get('q') == RM + '::derived':
                out.append(n)
    return out


def second_pass_rules(fb, R, M):
    add_q = set(_one_q(M.add_fns))
    handlers = [f for f in fb.functions if f.cls == RM and f.has_cfg and not f.is_lambda and
                any(live(f, c['id']) for q in add_q for c in calls(f, q))]
    if not handlers:
        R.broken('no live RelationsManager method that feeds a members database (handle_node/way/relation) found')
        return
    completion_q = set()
    flush_q = RMB + '::possibly_flush'
    handler_flush_ok = {}
    for fn in handlers:
        q = fn.q
        adds = [c for aq in add_q for c in calls(fn, aq) if live(fn, c['id'])]
        ok, msg = len(adds) == 1, 'expected exactly one add() call'
        hq = None
        if ok:
            a = adds[0]
            lam = None
            for x in fn.subtree(a['id']):
                if fn.nodes[x].get('k') == 'lambda':
                    lam = fb.lambda_fn(fn, fn.nodes[x])
            if lam is None or not lam.params:
                ok, msg = False, 'the functor passed to add() is not a lambda in this class'
            else:
                cs = [n for n in lam.all_nodes() if n.get('k') == 'call' and n.get('rcls') == RM and n.get('recv') is not None
                      and (lam.sn(n['recv']) or {}).get('k') == 'this'
                      and any(lam.root_var(x) == param_root(lam, 0) for x in n.get('args', []) if x is not None)]
                why = exactly_once(lam, [n['id'] for n in cs]) if cs else 'never'
                if why is not None or len({n['q'] for n in cs}) != 1:
                    ok, msg = False, 'the completion functor does not pass its handle to the completion routine exactly once (%s)' % why
                else:
                    hq = cs[0]['q']
                    completion_q.add(hq)
            if fn.root_var(a['args'][0]) != param_root(fn, 0):
                ok, msg = False, 'add() is not given the object handled'
        R.check(ok, 'H2-completion-functor', q + '#functor-hands-the-handle-to-the-completion-routine', fn.site, msg)
        if not ok:
            continue
        a = adds[0]
        # ---- H3
        av = None
        for n in fn.all_nodes():
            if n.get('k') == 'decl':
                for v in n['vars']:
                    if isinstance(v.get('init'), int) and a['id'] in fn.subtree(v['init']):
                        av = v
        hooks = _derived_hook_calls(fn, '_not_in_any_relation')
        ok, msg = av is not None and len(hooks) == 1, 'result of add() is not kept / no single X_not_in_any_relation() call'
        if ok:
            hk = hooks[0]
            g = [(n, s) for (n, s) in guard_conds(fn, hk['id']) if n.get('k') == 'var' and n.get('d') == av['d']]
            if not g or any(s for (_n, s) in g):
                ok, msg = False, 'X_not_in_any_relation() is not restricted to add() having returned false'
            elif every_path_passes(fn, [hk['id']], start=a['id'], edge_ok=var_edge_filter(fn, av['d'], False)) is not None:
                ok, msg = False, 'a path with add() == false skips X_not_in_any_relation()'
            elif fn.root_var((hk.get('args') or [None])[0]) != param_root(fn, 0):
                ok, msg = False, 'X_not_in_any_relation() is not given the object handled'
        R.check(ok, 'H3-not-in-any-relation-iff-not-added', q + '#hook-iff-add-returned-false', fn.site, msg)
        fl = calls(fn, flush_q) + calls(fn, RMB + '::flush_output')
        handler_flush_ok[q] = bool(fl) and every_path_passes(fn, [n['id'] for n in fl], start=a['id']) is None
    if len(completion_q) != 1:
        R.broken('the completion functors do not agree on one completion routine: %s' % sorted(completion_q))
        return
    hq = list(completion_q)[0]
    rem_q = set(_one_q(M.remove_fns))
    p_find, p_rel = getattr(M, 'remove_roles', (None, None))
    for fn0 in fb.fns(hq):
        def body(fn, R, fn0=fn0):
            q = fn.q
            h = param_root(fn, 0)
            cbs = [n for n in _derived_hook_calls(fn, 'complete_relation')
                   if [x for a in n.get('args', []) if a is not None for x in subtree_calls(fn, a, RH + '::operator*') if fn.root_var(x['id']) == h]]
            why = exactly_once(fn, [n['id'] for n in cbs]) if cbs else 'no derived().complete_relation(*handle) call'
            R.check(why is None, 'H1-callback-before-release', q + '#callback-exactly-once', fn.site, 'completion callback: %s' % why)
            rels = [n for n in fn.all_nodes() if n.get('k') == 'call' and n.get('u') and n['id'] not in {c['id'] for c in cbs}
                    and not n.get('_inlined') and not n.get('q', '').startswith('std::') and _reaches_stash_release(fb, n)]
            mrel = [n for n in rels if n['q'] in rem_q]
            rrel = [n for n in rels if n['q'] == RH + '::remove' and fn.root_var(n['recv']) == h]
            other = [n for n in rels if n not in mrel and n not in rrel]
            for (lst, what) in ((mrel, 'member'), (rrel, 'relation')):
                bad = [n for n in lst if not any(fn.elem_dominates(c['id'], n['id']) for c in cbs)]
                R.check(bool(cbs) and not bad, 'H1-callback-before-release', '%s#callback-dominates-%s-release' % (q, what),
                        fn.loc(bad[0]['id']) if bad else fn.site,
                        'the %s is released from the stash before complete_relation() has run: the callback would read freed items' % what)
            R.check(not other, 'H1-callback-before-release', q + '#no-other-stash-release', fn.loc(other[0]['id']) if other else fn.site,
                    'unexpected call reaching ItemStash::remove_item: %s' % (other[0]['q'] if other else ''))
            # every wanted member released
            ok, msg = True, ''
            loops = [L for L in elem_loops(fn)
                     if (origin(fn, L.seq) or {}).get('q') == 'osmium::Relation::members' and fn.root_var((origin(fn, L.seq) or {}).get('id')) == h]
            if len(loops) != 1 or not mrel:
                ok, msg = False, 'no single loop over handle->members() that releases the members'
            else:
                L = loops[0]
                lroots = L.roots
                for n in mrel:
                    if not loop_contains(fn, L, n['id']):
                        ok, msg = False, 'member release outside the member loop'
                        continue
                    args = n.get('args', [])
                    rc = origin(fn, n['recv'])
                    sel = rc is not None and rc.get('q') == RMB + '::member_database' and \
                        any((fn.sn(a) or {}).get('q') == MEMBER + '::type' and fn.root_var(a) in lroots for a in rc.get('args', []) if a is not None)
                    if not sel:
                        ok, msg = False, 'the database is not selected by member_database(member.type()) of the current member'
                    elif p_find is not None and not ((fn.sn(args[p_find]) or {}).get('q') == MEMBER + '::ref' and fn.root_var(args[p_find]) in lroots):
                        ok, msg = False, 'the member released is not the current member\'s ref()'
                    elif p_rel is not None and fn.root_var(args[p_rel]) != h:
                        ok, msg = False, 'the relation id given is not the completed relation\'s'
                    for (g, s) in guard_conds(fn, n['id']):
                        if not loop_contains(fn, L, g['id']) or g['id'] == fn.strip(fn.blocks[fn.positions()[L.inc][0]].get('cond', -1)):
                            continue
                        z = zero_test(fn, g)
                        zn = fn.sn(z[1]) if z else None
                        if g.get('k') == 'call' and g.get('op') == '!=' and g.get('q', '').endswith('operator!='):
                            continue        # the loop condition itself
                        if not (z and zn is not None and zn.get('q') == MEMBER + '::ref' and fn.root_var(z[1]) in lroots and ((z[0] == '!=') == s)):
                            ok, msg = False, 'the release is subject to a condition other than member.ref() != 0: %s' % fn.expr(g['id'])[:60]
                if ok:
                    def edge_ok(b, idx, s, fn=fn, lroots=lroots):
                        blk = fn.blocks[b]
                        if 'cond' in blk and len(blk['succs']) == 2:
                            z = zero_test(fn, fn.sn(blk['cond']))
                            if z and (fn.sn(z[1]) or {}).get('q') == MEMBER + '::ref' and fn.root_var(z[1]) in lroots:
                                return idx == (0 if z[0] == '!=' else 1)
                        return True
                    w = every_path_passes(fn, [n['id'] for n in mrel], start=L.start, until=[L.inc], edge_ok=edge_ok)
                    if w is not None:
                        ok, msg = False, 'a wanted member (ref != 0) is not released: ' + describe_path(fn, w)
                    elif can_follow(fn, [n['id'] for n in mrel], [n['id'] for n in mrel], [L.inc]) is not None:
                        ok, msg = False, 'a member can be released twice in one iteration'
                    elif loop_escape(fn, L) is not None:
                        ok, msg = False, 'members after the one that ends the loop are never released: an iteration can leave the member loop ' \
                            'without advancing (break / return on a per-member condition; a skip must be `continue`): ' + describe_path(fn, loop_escape(fn, L))
            R.check(ok, 'H1-callback-before-release', q + '#every-wanted-member-released', fn.site, msg)
            why = exactly_once(fn, [n['id'] for n in rrel]) if rrel else 'handle.remove() missing: a completed relation stays in the database and is listed as incomplete'
            if why is None and can_follow(fn, [n['id'] for n in rrel], [n['id'] for n in mrel]) is not None:
                why = 'the relation is released before its members (remove() reads the relation id from the released item)'
            R.check(why is None, 'H1-callback-before-release', q + '#relation-released-once-after-its-members', fn.site, 'relation release: %s' % why)
            fl = calls(fn, flush_q) + calls(fn, RMB + '::flush_output')
            here = bool(cbs) and bool(fl) and all(every_path_passes(fn, [n['id'] for n in fl], start=c['id']) is None for c in cbs)
            R.check(here or (handler_flush_ok and all(handler_flush_ok.values())), 'H1-callback-before-release', q + '#output-offered-to-flush', fn.site,
                    'after the completion callback no possibly_flush() is reached, neither here nor in every second-pass handler after add()')
        per_fn(fb, R, M, fn0, body)


# ================================================================================================ manager: first pass

def fn_path_from_block(fn, bid, barrier_ids, target_ids):
    """Witness path from the start of block bid to one of target_ids avoiding barrier_ids."""
    from ..flow import path_search
    t, bar = set(target_ids), set(barrier_ids)
    return path_search(fn, bid, lambda e: e in t, lambda e: e in bar, None, from_block_start=True)


def first_pass_rules(fb, R, M):
    track_q = set(f.q for f in M.track_fns)
    # the first-pass routine: tracks members or stores the relation (either role identifies it: a deleted track() is a violation)
    direct = [f for f in fb.functions if f.cls == RM and f.has_cfg and not f.is_lambda and (any(calls(f, tq) for tq in track_q) or calls(f, RDB + '::add'))]
    via = [f for (f, _v) in M.proto._callers_on_this({f.usr for f in direct}).values() if f.cls == RM and not f.is_lambda]
    fns = _tops(direct + via)
    zero_sites = set()
    if not fns:
        R.broken('no RelationsManager method that tracks members (relation) found')
        return
    for fn0 in fns:
        def body(fn, R, fn0=fn0):
            q = fn.q
            hv = None
            addc = None
            for n in fn.all_nodes():
                if n.get('k') == 'decl':
                    for v in n['vars']:
                        if isinstance(v.get('init'), int):
                            cs = subtree_calls(fn, v['init'], RDB + '::add')
                            if cs:
                                hv, addc = ('var', v['d'], v['name']), cs[0]
            if hv is None:
                R.broken('%s: the relation is not stored through RelationsDatabase::add' % q)
                return
            ok = fn.root_var(addc['args'][0]) == param_root(fn, 0)
            g = [(n, s) for (n, s) in guard_conds(fn, addc['id']) if n.get('k') == 'call' and n.get('q', '').endswith('::new_relation')]
            ok = ok and bool(g) and all(s for (_n, s) in g) and all(fn.root_var((n.get('args') or [None])[0]) == param_root(fn, 0) for (n, _s) in g)
            R.check(ok, 'W1-track-xor-mark', q + '#stored-only-if-new_relation-accepts-it', fn.loc(addc['id']),
                    'the relation must be stored exactly under derived().new_relation(relation)')
            loops = [L for L in elem_loops(fn) if (origin(fn, L.seq) or {}).get('q') == 'osmium::Relation::members' and fn.root_var((origin(fn, L.seq) or {}).get('id')) == hv]
            if len(loops) != 1:
                R.bad('W1-track-xor-mark', q + '#each-member-tracked-xor-zeroed', fn.site,
                      'no single loop over the members of the STORED relation copy (handle->members())')
                return
            L = loops[0]
            lroots = L.roots
            tracks = [c for tq in track_q for c in calls(fn, tq)]
            zeros = [c for c in [c for c in calls(fn, MEMBER + '::set_ref') if fn.root_var(c['recv']) in lroots] if fn.const_value((c.get('args') or [None])[0]) == 0]
            zero_sites.update(_site_id(fn, c) for c in zeros)
            ids = [c['id'] for c in tracks + zeros]
            ok, msg = True, ''
            if not L.mutable_reference():
                ok, msg = False, 'the loop variable is not a mutable reference: set_ref(0) would not reach the stored copy'
            elif not zeros:
                ok, msg = False, 'uninteresting members are not zeroed: consumers would look them up / release them'
            else:
                why = exactly_once(fn, ids, start=L.start, until=[L.inc])
                if why is not None:
                    ok, msg = False, 'per member, track() / set_ref(0): %s' % why
                elif loop_escape(fn, L) is not None:
                    ok, msg = False, 'later members are neither tracked nor zeroed: ' + ESC + describe_path(fn, loop_escape(fn, L))
            for c in tracks:
                args = c.get('args', [])
                rc = origin(fn, c['recv'])
                sel = rc is not None and rc.get('q') == RMB + '::member_database' and \
                    any((fn.sn(a) or {}).get('q') == MEMBER + '::type' and fn.root_var(a) in lroots for a in rc.get('args', []) if a is not None)
                refs = [a for a in args if a is not None and (fn.sn(a) or {}).get('q') == MEMBER + '::ref' and fn.root_var(a) in lroots]
                if ok and not (sel and refs and any(fn.root_var(a) == hv for a in args if a is not None)):
                    ok, msg = False, 'track() must be called on member_database(member.type()) with the stored relation\'s handle and member.ref() of the current member'
            R.check(ok, 'W1-track-xor-mark', q + '#each-member-tracked-xor-zeroed', fn.site, msg)
            # interest test
            ok, msg = bool(tracks) and bool(zeros), 'track()/set_ref(0) missing'
            if ok:
                def interest(c):
                    out = []
                    for (n, s) in guard_conds(fn, c['id']):
                        if not loop_contains(fn, L, n['id']):
                            continue
                        src = origin(fn, n['id']) or n
                        sub = [fn.nodes[x] for x in fn.subtree(src['id'])]
                        if any(x.get('q', '').endswith('::wanted_type') for x in sub) and any(x.get('q', '').endswith('::new_member') for x in sub):
                            out.append((n['id'], s))
                    return out
                ti = [interest(c) for c in tracks]
                if not all(t and all(s for (_i, s) in t) for t in ti):
                    ok, msg = False, 'track() is not restricted to wanted_type(member.type()) && new_member(...)'
                else:
                    # given "exactly one of track / set_ref(0) per member" (instance above), set_ref(0) happens exactly when the
                    # interest test is false iff track() is reached whenever the test is true
                    cids = {i for t in ti for (i, _s) in t}

                    for b in fn.blocks.values():
                        if 'cond' in b and len(b['succs']) == 2 and fn.strip(b['cond']) in cids and b['succs'][0] is not None:
                            w = fn_path_from_block(fn, b['succs'][0], [c['id'] for c in tracks], [L.inc])
                            if w is not None:
                                ok, msg = False, 'a member that passes the interest test is not tracked (and therefore zeroed): ' + describe_path(fn, w)
            R.check(ok, 'W1-track-xor-mark', q + '#zeroed-exactly-when-uninteresting', fn.site, msg)
            # W2 counter
            ok, msg = bool(tracks), 'no track() call'
            for c in tracks:
                cv = [fn.sn(a) for a in c.get('args', []) if a is not None and (fn.sn(a) or {}).get('k') == 'var' and (fn.sn(a) or {}).get('vk') == 'local'
                      and fn.root_var(a) != hv]
                if len(cv) != 1:
                    ok, msg = False, 'the member position passed to track() is not a local counter'
                    continue
                d = cv[0]['d']
                inc = counts_from_zero_by_one(fn, d)
                if inc is None or not loop_contains(fn, L, inc):
                    ok, msg = False, 'the position counter does not start at 0 / is not incremented by one inside the member loop'
                elif exactly_once(fn, [inc], start=L.start, until=[L.inc]) is not None:
                    ok, msg = False, 'the position counter is not incremented exactly once per member (skipped members shift all later positions)'
                elif can_follow(fn, [inc], [c['id']], [L.inc]) is not None:
                    ok, msg = False, 'the position counter is incremented before it is passed to track()'
                else:
                    decl_in_loop = [n for n in fn.all_nodes() if n.get('k') == 'decl' and any(v['d'] == d for v in n['vars']) and loop_contains(fn, L, n['id'])]
                    if decl_in_loop:
                        ok, msg = False, 'the position counter is re-initialised for every member'
            R.check(ok, 'W2-member-position-counter', q + '#position-counter', fn.site, msg)
        per_fn(fb, R, M, fn0, body)
    # only writer of ref 0 / any set_ref in the manager classes
    fam = {RMB, RM, MDC, MD, RDB} | {r.q for r in fb.derived_from(RMB)}
    others = []
    for f in fb.functions:
        if f.has_cfg and (f.cls in fam or (f.is_lambda and any(f.q.startswith(c + '::') for c in fam))):
            for c in calls(f, MEMBER + '::set_ref'):
                if _site_id(f, c) not in zero_sites:
                    others.append((f, c))
    R.check(not others, 'W1-track-xor-mark', MEMBER + '::set_ref#only-written-by-the-first-pass-interest-test',
            others[0][0].loc(others[0][1]['id']) if others else fns[0].site,
            'member ids of stored relations are also rewritten in %s' % (others[0][0].q if others else ''))


def consumer_rules(fb, R, M):
    """W3: uses of member.ref() as lookup / release key in manager classes."""
    fam = {RMB, RM} | {r.q for r in fb.derived_from(RMB)}
    sinks = set(_one_q(M.remove_fns)) | {q for q in M.searchers if q not in M.find_qs and q not in _one_q(M.add_fns)}
    # id-taking accessors of the manager base (get_member_node/way/relation): passing member.ref() to them is a use, too
    getters = set()
    for f in fb.functions:
        if f.cls == RMB and f.has_cfg and f.kind == 'method' and len(f.params) == 1 and f.params[0]['tC'] in ('long', 'osmium::object_id_type'):
            if [c for q in sinks for c in calls(f, q)]:
                getters.add(f.q)
    for f in fb.functions:
        if not f.has_cfg or not (f.cls in fam or (f.is_lambda and any(f.q.startswith(c + '::') for c in fam))):
            continue
        uses = []
        for c in f.all_nodes():
            if c.get('k') != 'call' or c.get('q') not in sinks | getters or not live(f, c['id']):
                continue
            for a in c.get('args', []):
                an = f.sn(a) if a is not None else None
                if an is not None and an.get('q') == MEMBER + '::ref':
                    uses.append((c, f.root_var(a)))
        if not uses:
            continue
        ok, msg = True, ''
        for (c, root) in uses:
            g = nonzero_guarded(f, c['id'], lambda x, root=root: (f.sn(x) or {}).get('q') == MEMBER + '::ref' and f.root_var(x) == root)
            if not g:
                ok, msg = False, '%s is called with member.ref() without skipping ref() == 0 (members the manager is not interested in are marked with ref 0)' % c['q']
        R.check(ok, 'W3-consumers-skip-zero-ref', f.q + '#zero-ref-members-skipped', f.site, msg)


# ================================================================================================ dispatch / listing / counter

def dispatch_rules(fb, R, M):
    mrec = fb.record(RMB)
    en = fb.enum('osmium::item_type')
    if mrec is None or en is None:
        R.broken('record %s / enum osmium::item_type not found' % RMB)
        return
    dbs = {}
    for f in mrec.fields:
        if f['tC'].startswith(MD + '<'):
            t = S.element_type(f['tC'])
            trec = fb.record(S.plain_name(t))
            it = [s for s in (trec.statics if trec else []) if s['name'] == 'itemtype' and 'cv' in s]
            if not it:
                R.broken('%s: cannot read %s::itemtype' % (RMB, t))
                return
            dbs[f['name']] = int(it[0]['cv'])
    names = {int(e['value']): e['name'] for e in en['enumerators']}
    fns = [f for f in fb.functions if f.cls == RMB and f.has_cfg and not f.is_lambda and len(f.params) == 1
           and S.plain_name(f.params[0]['tC']) == 'osmium::item_type' and S.plain_name(f.retC) == MDC]
    if not fns:
        R.broken('%s: no item_type -> MembersDatabaseCommon& dispatch function found' % RMB)
        return
    for fn in fns:
        tag = 'const' if fn.const else 'mutable'
        for fname, v in sorted(dbs.items(), key=lambda kv: kv[1]):
            key = '%s[%s]#case-%s' % (fn.q, tag, names.get(v, v))
            rets = _returns_for_value(fn, fn.params[0]['d'], v)
            got = set()
            for r in rets:
                rv = fn.root_var(r['sub']) if 'sub' in r else None
                got.add(rv[2] if rv is not None and rv[0] == 'field' else '?')
            R.check(got == {fname}, 'D1-member-database-dispatch', key, fn.loc(rets[0]['id']) if rets else fn.site,
                    'for item_type::%s the function must return %s (MembersDatabase of that object type), it returns %s' % (
                        names.get(v, v), fname, ', '.join(sorted(got)) or 'nothing'))


def _returns_for_value(fn, param_d, v):
    """Return statements reachable when the integer/enum parameter `param_d` has the constant value v: the CFG is walked
    following, at a switch on the parameter, only the matching case (or default) and, at a branch whose condition is
    `param == c` / `param != c`, only the edge the value selects; every other branch is followed both ways, failed
    assertions are dead ends.  Spelling-independent: switch, if-chain, early returns and mixtures give the same set."""
    def is_param(nid):
        n = fn.sn(nid)
        return n is not None and n.get('k') == 'var' and n.get('d') == param_d

    rets, seen, work = [], set(), [fn.entry]
    while work:
        b = work.pop()
        if b in seen:
            continue
        seen.add(b)
        blk = fn.blocks[b]
        stop = False
        for e in blk['elems']:
            n = fn.nodes[e]
            if n.get('k') == 'return':
                rets.append(n)
                stop = True
                break
            if n.get('k') == 'call' and n.get('q') in ('__assert_fail', 'abort', 'std::abort', 'std::terminate'):
                stop = True
                break
        if stop:
            continue
        succs = blk['succs']
        if blk.get('termcls') == 'SwitchStmt' and 'cond' in blk and is_param(blk['cond']):
            match = dflt = None
            plain = []
            for s_ in succs:
                if s_ is None:
                    continue
                lab = fn.blocks[s_].get('label') or {}
                if 'case' in lab:
                    if fn.const_value(lab['case']) == v:
                        match = s_
                elif lab.get('default'):
                    dflt = s_
                else:
                    plain.append(s_)
            work.extend([match] if match is not None else [dflt] if dflt is not None else plain)
            continue
        if 'cond' in blk and len(succs) == 2:
            c = fn.sn(blk['cond'])
            neg = False
            while c is not None and c.get('k') == 'unop' and c.get('op') == '!':
                neg = not neg
                c = fn.sn(c['sub'])
            if c is not None and c.get('k') == 'binop' and c.get('op') in ('==', '!='):
                for (x, y) in ((c['lhs'], c['rhs']), (c['rhs'], c['lhs'])):
                    cv = fn.const_value(y)
                    if is_param(x) and cv is not None:
                        truth = ((cv == v) == (c['op'] == '==')) != neg
                        t = succs[0 if truth else 1]
                        if t is not None:
                            work.append(t)
                        break
                else:
                    work.extend(x for x in succs if x is not None)
                continue
        work.extend(x for x in succs if x is not None)
    return rets


def listing_rules(fb, R, M):
    # RelationsDatabase::remove
    fns = [f for f in fb.functions if f.cls == RDB and f.has_cfg and calls(f, STASH + '::remove_item')]
    if not fns:
        R.broken('%s: no method releasing a relation from the stash' % RDB)
    for fn in fns:
        rel = calls(fn, STASH + '::remove_item')
        resets = []
        for n in fn.all_nodes():
            tgt = val = None
            if n.get('k') == 'call' and n.get('op') == '=' and n.get('recv') is not None:
                tgt, val = n['recv'], (n.get('args') or [None])[0]
            elif n.get('k') == 'assign':
                tgt, val = n['lhs'], n['rhs']
            if tgt is None or val is None:
                continue
            dflt = [x for x in fn.subtree(val) if fn.nodes[x].get('k') == 'construct' and fn.nodes[x].get('q') == STASH + '::handle_type::(ctor)'
                    and not fn.nodes[x].get('args')]
            if dflt:
                resets.append((n, fn.root_var(tgt)))
        ok, msg = bool(rel) and bool(resets), 'after remove_item the element must be assigned an invalid (default) handle'
        if ok:
            hroots = {fn.root_var(x) for r in rel for x in fn.subtree(r['id']) if fn.nodes[x].get('k') == 'member' and fn.nodes[x].get('field')
                      and S.plain_name(fn.nodes[x].get('t', '')) == STASH + '::handle_type'}
            if not all(rt in hroots for (_n, rt) in resets):
                ok, msg = False, 'the element invalidated is not the one whose stash item was released'
            elif every_path_passes(fn, [n['id'] for (n, _r) in resets]) is not None:
                ok, msg = False, 'a path leaves the released relation with a valid-looking handle'
            elif can_follow(fn, [n['id'] for (n, _r) in resets], [r['id'] for r in rel]) is not None:
                ok, msg = False, 'the handle is invalidated before it is used for the stash release'
        R.check(ok, 'I1-released-relation-not-listed', fn.q + '#stash-release-then-handle-invalidated', fn.site, msg)
    # for_each_relation
    fns = [f for f in fb.functions if f.cls == RDB and f.has_cfg and f.loops and f.params and
           [n for n in f.all_nodes() if n.get('k') == 'call' and n.get('op') == '()' and n.get('recv') is not None and f.root_var(n['recv']) == param_root(f, 0)]]
    if not fns:
        R.broken('%s: no method iterating the relations with a callback (for_each_relation)' % RDB)
    for fn in fns:
        fc = [n for n in fn.all_nodes() if n.get('k') == 'call' and n.get('op') == '()' and n.get('recv') is not None and fn.root_var(n['recv']) == param_root(fn, 0)]
        ok, msg = True, ''
        idx = None
        for c in fc:
            g = [(n, s) for (n, s) in guard_conds(fn, c['id']) if n.get('k') == 'call' and n.get('q') == STASH + '::handle_type::valid']
            if not g or not all(s for (_n, s) in g):
                ok, msg = False, 'the callback is not restricted to elements with a valid handle (released relations would be listed as incomplete)'
                continue
            ix = [x for (n, _s) in g for x in subtree_calls(fn, n['id'], 'std::vector::operator[]')]
            hs = [x for x in fn.subtree(c['id']) if fn.nodes[x].get('k') == 'construct' and fn.nodes[x].get('q') == RH + '::(ctor)' and len(fn.nodes[x].get('args', [])) == 2]
            if not ix or not hs:
                ok, msg = False, 'unknown shape of the validity test / handle construction'
                continue
            iv = fn.root_var(ix[0]['args'][0])
            idx = iv
            if fn.root_var(fn.nodes[hs[0]]['args'][1]) != iv:
                ok, msg = False, 'the handle passed to the callback is not for the position whose validity was tested'
        R.check(ok and bool(fc), 'I1-released-relation-not-listed', fn.q + '#callback-only-for-valid-handles', fn.site, msg or 'no callback call')
        ok = False
        if idx is not None and idx[0] == 'var':
            inc = counts_from_zero_by_one(fn, idx[1])
            for b in fn.blocks.values():
                if b.get('termcls') == 'ForStmt' and 'cond' in b:
                    c = fn.sn(b['cond'])
                    if c is not None and c.get('k') == 'binop' and c['op'] in ('<', '!=') and fn.root_var(c['lhs']) == idx:
                        sz = origin(fn, c['rhs'])
                        if sz is not None and sz.get('q') == 'std::vector::size' and fn.root_var(sz['recv']) == fn.root_var(
                                subtree_calls(fn, fc[0]['id'], 'std::vector::operator[]')[0]['recv'] if subtree_calls(fn, fc[0]['id'], 'std::vector::operator[]') else sz['recv']):
                            ok = inc is not None
        R.check(ok, 'I1-released-relation-not-listed', fn.q + '#visits-every-position', fn.site,
                'the listing loop must run a counter from 0 by 1 while < size() of the element vector')
    fwd = [f for f in fb.functions if f.cls == RM and f.has_cfg and any(calls(f, g.q) for g in fns)]
    for fn in fwd:
        cs = [c for g in fns for c in calls(fn, g.q)]
        why = exactly_once(fn, [c['id'] for c in cs])
        okargs = all(any(fn.root_var(a) == param_root(fn, 0) for a in c.get('args', []) if a is not None) for c in cs)
        R.check(why is None and okargs, 'I1-released-relation-not-listed', fn.q + '#forwards-to-the-database-listing', fn.site,
                'for_each_incomplete_relation must forward its callback to RelationsDatabase::for_each_relation once (%s)' % why)
    if not fwd:
        R.broken('no RelationsManager method forwarding to the relations listing (for_each_incomplete_relation) instantiated')


def _stash_copy_feeds_push(fn, push, initlist):
    """The element pushed carries the handle of `m_stash.add_item(<first parameter>)` (inline or through a named local)."""
    adds = calls(fn, STASH + '::add_item')
    if len(adds) != 1 or fn.root_var(adds[0]['args'][0]) != param_root(fn, 0):
        return False
    if adds[0]['id'] in fn.subtree(push['id']):
        return True
    return any((origin(fn, a) or {}).get('id') == adds[0]['id'] for a in initlist.get('args', []) if a is not None) and \
        fn.elem_dominates(adds[0]['id'], push['id'])


def counter_rules(fb, R, M):
    acc = RDB + '::members'
    erec = fb.record(RDB + '::element')
    accf = fb.fns(acc)
    if erec is None or not accf:
        R.broken('%s::element / %s not found' % (RDB, acc))
        return
    cfield = None
    for fn in accf:
        rets = [n for n in fn.all_nodes() if n.get('k') == 'return' and 'sub' in n]
        if len(rets) == 1:
            m = fn.sn(rets[0]['sub'])
            ix = subtree_calls(fn, rets[0]['sub'], 'std::vector::operator[]')
            if m is not None and m.get('k') == 'member' and m.get('field') and ix and fn.root_var(ix[0]['args'][0]) == param_root(fn, 0) \
                    and fn.retC.rstrip().endswith('&') and 'const' not in fn.retC:
                cfield = m['q']
    R.check(cfield is not None, 'C1-member-counter-ops', acc + '#reference-to-the-counter-of-that-position', accf[0].site,
            'members(pos) must return a mutable reference to the counter field of m_elements[pos]')

    def on_own_counter(fn, nid):
        n = fn.sn(nid)
        if n is None or n.get('q') != acc:
            return False
        a = fn.sn((n.get('args') or [None])[0]) if n.get('args') else None
        return a is not None and a.get('k') == 'member' and a.get('field') and fn.is_this_member(a['id']) and S.plain_name(a.get('t', '')) in ('unsigned long', 'std::size_t')

    for (name, op) in (('increment_members', '++'), ('decrement_members', '--')):
        fns = fb.fns(RH + '::' + name)
        if not fns:
            R.bad('C1-member-counter-ops', RH + '::' + name + '#' + op, '%s:%d' % (erec.file, erec.line), '%s::%s vanished' % (RH, name))
        for fn in fns:
            us = [n for n in fn.all_nodes() if n.get('k') == 'unop' and n['op'] in ('++', '--') and on_own_counter(fn, n['sub'])]
            asg = [n for n in fn.all_nodes() if n.get('k') == 'assign']
            ok = len(us) == 1 and us[0]['op'] == op and not asg and exactly_once(fn, [us[0]['id']]) is None
            R.check(ok, 'C1-member-counter-ops', fn.q + '#' + op, fn.site, '%s must apply %s exactly once to members(m_pos)' % (fn.q, op))
    for fn in fb.fns(RH + '::has_all_members'):
        rets = [n for n in fn.all_nodes() if n.get('k') == 'return' and 'sub' in n]
        ok = len(rets) == 1
        if ok:
            z = zero_test(fn, fn.sn(rets[0]['sub']))
            ok = z is not None and z[0] == '==' and on_own_counter(fn, z[1])
        R.check(ok, 'C1-member-counter-ops', fn.q + '#==0', fn.site, 'has_all_members() must be members(m_pos) == 0')
    if not fb.fns(RH + '::has_all_members'):
        R.broken('%s::has_all_members not found' % RH)
    for fn in fb.fns(RDB + '::add'):
        push = [n for n in fn.all_nodes() if n.get('k') == 'call' and n.get('q') in ('std::vector::push_back', 'std::vector::emplace_back')
                and fn.is_this_member(n['recv'])]
        ok, msg = len(push) == 1, 'one push_back expected'
        if ok:
            il = [fn.nodes[x] for x in fn.subtree(push[0]['id']) if fn.nodes[x].get('k') == 'initlist']
            cidx = next((f['idx'] for f in erec.fields if f['q'] == cfield), None)
            if not il or cidx is None or len(il[0].get('args', [])) <= cidx or fn.const_value(il[0]['args'][cidx]) != 0:
                ok, msg = False, 'the member counter of a new relation must start at 0 (track() increments it once per tracked member)'
            elif not _stash_copy_feeds_push(fn, push[0], il[0]):
                ok, msg = False, 'the relation parameter is not copied into the stash'
        R.check(ok, 'C1-member-counter-ops', fn.q + '#counter-starts-at-0', fn.site, msg)
        rets = [n for n in fn.all_nodes() if n.get('k') == 'return' and 'sub' in n]
        ok = len(rets) == 1 and len(push) == 1
        if ok:
            hs = [fn.nodes[x] for x in fn.subtree(rets[0]['sub']) if fn.nodes[x].get('k') == 'construct' and fn.nodes[x].get('q') == RH + '::(ctor)' and len(fn.nodes[x].get('args', [])) == 2]
            ok = bool(hs)
            if ok:
                # the position of the new element: size() - 1 evaluated after the push, or size() evaluated before it
                p = origin(fn, hs[0]['args'][1])
                vec = fn.root_var(push[0]['recv'])
                after = p is not None and p.get('k') == 'binop' and p['op'] == '-' and fn.const_value(p['rhs']) == 1 \
                    and (origin(fn, p['lhs']) or {}).get('q') == 'std::vector::size' and fn.root_var((origin(fn, p['lhs']) or {}).get('recv')) == vec \
                    and fn.elem_dominates(push[0]['id'], origin(fn, p['lhs'])['id'])
                before = p is not None and p.get('k') == 'call' and p.get('q') == 'std::vector::size' and fn.root_var(p.get('recv')) == vec \
                    and fn.elem_dominates(p['id'], push[0]['id'])
                ok = after or before
        R.check(ok, 'C1-member-counter-ops', fn.q + '#returns-the-handle-of-the-element-just-pushed', fn.site,
                'add() must return the handle of the element just pushed: {this, size() - 1} evaluated after the push_back, or size() read before it')
    if not fb.fns(RDB + '::add'):
        R.broken('%s::add not found' % RDB)


# ================================================================================================ lost updates / stash index

STD_ELEMENT_ACCESS = ('operator[]', 'at', 'front', 'back')


def _returns_mutable_ref(fb, fn, c):
    """The call node c yields a non-const lvalue reference into storage owned elsewhere."""
    if c is None or c.get('k') != 'call' or 'q' not in c:
        return False
    gs = [g for g in fb.by_usr.get(c.get('u'), [])]
    if gs:
        t = gs[0].retC.strip()
        return t.endswith('&') and not t.endswith('&&') and not t.startswith('const ') and ' const &' not in t
    q = c['q']
    if q.startswith(('std::vector::', 'std::deque::', 'std::array::')) and q.rsplit('::', 1)[-1] in STD_ELEMENT_ACCESS and c.get('recv') is not None:
        rt = (fn.sn(c['recv']) or {}).get('t', '')
        return not rt.strip().startswith('const ')
    return False


def _init_call(fn, init):
    """The call a local is initialised from, looking through value copies / lvalue-to-rvalue conversions only."""
    n = fn.sn(init)
    g = 0
    while n is not None and n.get('k') == 'construct' and (n.get('copymove') or n.get('elidable')) and len(n.get('args', [])) == 1 and g < 4:
        n = fn.sn(n['args'][0])
        g += 1
    return n if n is not None and n.get('k') == 'call' else None


def _writes_to_var(fn, d):
    """[(write node, element id)] assignments / ++ / compound assignments whose target is the local d or a field of it."""
    out = []
    for n in fn.all_nodes():
        k = n.get('k')
        tgt = None
        if k == 'assign':
            tgt = n['lhs']
        elif k == 'unop' and n.get('op') in ('++', '--'):
            tgt = n['sub']
        elif k == 'call' and n.get('op') in ('=', '+=', '-=', '*=', '/=', '|=', '&=', '^=', '<<=', '>>=', '++', '--') and n.get('recv') is not None:
            tgt = n['recv']
        if tgt is None:
            continue
        x = tgt
        hops = 0
        while x is not None and x in fn.nodes and hops < 20:       # the variable itself or a (nested) field of it
            hops += 1
            m = fn.nodes[x]
            if m.get('k') in ('wrap', 'icast'):
                x = m.get('sub')
            elif m.get('k') == 'member' and m.get('field') and not m.get('arrow'):
                x = m.get('base')
            else:
                break
        m = fn.nodes.get(x) if x is not None else None
        if m is not None and m.get('k') == 'var' and m.get('d') == d:
            out.append((n, m['id']))
    return out


def _read_after(fn, d, write, target_var_node):
    """Some path from the write reaches another mention of the local (a read, or a further write that itself is read)."""
    from ..flow import path_search
    uses = {n['id'] for n in fn.all_nodes() if n.get('k') == 'var' and n.get('d') == d and n['id'] != target_var_node}
    if not uses:
        return False
    return path_search(fn, write['id'], lambda e: e in uses, lambda e: False) is not None


def family_functions(fb):
    fam = {MDC, MD, RDB, RH, RMB, RM, STASH, STASH + '::cleanup_helper', 'osmium::memory::CallbackBuffer'} | {r.q for r in fb.derived_from(RMB)}
    return [f for f in fb.functions if f.has_cfg and (f.cls in fam or (f.is_lambda and any(f.q.startswith(c + '::') for c in fam)))]


def lost_update_rules(fb, R, M):
    """L1: a local initialised from a call that returns a non-const lvalue reference and then written must BE a reference
    (or its value must be read after the write): otherwise the update never reaches the storage the call designated."""
    lost_update_check(fb, R, family_functions(fb))


def lost_update_check(fb, R, fns):
    for fn in fns:
        for dn in fn.all_nodes():
            if dn.get('k') != 'decl':
                continue
            for v in dn['vars']:
                if not isinstance(v.get('init'), int):
                    continue
                c = _init_call(fn, v['init'])
                if c is None or not _returns_mutable_ref(fb, fn, c):
                    continue
                t = v['tC'].strip()
                if t.endswith('*'):
                    continue
                ws = _writes_to_var(fn, v['d'])
                if not ws:
                    continue
                key = '%s#write-through-%s' % (fn.q, c['q'].rsplit('::', 1)[-1])
                if t.endswith('&') and not t.startswith('const '):
                    R.ok('L1-write-reaches-storage', key, fn.loc(dn['id']))
                    continue
                lost = [w for (w, tv) in ws if not _read_after(fn, v['d'], w, tv)]
                R.check(not lost, 'L1-write-reaches-storage', key, fn.loc(lost[0]['id']) if lost else fn.loc(dn['id']),
                        'local `%s` is a COPY of the object %s() refers to; the value written to it in %s is never read again and never '
                        'reaches that object (declare it as a reference)' % (v['name'], c['q'].rsplit('::', 1)[-1], fn.q))


def _is_self(fn, nid, self_params):
    """The expression denotes the object itself: `this`, `*this`, or a reference parameter bound to `*this` by the caller."""
    n = fn.sn(nid) if nid is not None else None
    hops = 0
    while n is not None and hops < 6:
        hops += 1
        if n.get('k') == 'this':
            return True
        if n.get('k') == 'var' and n.get('d') in self_params:
            return True
        if n.get('k') == 'unop' and n.get('op') in ('*', '&'):
            n = fn.sn(n['sub'])
        elif n.get('k') == 'cast':
            n = fn.sn(n.get('sub'))
        else:
            return False
    return False


def _storage_of(fb, fn, nid, depth=0, self_params=frozenset()):
    """Where a store through lvalue expression nid lands: ('field', qualified container field) when it is an element of a
    container member of the object (directly, through reference locals, or through reference-returning accessors /
    static or template helpers that receive the object as `*this`), ('copy', text) when it lands in a local copy, None
    when unknown."""
    n = fn.sn(nid)
    if n is None or depth > 6:
        return None
    if n.get('k') == 'var' and n.get('vk') == 'local':
        decl = None
        for m in fn.all_nodes():
            if m.get('k') == 'decl':
                for v in m['vars']:
                    if v['d'] == n['d']:
                        decl = v
        if decl is None or not isinstance(decl.get('init'), int):
            return None
        if not decl['tC'].strip().endswith('&'):
            return ('copy', 'local `%s` is declared by value' % decl['name'])
        return _storage_of(fb, fn, decl['init'], depth + 1, self_params)
    if n.get('k') == 'call' and n.get('q', '').rsplit('::', 1)[-1] in STD_ELEMENT_ACCESS and n.get('recv') is not None:
        r = fn.sn(n['recv'])
        if r is not None and r.get('k') == 'member' and r.get('field') and _is_self(fn, r.get('base'), self_params):
            return ('field', r['q'])
        return None
    if n.get('k') == 'call' and n.get('u') and (n.get('recv') is None or _is_self(fn, n['recv'], self_params)):
        res = set()
        for g in fb.by_usr.get(n['u'], [])[:1]:
            if not g.retC.strip().endswith('&'):
                return ('copy', '%s returns by value' % g.q)
            bound = frozenset(p['d'] for p, a in zip(g.params, n.get('args', [])) if a is not None and p['tC'].strip().endswith('&')
                              and _is_self(fn, a, self_params))
            for r in g.all_nodes():
                if r.get('k') == 'return' and 'sub' in r:
                    res.add(_storage_of(fb, g, r['sub'], depth + 1, bound))
        return list(res)[0] if len(res) == 1 else None
    return None


def stash_rules(fb, R, M):
    """I2: ItemStash::remove_item invalidates the index slot of the released item; the garbage-collection callback writes
    the new offset into the index it was bound to."""
    rec = fb.record(STASH)
    if rec is None:
        R.broken('record %s not found' % STASH)
        return
    idx = [f for f in rec.fields if f['tC'].startswith('std::vector<') and S.is_scalar(S.element_type(f['tC']) or '')]
    if len(idx) != 1:
        R.broken('%s: cannot identify the index vector member' % STASH)
        return
    idx_q = idx[0]['q']
    # the release routine: marks a buffer item removed
    rel = [f for f in fb.functions if f.cls == STASH and f.has_cfg and calls(f, 'osmium::memory::Item::set_removed')]
    if not rel:
        R.broken('%s: no method marking a stash item removed (remove_item) found' % STASH)
    via = [f for (f, _v) in M.proto._callers_on_this({f.usr for f in rel}).values() if f.cls == STASH and not f.is_lambda]
    for fn0 in _tops(rel + via):
        def body(fn, R):
            stores = []
            why = None
            for n in fn.all_nodes():
                if n.get('k') != 'assign' or n.get('op') != '=' or fn.const_value(n['rhs']) is None:
                    continue
                st = _storage_of(fb, fn, n['lhs'])
                if st is not None and st[0] == 'field' and st[1] == idx_q:
                    stores.append(n['id'])
                elif st is not None and st[0] == 'copy':
                    l = fn.sn(n['lhs'])
                    init = _decl_init(fn, l['d']) if l is not None and l.get('k') == 'var' else None
                    c = _init_call(fn, init) if init is not None else None
                    if c is not None and _storage_of(fb, fn, c['id']) == ('field', idx_q):
                        why = 'the removed-marker is stored into a copy of the index slot (%s): the slot keeps the old offset and a later ' \
                              'garbage collection re-targets it to a live item' % st[1]
            once = exactly_once(fn, stores) if stores else (why or 'no constant is stored into the index slot of the released item')
            R.check(once is None, 'I2-stash-index-maintained', fn.q + '#index-slot-invalidated', fn.site, 'remove_item: %s' % once)
        per_fn(fb, R, M, fn0, body)
    # moving callback
    hrec = fb.record(STASH + '::cleanup_helper')
    cbs = [f for f in fb.functions if f.cls == STASH + '::cleanup_helper' and f.has_cfg and f.kind == 'method' and len(f.params) == 2]
    if hrec is None or not cbs:
        R.broken('%s::cleanup_helper / its moving callback not found' % STASH)
        return
    for fn in cbs:
        href = [f for f in hrec.fields if f['tC'].startswith('std::vector<')]
        stores = []
        for n in fn.all_nodes():
            if n.get('k') == 'assign' and n.get('op') == '=' and fn.root_var(n['rhs']) == param_root(fn, 1) and (fn.sn(n['rhs']) or {}).get('k') == 'var':
                st = _storage_of(fb, fn, n['lhs'])
                if st is not None and st[0] == 'field' and href and st[1] == href[0]['q']:
                    stores.append(n['id'])
        why = exactly_once(fn, stores) if stores else 'the new offset is not stored into an element of the index'
        isref = bool(href) and href[0]['tC'].strip().endswith('&') and not href[0]['tC'].strip().startswith('const ')
        R.check(why is None and isref, 'I2-stash-index-maintained', fn.q + '#new-offset-written-into-the-bound-index', fn.site,
                'moving callback: %s' % (why or 'the helper holds a copy of the index, not a reference to it'))
    for fn in fb.fns(STASH + '::garbage_collect'):
        cons = [n for n in fn.all_nodes() if n.get('k') == 'construct' and n.get('q') == STASH + '::cleanup_helper::(ctor)' and not n.get('copymove')]
        ok = len(cons) == 1 and cons[0].get('args') and fn.root_var(cons[0]['args'][0]) == ('field', idx_q, idx[0]['name'])
        if ok:
            ctor = [g for g in fb.fns(STASH + '::cleanup_helper::(ctor)') if len(g.params) == 1]
            src = S.ctor_field_sources(fb, ctor[0]) if ctor else {}
            ok = any(v == ('param', 0) for v in src.values()) and ctor[0].params[0]['tC'].strip().endswith('&')
        R.check(ok, 'I2-stash-index-maintained', fn.q + '#helper-bound-to-the-index', fn.site,
                'garbage_collect must hand the stash\'s own index vector (by reference) to the moving callback')


def _decl_init(fn, d):
    for m in fn.all_nodes():
        if m.get('k') == 'decl':
            for v in m['vars']:
                if v['d'] == d and isinstance(v.get('init'), int):
                    return v['init']
    return None


# ================================================================================================ retrievability

def _leaves(fn, cid, out, depth=0):
    """Leaf conditions of a boolean expression (through !, &&, ||, bool casts and named bool locals)."""
    n = fn.sn(cid)
    hops = 0
    while n is not None and n.get('k') == 'cast' and hops < 4:
        n = fn.sn(n.get('sub'))
        hops += 1
    if n is None or depth > 8:
        return
    if n.get('k') == 'binop' and n.get('op') in ('&&', '||'):
        _leaves(fn, n['lhs'], out, depth + 1)
        _leaves(fn, n['rhs'], out, depth + 1)
    elif n.get('k') == 'unop' and n.get('op') == '!':
        _leaves(fn, n['sub'], out, depth + 1)
    elif n.get('k') == 'var' and n.get('vk') == 'local':
        o = origin(fn, n['id'])
        if o is not None and o['id'] != n['id']:
            _leaves(fn, o['id'], out, depth + 1)
        else:
            out.append(n)
    else:
        out.append(n)


def _assert_nodes(fn):
    """Node ids belonging to the condition of an assert(): a conditional expression one arm of which is a noreturn call."""
    out = set()
    for n in fn.all_nodes():
        if n.get('k') != 'condop':
            continue
        arms = [x for k in ('then', 'else') if isinstance(n.get(k), int) for x in fn.subtree(n[k])]
        if any(fn.nodes[x].get('k') == 'call' and fn.nodes[x].get('q') in ('__assert_fail', 'abort', 'std::abort', 'std::terminate') for x in arms):
            out.update(fn.subtree(n['cond']))
    return out


def _conditions_on_paths_to(fn, target):
    """Leaf conditions of every branch that is evaluated on some path entry -> target; branches one of whose edges only
    leads to a noreturn call (assert) are not decisions."""
    pos = fn.positions()
    if target not in pos:
        return []
    tb = pos[target][0]
    preds = fn.preds()
    can_reach = {tb}
    work = [tb]
    while work:
        b = work.pop()
        for p_ in preds.get(b, []):
            if p_ not in can_reach:
                can_reach.add(p_)
                work.append(p_)
    live_ = fn.reachable_blocks()

    asserted = _assert_nodes(fn)
    out = []
    for b in can_reach & live_:
        blk = fn.blocks[b]
        succs = [x for x in blk['succs'] if x is not None]
        if 'cond' not in blk or len(succs) < 2 or b == tb and False:
            continue
        if fn.strip(blk['cond']) in asserted or blk['cond'] in asserted:
            continue
        # sub-conditions of && / || are their own blocks; expanding the whole expression again only repeats them
        _leaves(fn, blk['cond'], out)
    seen, uniq = set(), []
    for n in out:
        if n['id'] not in seen:
            seen.add(n['id'])
            uniq.append(n)
    return uniq


def retrieval_rules(fb, R, M):
    """G1: a member stays retrievable until the LAST relation needing it is completed: get_object() may answer "absent"
    only because nothing is tracked under that id or because the object is not in the stash (invalid handle) -- never
    because an individual (member, relation) entry carries the removed mark."""
    pred_q = M.mark[1] if M.mark else None
    mark_field = M.mark[2] if M.mark else None
    subj = [f for f in fb.functions if f.cls == MDC and f.has_cfg and not f.is_lambda and f.kind == 'method' and f.retC.strip().endswith('*')
            and any(n.get('k') == 'call' and n.get('u') in M.find_usrs for n in f.all_nodes())]
    if not subj:
        R.broken('%s: no lookup method returning an object pointer (get_object) found' % MDC)
        return
    for fn0 in _tops(subj):
        def body(fn, R):
            fr = _found_range(fn, M)
            if fr is None:
                R.broken('%s: no local initialised from the lookup' % fn.q)
                return
            rroot = ('var', fr[0], fr[1])
            rets = [n for n in fn.all_nodes() if n.get('k') == 'return' and 'sub' in n and live(fn, n['id'])]
            nulls = [r for r in rets if (fn.sn(r['sub']) or {}).get('null') or fn.const_value(r['sub']) == 0]
            vals = [r for r in rets if r not in nulls]
            bad, unknown = [], []
            for r in nulls:
                for c in _conditions_on_paths_to(fn, r['id']):
                    sub = [fn.nodes[x] for x in fn.subtree(c['id'])]
                    if any(x.get('q') == pred_q for x in sub if x.get('k') == 'call') or \
                            any(x.get('k') == 'member' and x.get('field') and x.get('q') == mark_field for x in sub):
                        bad.append((r, c))
                        continue
                    if c.get('k') == 'call' and c.get('q', '').rsplit('::', 1)[-1] == 'empty' and c.get('recv') is not None and fn.root_var(c['recv']) == rroot:
                        continue
                    if c.get('k') == 'call' and c.get('q') == STASH + '::handle_type::valid' and c.get('recv') is not None:
                        o = origin(fn, c['recv'])
                        if o is not None and o.get('k') == 'member' and o.get('field') and o.get('q', '').startswith(M.elem + '::') and root_through_refs(fn, o['id']) == rroot:
                            continue
                    unknown.append((r, c))
            if unknown and not bad:
                R.broken('%s: cannot classify the condition `%s` under which "absent" is answered' % (fn.q, fn.expr(unknown[0][1]['id'])[:80]))
            R.check(not bad, 'G1-absent-only-when-untracked-or-unstored', fn.q + '#null-does-not-depend-on-per-entry-removal', (fn.loc(bad[0][1]['id']) if bad else fn.site),
                    '"absent" is answered depending on the removed mark of ONE (member, relation) entry (`%s`): entries are marked one by one as '
                    'relations complete, so a member shared by several relations becomes unretrievable for the later ones' % (
                        fn.expr(bad[0][1]['id'])[:70] if bad else ''))
            ok = bool(vals)
            for r in vals:
                gs = subtree_calls(fn, r['sub'], STASH + '::get')
                ok = ok and len(gs) == 1
                if ok:
                    o = origin(fn, gs[0]['args'][0]) if gs[0].get('args') else None
                    ok = o is not None and o.get('k') == 'member' and o.get('field') and o.get('q', '').startswith(M.elem + '::') and root_through_refs(fn, o['id']) == rroot
            R.check(ok, 'G1-absent-only-when-untracked-or-unstored', fn.q + '#returns-the-stashed-object-of-the-found-range', fn.site,
                    'the non-null answer must be the stash item of the object handle stored in the found range')
        per_fn(fb, R, M, fn0, body)
    # forwarding accessors
    for fn in [f for f in fb.functions if f.cls == MD and f.has_cfg and f.kind == 'method' and f.retC.strip().endswith('*')]:
        rets = [n for n in fn.all_nodes() if n.get('k') == 'return' and 'sub' in n]
        ok = len(rets) == 1
        if ok:
            c = fn.sn(rets[0]['sub'])
            hops = 0
            while c is not None and c.get('k') == 'cast' and hops < 4:
                c = fn.sn(c.get('sub'))
                hops += 1
            ok = c is not None and c.get('k') == 'call' and c.get('q') in {f.q for f in subj} and fn.root_var((c.get('args') or [None])[0]) == param_root(fn, 0)
        R.check(ok and every_path_passes(fn, [rets[0]['id']]) is None, 'G1-absent-only-when-untracked-or-unstored', fn.q + '#forwards-the-lookup-unconditionally', fn.site,
                '%s must return the base lookup of its id parameter, unconditionally' % fn.q)


# ================================================================================================ interest predicates

def _item_types(fb):
    en = fb.enum('osmium::item_type')
    return {int(e['value']): e['name'] for e in en['enumerators']} if en else {}


def _wanted_truth(fb, fn):
    """{item_type value: True/False/None} of one wanted_type() instantiation, for node/way/relation: every return reachable
    for that value is evaluated (template flags are constants in the instantiation)."""
    out = {}
    pd = fn.params[0]['d']
    for v in (1, 2, 3):
        vals = set()
        for r in _returns_for_value(fn, pd, v):
            vals.add(eval_bool(fn, r.get('sub'), lambda n, pd=pd, v=v: v if n.get('k') == 'var' and n.get('d') == pd else None) if 'sub' in r else None)
        out[v] = bool(list(vals)[0]) if len(vals) == 1 and None not in vals else None
    return out


def interest_rules(fb, R, M):
    """P1: wanted_type() accepts exactly the member types whose second-pass handler is enabled in the same instantiation
    (the pairing TNodes<->node, TWays<->way, TRelations<->relation derived from handle_X -> MembersDatabase<T> ->
    T::itemtype).  P2: an overriding new_relation() accepts a relation only under an existential test over its members
    whose predicate implies the manager's wanted-member predicate."""
    names = _item_types(fb)
    wts = [f for f in fb.functions if f.cls == RM and f.has_cfg and f.static and len(f.params) == 1 and S.plain_name(f.params[0]['tC']) == 'osmium::item_type'
           and S.strip_cvref(f.retC) == 'bool']
    if not wts or not names:
        R.broken('%s: no static bool f(item_type) (wanted_type) instantiated / item_type enum missing' % RM)
        return
    add_q = set(_one_q(M.add_fns))
    # enabled handlers per instantiation: {clsT: {item_type value}}
    enabled = {}
    handler_of = {}
    for f in fb.functions:
        if f.cls != RM or not f.has_cfg or f.is_lambda:
            continue
        for q in add_q:
            for c in calls(f, q):
                t = S.element_type(c.get('rclsT', '') or '')
                trec = fb.record(S.plain_name(t)) if t else None
                it = [s_ for s_ in (trec.statics if trec else []) if s_['name'] == 'itemtype' and 'cv' in s_]
                if not it:
                    continue
                v = int(it[0]['cv'])
                handler_of[v] = f.q
                enabled.setdefault(f.clsT, set())
                if live(f, c['id']):
                    enabled[f.clsT].add(v)
    truth_by_flags = {}
    for fn in wts:
        if fn.clsT not in enabled:
            continue
        truth = _wanted_truth(fb, fn)
        truth_by_flags[tuple(fn.cls_targs[1:4])] = truth
        for v in (1, 2, 3):
            key = '%s#accepts-%s-iff-its-second-pass-handler-is-enabled' % (fn.q, names.get(v, v))
            if truth[v] is None:
                R.broken('%s: cannot evaluate the result for item_type::%s' % (fn.full, names.get(v, v)))
                continue
            want = v in enabled[fn.clsT]
            R.check(truth[v] == want, 'P1-wanted-type-matches-enabled-handlers', key, fn.site,
                    'in %s members of type %s are %s by the first pass but %s %s: %s' % (
                        fn.clsT, names.get(v, v), 'tracked' if truth[v] else 'ignored', handler_of.get(v, 'their second-pass handler'),
                        'is enabled' if want else 'is disabled',
                        'the relation waits forever for members that are never delivered' if truth[v] else 'wanted members are never tracked'))
    # ---- P2
    derived = [r for r in fb.derived_from(RMB) if r.q != RM]
    subjects = [f for f in fb.functions if f.has_cfg and not f.is_lambda and f.name == 'new_relation' and f.cls in {r.q for r in derived}]
    for fn in subjects:
        key = fn.q + '#accepts-only-relations-with-a-wanted-member'
        if [g for g in fb.functions if g.cls == fn.cls and g.name == 'new_member' and g.has_cfg]:
            R.broken('%s overrides new_member as well: wanted-member predicate not derivable' % fn.cls)
            continue
        flags = None
        for r in fb.records_named(RM):
            if r.targs and r.targs[0] == fn.clsT:
                flags = tuple(r.targs[1:4])
        truth = truth_by_flags.get(flags) if flags else None
        if truth is None:
            # no wanted_type body for exactly these flags: any instantiation with the same flag triple will do
            R.broken('%s: no wanted_type() instantiation for the flags %s of its RelationsManager base' % (fn.clsT, flags))
            continue
        ok, msg, site = True, '', fn.site
        for r in [n for n in fn.all_nodes() if n.get('k') == 'return' and 'sub' in n and live(fn, n['id'])]:
            if fn.const_value(r['sub']) == 0:
                continue
            o = origin(fn, r['sub'])
            anys = [c for c in ([o] if o is not None else []) if c.get('k') == 'call' and c.get('q') == 'std::any_of']
            # `if (!any_of(..)) return false; ... return true;` : the accepting return is guarded by the existential test
            anys += [n for (n, s_) in guard_conds(fn, r['id']) if s_ and n.get('k') == 'call' and n.get('q') == 'std::any_of']
            if not anys:
                quant = [x for x in fn.subtree(r['sub']) if fn.nodes[x].get('q') in ('std::any_of', 'std::find_if', 'std::count_if', 'std::all_of', 'std::none_of')]
                if quant or (o is not None and o.get('k') == 'var'):
                    R.broken('%s: cannot classify the accepting return `%s`' % (fn.q, fn.expr(r['sub'])[:70]))
                    continue
                ok, site = False, fn.loc(r['id'])
                msg = 'the relation is accepted by `%s`, which does not require a member the manager wants: a relation without wanted members ' \
                      'is stored with a member count of 0, never completed (completion is triggered by a member arriving) and listed as incomplete forever' % fn.expr(r['sub'])[:60]
                continue
            c = anys[0]
            args = [a for a in c.get('args', []) if a is not None]
            b, e = fn.sn(args[0]), fn.sn(args[1])
            whole = b is not None and e is not None and b.get('q', '').rsplit('::', 1)[-1] in ('begin', 'cbegin') and e.get('q', '').rsplit('::', 1)[-1] in ('end', 'cend') \
                and all((origin(fn, x.get('recv')) or {}).get('q') == 'osmium::Relation::members' and fn.root_var((origin(fn, x.get('recv')) or {}).get('id')) == param_root(fn, 0) for x in (b, e))
            lam = None
            pred = origin(fn, args[2]) if len(args) > 2 else None
            for x in (fn.subtree(pred['id']) if pred is not None else []):
                if fn.nodes[x].get('k') == 'lambda':
                    lam = fb.lambda_fn(fn, fn.nodes[x])
            if not whole or lam is None:
                R.broken('%s: any_of is not over relation.members() with a lambda predicate' % fn.q)
                continue
            lrets = [n for n in lam.all_nodes() if n.get('k') == 'return' and 'sub' in n]
            for v in (1, 2, 3):
                def sym(n, v=v, lam=lam):
                    if n.get('k') == 'call' and n.get('q') == MEMBER + '::type' and lam.root_var(n.get('recv')) == param_root(lam, 0):
                        return v
                    return None
                vals = {eval_bool(lam, lr['sub'], sym) for lr in lrets}
                if None in vals or not vals:
                    R.broken('%s: member predicate of any_of depends on more than member.type()' % fn.q)
                    ok = None
                    break
                if any(vals) and not truth[v]:
                    ok, site = False, lam.site
                    msg = 'the existential test accepts a member of type %s, which this manager does not track (wanted_type is false for it)' % names.get(v, v)
            if ok is None:
                break
        if ok is not None:
            R.check(ok, 'P2-new-relation-requires-a-wanted-member', key, site, msg)


# ================================================================================================ output buffer growth / overload twins

BUFFER = 'osmium::memory::Buffer'


def buffer_growth_check(fb, R, owners, BUFFER=BUFFER):
    """B1, per owning class: every osmium::memory::Buffer the class constructs with an explicit growth mode uses ONE mode,
    and the mode `internal` (growth by chaining nested buffers) only occurs in a class that drains nested buffers
    (calls Buffer::get_last_nested / has_nested_buffers): otherwise everything written after the first internal growth
    sits in a nested buffer nobody reads."""
    en = fb.enum(BUFFER + '::auto_grow')
    names = {int(e['value']): e['name'] for e in en['enumerators']} if en else {}
    internal = next((v for v, n in names.items() if n == 'internal'), None)
    if internal is None:
        R.broken('enum %s::auto_grow / its enumerator `internal` not found' % BUFFER)
        return
    for cls in owners:
        fns = [f for f in fb.functions if f.has_cfg and (f.cls == cls or (f.is_lambda and f.q.startswith(cls + '::')))]
        modes = []
        for f in fns:
            for n in f.all_nodes():
                if n.get('k') != 'construct' or n.get('q') != BUFFER + '::(ctor)' or n.get('copymove') or n.get('elidable'):
                    continue
                for a in n.get('args', []):
                    an = f.sn(a) if a is not None else None
                    if an is not None and S.plain_name(an.get('t', '')) == BUFFER + '::auto_grow':
                        modes.append((f, n, f.const_value(a)))
        if not modes:
            continue
        unknown = [m for m in modes if m[2] is None]
        if unknown:
            R.broken('%s: growth mode of the Buffer constructed in %s is not a constant' % (cls, unknown[0][0].q))
            continue
        vals = sorted({m[2] for m in modes})
        maj = max(vals, key=lambda v: sum(1 for m in modes if m[2] == v))
        odd = [m for m in modes if m[2] != maj]
        R.check(len(vals) == 1, 'B1-output-buffer-growth-mode', cls + '#one-growth-mode-for-every-buffer-it-constructs',
                odd[0][0].loc(odd[0][1]['id']) if odd else fns[0].site,
                '%s constructs its buffers with auto_grow::%s, but the one in %s with auto_grow::%s' % (
                    cls, names.get(maj, maj), odd[0][0].q if odd else '', names.get(odd[0][2], '?') if odd else ''))
        drains = any(c.get('q') in (BUFFER + '::get_last_nested', BUFFER + '::has_nested_buffers') for f in fns for c in f.all_nodes() if c.get('k') == 'call')
        ints = [m for m in modes if m[2] == internal]
        R.check(not ints or drains, 'B1-output-buffer-growth-mode', cls + '#no-internal-growth-without-draining-nested-buffers',
                ints[0][0].loc(ints[0][1]['id']) if ints else fns[0].site,
                '%s creates a Buffer with auto_grow::internal but never calls get_last_nested()/has_nested_buffers(): after the first internal growth '
                'the data is chained in nested buffers that no consumer of this class ever sees' % (ints[0][0].q if ints else cls))


def buffer_rules(fb, R, M):
    owners = [MDC, MD, RDB, RMB, RM, STASH, 'osmium::memory::CallbackBuffer'] + sorted({r.q for r in fb.derived_from(RMB)} - {RM})
    buffer_growth_check(fb, R, owners)


TWIN_CLASSES = ['osmium::RelationMember', 'osmium::RelationMemberList', 'osmium::Relation', 'osmium::OSMObject', 'osmium::memory::Item',
                'osmium::memory::Collection', 'osmium::memory::CollectionIterator', STASH, MDC, MD, RDB, RH, RMB, RM,
                'osmium::memory::CallbackBuffer']


def _twin_norm(t):
    import re
    t = re.sub(r'\bconst\b', '', t)
    t = re.sub(r'\bc(r?)(begin|end)\b', r'\1\2', t)
    t = t.replace('const_iterator', 'iterator')
    return re.sub(r'\s+', '', t)


def _twin_resolve(fb, fn, depth=0):
    """A twin that only delegates (`return cbegin();`) stands for the function it delegates to."""
    rets = [n for n in fn.all_nodes() if n.get('k') == 'return' and 'sub' in n]
    cs = [n for n in fn.all_nodes() if n.get('k') == 'call']
    if len(rets) == 1 and len(cs) == 1 and depth < 3:
        c = fn.sn(rets[0]['sub'])
        while c is not None and c.get('k') == 'construct' and (c.get('elidable') or c.get('copymove')) and len(c.get('args', [])) == 1:
            c = fn.sn(c['args'][0])
        if c is not None and c.get('k') == 'call' and c.get('recv') is not None and (fn.sn(c['recv']) or {}).get('k') == 'this' and not c.get('args'):
            gs = [g for g in fb.by_usr.get(c.get('u'), []) if g.has_cfg]
            if gs:
                return _twin_resolve(fb, gs[0], depth + 1)
    return fn


def _twin_signature(fn):
    """CFG shape with the top-level statements and branch conditions as canonical text, const-ness normalised."""
    pm = fn.parent_map()
    order, seen, st = [], set(), [fn.entry]
    while st:
        b = st.pop()
        if b is None or b in seen:
            continue
        seen.add(b)
        order.append(b)
        st.extend(reversed(fn.blocks[b]['succs']))
    idx = {b: i for i, b in enumerate(order)}
    out = []
    for b in order:
        blk = fn.blocks[b]
        tops = [e for e in blk['elems'] if e not in pm and fn.nodes[e].get('k') != 'lit'
                and not (fn.nodes[e].get('k') == 'cast' and fn.nodes[e].get('toC') == 'void')]
        out.append((tuple(_twin_norm(fn.expr(e)) for e in tops), _twin_norm(fn.expr(blk['cond'])) if 'cond' in blk else None,
                    tuple(idx.get(s_) if s_ is not None else None for s_ in blk['succs'])))
    return out


def _twin_vocabulary(fn):
    """What a body is made of, independent of its arrangement and of local names: callees, fields, constants, operators."""
    v = set()
    for n in fn.all_nodes():
        k = n.get('k')
        if k == 'call' and 'q' in n:
            v.add(('call', _twin_norm(n['q'])))
        elif k == 'member' and n.get('field'):
            v.add(('field', n['q']))
        elif k == 'lit' and 'cv' in n and n.get('cv') not in ('0', '1'):
            v.add(('const', n['cv']))
        elif k == 'var' and n.get('vk') in ('enumconst', 'global', 'static_member'):
            v.add(('const', n.get('q', n.get('name'))))
        elif k in ('binop', 'assign') and n.get('op') not in ('&&', '||', ','):
            v.add(('op', n['op']))
        elif k == 'unop' and n.get('op') not in ('!',):
            v.add(('op', 'u' + n['op']))
    return v


def twin_check(fb, R, classes):
    """O1: the const and the non-const overload of one member function do the same thing modulo constness."""
    groups = {}
    for f in fb.functions:
        if f.cls in classes and f.has_cfg and not f.is_lambda and f.kind in ('method', 'operator') and not f.static:
            groups.setdefault((f.clsT or f.cls, f.name, tuple(_twin_norm(p['tC']) for p in f.params)), {}).setdefault(bool(f.const), []).append(f)
    for (clsT, name, _ps), g in sorted(groups.items()):
        if True not in g or False not in g:
            continue
        c, m = g[True][0], g[False][0]
        key = '%s#const-and-non-const-overload-agree' % c.q
        rc, rm = _twin_resolve(fb, c), _twin_resolve(fb, m)
        if _twin_signature(c) == _twin_signature(m) or _twin_signature(rc) == _twin_signature(rm):
            R.ok('O1-const-overload-twins-agree', key, m.site)
            continue
        if _twin_vocabulary(c) == _twin_vocabulary(m) or _twin_vocabulary(rc) == _twin_vocabulary(rm):
            R.ok('O1-const-overload-twins-agree', key, m.site, 'same ingredients, different arrangement (not compared further)')
            continue
        vc, vm = _twin_vocabulary(c), _twin_vocabulary(m)
        only_c = sorted('%s %s' % x for x in vc - vm)
        only_m = sorted('%s %s' % x for x in vm - vc)
        R.bad('O1-const-overload-twins-agree', key, m.site,
              'the const and the non-const overload of %s::%s differ: only the const one has {%s}; only the non-const one has {%s} -- code that '
              'reaches the object through a non-const path sees a different result than code that reaches it through a const path' % (
                  clsT, name, ', '.join(only_c)[:200], ', '.join(only_m)[:200]))


def twin_rules(fb, R, M):
    twin_check(fb, R, set(TWIN_CLASSES))


# ================================================================================================ driver

GROUPS = [sorted_rules, track_rules, add_rules, remove_rules, second_pass_rules, first_pass_rules, consumer_rules, dispatch_rules,
          listing_rules, counter_rules, lost_update_rules, stash_rules, retrieval_rules, interest_rules, buffer_rules, twin_rules]


def all_rules(fb, R):
    M = build_model(fb, R)
    if M is None:
        return
    for g in GROUPS:
        g(fb, R, M)


def run(ctx):
    R = ctx.R
    configs = ['ndebug14'] if ctx.tier == 'quick' else ['ndebug14', 'debug14', 'ndebug17', 'debug17']
    for cfg in configs:
        all_rules(ctx.facts(['relarea'], cfg), R)
    R.expect('S1-search-key-prefix-of-sort-key', 2)
    R.expect('S2-searched-container-is-sorted', 1)
    R.expect('S3-phase-partition', 6)
    R.expect('S4-search-key-immutable', 1)
    R.expect('S5-prepare-covers-every-members-db', 3)
    R.expect('S6-read-relations-prepares-after-apply', 2)
    if ctx.tier != 'quick':
        R.expect('S7-phase-flag', 6)
    R.expect('T1-track-pairs-insert-increment', 1)
    R.expect('T2-element-field-roles', 4)
    R.expect('A1-add-decrements-each-found-element', 2)
    R.expect('A2-functor-iff-complete', 1)
    R.expect('A3-object-stored-before-callback', 2)
    R.expect('A4-add-result', 1)
    R.expect('R1-release-only-last-reference', 5)
    R.expect('R2-remove-argument-roles', 1)
    R.expect('R3-remove-marks-exactly-one', 1)
    R.expect('R4-released-handle-not-kept', 1)
    R.expect('H1-callback-before-release', 7)
    R.expect('H2-completion-functor', 3)
    R.expect('H3-not-in-any-relation-iff-not-added', 3)
    R.expect('W1-track-xor-mark', 4)
    R.expect('W2-member-position-counter', 1)
    R.expect('W3-consumers-skip-zero-ref', 4)
    R.expect('D1-member-database-dispatch', 6)
    R.expect('I1-released-relation-not-listed', 4)
    R.expect('C1-member-counter-ops', 6)
    R.expect('P1-wanted-type-matches-enabled-handlers', 3)
    R.expect('P2-new-relation-requires-a-wanted-member', 2)
    R.expect('B1-output-buffer-growth-mode', 4)
    R.expect('O1-const-overload-twins-agree', 18)
    R.expect('L1-write-reaches-storage', 2)
    R.expect('I2-stash-index-maintained', 3)
    R.expect('G1-absent-only-when-untracked-or-unstored', 3)


def _selftest_container(fb, R):
    container_rules(fb, R, 'c11pos::Index', 'm_entries')
    container_rules(fb, R, 'c11pos::Unsorted', 'm_entries')


def _selftest_released_handle(fb, R):
    class _M(object):
        pass
    M = _M()
    M.find_usrs = {f.usr for f in fb.fns('c11pos3::Db::find')}
    for fn in fb.functions:
        if fn.cls == 'c11pos3::Db' and fn.has_cfg and calls(fn, 'c11pos3::Stash::remove_item'):
            fr = _found_range(fn, M)
            if fr is None:
                R.broken('positive example: no found range in %s' % fn.q)
                continue
            released_handle_check(fb, R, fn, ('var', fr[0], fr[1]), calls(fn, 'c11pos3::Stash::remove_item'), 'c11pos3::element',
                                  'c11pos3::handle_type::(ctor)', 'c11pos3::Db::m_elements', fn.q + '#no-element-keeps-the-released-handle')
    if R.instances.get(('R4-released-handle-not-kept', 'c11pos3::Db::remove_ok#no-element-keeps-the-released-handle')) is not None and \
            not R.instances[('R4-released-handle-not-kept', 'c11pos3::Db::remove_ok#no-element-keeps-the-released-handle')].ok:
        R.broken('positive example: the correct form remove_ok is reported')


def _selftest_twins_and_buffers(fb, R):
    twin_check(fb, R, {'c11pos4::Member', 'c11pos4::List'})
    buffer_growth_check(fb, R, ['c11pos4::Output', 'c11pos4::Drained'], BUFFER='c11pos4::Buffer')
    for k in (('O1-const-overload-twins-agree', 'c11pos4::List::begin#const-and-non-const-overload-agree'),
              ('B1-output-buffer-growth-mode', 'c11pos4::Drained#no-internal-growth-without-draining-nested-buffers')):
        if k not in R.instances or not R.instances[k].ok:
            R.broken('positive example: the correct form %s is missing or reported' % k[1])


def _selftest_lost_update(fb, R):
    lost_update_check(fb, R, [f for f in fb.functions if f.has_cfg])


SELFTESTS = [
    ('L1-write-reaches-storage', 'c11_lost_update.cpp', _selftest_lost_update),
    ('O1-const-overload-twins-agree', 'c11_twins_buffers.cpp', _selftest_twins_and_buffers),
    ('B1-output-buffer-growth-mode', 'c11_twins_buffers.cpp', _selftest_twins_and_buffers),
    ('R4-released-handle-not-kept', 'c11_released_handle.cpp', _selftest_released_handle),
    ('S1-search-key-prefix-of-sort-key', 'c11_sorted.cpp', _selftest_container),
    ('S2-searched-container-is-sorted', 'c11_sorted.cpp', _selftest_container),
    ('S3-phase-partition', 'c11_sorted.cpp', _selftest_container),
    ('S4-search-key-immutable', 'c11_sorted.cpp', _selftest_container),
]
