"""C17 -- geometry exports encode exactly the object's coordinates (PAIR + ORDERTYPE + sibling agreement).

Everything is decided from the fact base (resolved callees, CFG paths, dominance, constants); no libosmium code is run.
Instances are keyed by what the property REQUIRES (the protocol level, the (unique, direction) combination, the encoder
method), so a construct that was deleted shows up as a violated instance, not as a missing one.

GeometryFactory<TGeomImpl, TProjection> (every instantiation of drivers/geom.cpp: 3 back ends x 2 projections x 2 iterator kinds)
 E1-count-equals-emits       fill_linestring / fill_linestring_unique / fill_polygon / fill_polygon_unique: on every CFG
        path the number of `*_add_location` calls equals the number of increments of the returned counter (bounded
        integer-delta dataflow, must be exactly {0} at every return); the counter starts at the constant 0 and is only
        ever incremented.
 E2-emits-current-element    in those four and in add_points: the emitted value is m_projection(L) where L is the current
        element's location (`it->location()` directly, or a local whose only reaching definition is `local = it->location()`
        in the same iteration), and the back-end method is the one of the geometry kind being built.
 E3-skip-only-consecutive-duplicates   "all" mode: no path through one loop iteration avoids the emit.  "unique" mode
        (`*_unique`, add_points): the only edge that skips the emit is the equal-edge of a comparison between the current
        location and the local that holds the location emitted last; that local is written nowhere else in the loop.
 E4-first-element-never-skipped   the duplicate test must not be able to drop the FIRST element: a sentinel that is a
        default-constructed (= undefined) or otherwise constant osmium::Location compares equal to a first element with that
        location, unless the deciding condition has a further operand / the emit can be reached without the comparison
        (`first || last != cur`).   FIRES on today's tree (3 instances `#sentinel`, see KNOWN); a sentinel built from other
        constants is reported under the separate key `#sentinel-constant`.
 W1-wrapper-forwards         linestring_start/finish, polygon_start/finish call the same-named back-end method exactly
        once on every path, pass their parameter on and return its result.
 T1-create-protocol          create_linestring / create_polygon / create_multipolygon drive the back end through the
        protocol automaton  start (add_location)* finish  resp.  multipolygon_start ( polygon_start outer_ring_start add*
        outer_ring_finish ( inner_ring_start add* inner_ring_finish )* polygon_finish )+ multipolygon_finish  on every normal
        CFG path (abstract interpretation of the CFG over protocol state x {0, >=1} values of the local counters, so the
        `num_polygons > 0` / `num_rings == 0` branches are followed exactly); the count handed to `*_finish` is the value
        returned by the fill call of that path; the returned object is the result of the finish call; a geometry_error is
        thrown only while no ring has been emitted.
 D1-direction-and-uniqueness-dispatch   for each of the 8 required combinations {linestring, polygon} x {unique, all} x
        {forward, backward} there is a call site, reached exactly under that combination of the `un` / `dir` parameters,
        that calls the `_unique` variant iff unique and passes (c)begin/(c)end resp. (c)rbegin/(c)rend -- in that order --
        of the SAME list.
 D2-reverse-iterators        NodeRefList::crbegin wraps cend(), crend wraps cbegin().
 G1-degenerate-threshold     the finish call is reached iff counter >= 2 (linestring) / >= 4 (polygon) -- decided for all
        2^64 counter values by the ORDERTYPE engine on the guard conditions -- and the failing edge throws a
        geometry_error; create_multipolygon throws geometry_error iff its ring counter == 0.
 P1-checked-accessors        IdentityProjection / MercatorProjection::operator() and Coordinates(Location) read the location
        only through Location::lon() / lat() (x from lon, y from lat); lon()/lat() return only when valid() held and throw
        invalid_location otherwise.
Back ends
 X1-axis-order               every WKB encoder of a Coordinates pushes exactly two doubles, .x then .y of its parameter;
        Coordinates::append_to_string writes x, infix, y.
 B1-backpatch-offset-pairing for each of the 6 WKB levels (linestring, polygon, multipolygon, multipolygon_polygon,
        multipolygon_outer_ring, multipolygon_inner_ring) the start method stores the position of a 4-byte zero count
        placeholder in a member and the matching finish passes exactly that member to set_size, once, on every path.
 B2-backpatch-counter        the count passed is the finish parameter (linestring, polygon) or a member that the level's
        start resets to 0, that each child event increments exactly once, and that nothing else writes.
 B3-nested-slots-distinct    offset (and counter) members of levels that are open at the same time are distinct.
 B4-set_size-patches-uint32  set_size range-checks against UINT32_MAX (throws geometry_error) and copies sizeof(uint32_t)
        bytes of the narrowed value to &m_data[offset].
 B5-header-layout            header(): byte order, type (| SRID flag + srid for EWKB) are pushed before the returned offset
        is taken, the offset is str.size(), and the only push after it is the uint32 zero under `add_length`; every
        header(..., true) result is stored or patched; geometry type constants follow the OGC table.
 B6-start-resets-buffer      the three top level start methods of every back end reset the accumulation buffer (clear /
        assignment) before appending (an exception between start and finish leaves stale content behind).
 B7-patch-before-handover    WKB finish: set_size precedes the swap that hands m_data over; hex output iff out_type::hex.
 S1-text-nesting-grammar     WKT and GeoJSON: the string transformers of all 13 back-end methods are extracted from the
        CFG (assign / append literal / append_to_string / back() = c / swap / return) and composed along every protocol
        sequence up to 2 polygons x 2 inner rings x 2 points; the resulting token string must parse, with an independent
        reference grammar, into exactly the nested structure that was fed in (brackets balanced, one separator between
        siblings, none dangling, the right geometry keyword, precision taken from m_precision).
 H1-hex-encoding             convert_to_hex appends lookup[(c >> 4) & 15] then lookup[c & 15] for all 256 byte values and
        the lookup table is "0123456789ABCDEF".
 N1-snprintf-length-bounded  double2string: the value returned by snprintf is used as index / count only where a test
        against the buffer size dominates the use.   FIRES on today's tree under NDEBUG (see KNOWN).
 N2-zero-trim-needs-fraction double2string: the loop that strips trailing '0' characters runs only under a condition that the text has a
        fractional part (mentions the precision or a '.').   FIRES on today's tree (see KNOWN).

Not decided (left to other technique families): numeric exactness of snprintf("%.*f") and of the zero trimming as values;
that an independent WKB/WKT/GeoJSON decoder of a real library accepts the bytes (the reference grammar in this file is the
frozen OGC / RFC 7946 shape); agreement of the three encodings as values; projection accuracy (C18).
"""
import itertools

from .. import ordertype as OT
from ..c17_util import (POS, TOP, abs_cond, address_taken, char_of, decl_of, delta_states, exit_t, is_abort_block, is_this, local_or_param,
                        loop_header_block, lvalue_key, normal_paths, param_index, path_elems, peel, pn, recv_field, short, string_of,
                        this_field, writes)
from ..flow import describe_path, guards_of, path_search

EXPLANATION = (
    'Decided: count/emit agreement of the fill functions on every CFG path; emitted value = projection of the current element; '
    'duplicate suppression skips only consecutive equal locations; protocol automaton of create_linestring/polygon/multipolygon on '
    'every normal path incl. exact handling of the counter branches; (unique, direction) dispatch table; degenerate thresholds '
    '(<2, <4, ==0 -> geometry_error) for all counter values via order types; checked lon()/lat() accessors in both projections; '
    'WKB back-patching (offset member pairing, counters, nested slots, header layout, set_size), buffer reset, axis order, hex '
    'nibbles; WKT/GeoJSON nesting grammar by composing the extracted string transformers over all protocol sequences up to '
    '2x2x2; snprintf length use. NOT decided: numeric exactness of number formatting as values, acceptance by third-party '
    'decoders, value-level agreement of the three encodings, projection accuracy.')
ASSUMPTIONS = [
    'an osmium::Area lists each inner ring after its outer ring (builder invariant; the property quantifies over such areas)',
    'std::string append / back / swap / clear / size and std::copy_n behave per the standard',
    'WKT / GeoJSON / WKB shapes (OGC 99-049, RFC 7946) are the frozen reference tables in this module',
    'the instantiations in drivers/geom.cpp (WKB, WKT, GeoJSON x Identity, Mercator x pointer, reverse iterator) cover the library\'s own uses',
]

# Genuine defects of the unchanged tree found by these rules: (rule, key, explanation).  Reported with R.bad as usual; each was
# replayed once against the real headers in a scratch directory (since removed) after the rule had predicted it.
KNOWN = [
    ('E4-first-element-never-skipped', 'osmium::geom::GeometryFactory::fill_linestring_unique#sentinel',
     'The duplicate filter compares every element with `last_location`, which starts as a default-constructed (undefined) Location. '
     'A way whose FIRST node has an undefined location followed by >= 2 valid distinct ones, e.g. locations [undefined, (1,1), (2,2)], '
     'gives create_linestring(way, use_nodes::unique) == LINESTRING(1 1,2 2) without any error, while use_nodes::all (and an undefined '
     'location at any later position) throws osmium::invalid_location.  Property: undefined locations at any position are rejected.'),
    ('E4-first-element-never-skipped', 'osmium::geom::GeometryFactory::fill_polygon_unique#sentinel',
     'Same sentinel: create_polygon(way) with locations [undefined, A, B, C, A] returns POLYGON((A,B,C,A)) instead of throwing.'),
    ('E4-first-element-never-skipped', 'osmium::geom::GeometryFactory::add_points#sentinel',
     'Same sentinel in the ring loop of create_multipolygon: a ring whose first node reference has an undefined location is exported '
     'without that node and without an error.'),
    ('N1-snprintf-length-bounded', 'osmium::double2string#snprintf-result',
     'double2string formats into char buffer[20] and uses the snprintf result `len` as index and copy count; the only test is an '
     'assert.  With NDEBUG, double2string(out, -20037508.34, 10) (a Web-Mercator x at lon -180 with precision 10, i.e. '
     'WKTFactory<MercatorProjection>{10}) needs 20 characters + NUL: snprintf returns 20, the text is truncated, buffer[19] is the NUL '
     'and 20 bytes including the NUL are appended ("-20037508.340000000\\0" instead of "-20037508.34").  Precision 17 returns 27: '
     'buffer[26] and copy_n(buffer, 27) read past the 20 byte stack buffer.  Property: numbers exact for every magnitude a projection '
     'can produce at precision 0..17.'),
    ('N2-zero-trim-needs-fraction', 'osmium::double2string#zero-trim-only-after-decimal-point',
     '`while (buffer[len - 1] == \'0\') --len;` runs whether or not the text contains a decimal point.  With precision 0 snprintf("%.0f") '
     'writes no \'.\', so the zeros stripped are integer digits: double2string(s, 10.0, 0) == "1", 100.0 -> "1", 120.0 -> "12"; '
     'WKTFactory<>{0}.create_point(Location{10.0, 20.0}) == "POINT(1 2)"; for 0.0 the loop reads buffer[-1].  Property: numbers exact at '
     'precision 0..17.'),
]

GF = 'osmium::geom::GeometryFactory'
LOC = 'osmium::Location'
NODEREF_LOCATION = 'osmium::NodeRef::location'
GEOM_ERROR = 'osmium::geometry_error'
FILLS = {
    # function -> (unique?, back-end emit method, geometry kind)
    'fill_linestring': (False, 'linestring_add_location', 'linestring'),
    'fill_linestring_unique': (True, 'linestring_add_location', 'linestring'),
    'fill_polygon': (False, 'polygon_add_location', 'polygon'),
    'fill_polygon_unique': (True, 'polygon_add_location', 'polygon'),
    'add_points': (True, 'multipolygon_add_location', 'multipolygon'),
}


# ================================================================================================ factory helpers

class Fac:
    """Field roles of one GeometryFactory instantiation: which member is the back end, which the projection."""

    def __init__(self, fb, fn):
        self.ok = False
        targs = fn.cls_targs or []
        if len(targs) < 2:
            return
        self.impl_t, self.proj_t = targs[0], targs[1]
        rec = next((r for r in fb.records_named(GF) if r.full == fn.clsT), None)
        if rec is None:
            return
        self.impl = next((f['name'] for f in rec.fields if f['tC'] == self.impl_t), None)
        self.proj = next((f['name'] for f in rec.fields if f['tC'] == self.proj_t), None)
        self.ok = self.impl is not None and self.proj is not None


def impl_call(fn, F, n):
    """back-end method name if node n is a call on this->m_impl."""
    if n.get('k') == 'call' and 'q' in n and recv_field(fn, n) == F.impl:
        return short(n['q'])
    return None


def self_call(fn, n):
    """method name if node n is a call of another GeometryFactory member on *this."""
    if n.get('k') == 'call' and n.get('q', '').startswith(GF + '::') and n.get('recv') is not None and is_this(fn, n['recv']):
        return short(n['q'])
    return None


def proj_call_arg(fn, F, nid):
    """If the peeled expression is this->m_projection(x): the id of x, else None."""
    n = pn(fn, nid)
    if n is not None and n.get('k') == 'call' and n.get('op') == '()' and recv_field(fn, n) == F.proj and len(n.get('args', [])) == 1:
        return n['args'][0]
    return None


def gf_methods(fb, name):
    return [f for f in fb.fns(GF + '::' + name) if f.has_cfg and not f.is_lambda]


# ================================================================================================ fill loops

class FillShape:
    """Structural reading of one fill_* / add_points body."""

    def __init__(self, fb, fn, F):
        self.fn = fn
        self.err = None
        self.emits = [n for n in fn.all_nodes() if (impl_call(fn, F, n) or '').endswith('_add_location')]
        self.elem_roots = set()       # decl ids whose ->location() is "the current element's location"
        self.step_nodes = []          # iterator increments
        self.loop = None
        if len(fn.loops) != 1:
            self.err = 'expected exactly one loop, found %d' % len(fn.loops)
            return
        self.loop = fn.loops[0]
        self.header = loop_header_block(fn, self.loop)
        if self.header is None:
            self.err = 'cannot find the loop condition block'
            return
        if self.loop['cls'] == 'CXXForRangeStmt':
            # element variable: declared from *__begin; the range must be the function's (only) list parameter
            begin = rng = None
            for n in fn.all_nodes():
                if n.get('k') == 'decl':
                    for v in n['vars']:
                        if v['name'].startswith('__begin'):
                            begin = v['d']
                        if v['name'].startswith('__range'):
                            rng = v
            if begin is None or rng is None or local_or_param(fn, rng.get('init')) != (fn.params[0]['d'] if fn.params else None):
                self.err = 'range-for does not iterate over the list parameter'
                return
            for n in fn.all_nodes():
                if n.get('k') == 'decl' and fn.in_range(n['id'], self.loop['b'], self.loop['e']):
                    for v in n['vars']:
                        i = pn(fn, v.get('init'))
                        if i is not None and ((i.get('k') == 'unop' and i.get('op') == '*') or (i.get('k') == 'call' and i.get('op') == '*')):
                            src = i.get('sub', i.get('recv'))
                            if local_or_param(fn, src) == begin:
                                self.elem_roots.add(v['d'])
            self.step_nodes = [w[0] for w in writes(fn) if w[1] == ('var', begin) and w[2] == 'inc']
        else:
            if len(fn.params) != 2:
                self.err = 'expected (it, end) parameters'
                return
            it, end = fn.params[0]['d'], fn.params[1]['d']
            c = pn(fn, fn.blocks[self.header]['cond'])
            ops = []
            if c is not None and c.get('k') == 'binop':
                ops = [c['lhs'], c['rhs']]
            elif c is not None and c.get('k') == 'call' and c.get('op') == '!=':
                ops = list(c.get('args', []))
                if c.get('recv') is not None:
                    ops = [c['recv']] + ops
            if c is None or c.get('op') != '!=' or sorted(local_or_param(fn, o) or -1 for o in ops) != sorted([it, end]):
                self.err = 'loop condition is not `it != end` over the two parameters'
                return
            self.elem_roots.add(it)
            ws = [w for w in writes(fn) if w[1] == ('var', it)]
            if any(w[2] != 'inc' for w in ws) or any(w[1] == ('var', end) for w in writes(fn)):
                self.err = 'iterator parameters are modified other than by ++it'
                return
            self.step_nodes = [w[0] for w in ws]
        if not self.step_nodes:
            self.err = 'no iterator increment found'
        self.step_ids = {n['id'] for n in self.step_nodes}
        self.body_entry = fn.blocks[self.header]['succs'][0]

    def cur_loc(self, nid, _depth=0):
        """peeled expression is <current element>.location(), or a loop-local constant copy of it"""
        fn = self.fn
        n = pn(fn, nid)
        if n is None:
            return False
        if n.get('k') == 'var' and n.get('vk') == 'local' and _depth < 3:
            dn, dv = decl_of(fn, n['d'])
            if dv is not None and isinstance(dv.get('init'), int) and self.loop is not None and fn.in_range(dn['id'], self.loop['b'], self.loop['e']) \
                    and not any(w[1] == ('var', n['d']) for w in writes(fn)) and not address_taken(fn, ('var', n['d'])):
                return self.cur_loc(dv['init'], _depth + 1)
            return False
        if n.get('k') != 'call' or n.get('q') != NODEREF_LOCATION or n.get('recv') is None:
            return False
        rv = fn.root_var(n['recv'])
        return rv is not None and rv[0] == 'var' and rv[1] in self.elem_roots


def fill_rules(fb, R):
    for name, (unique, emit_name, _kind) in FILLS.items():
        fns = gf_methods(fb, name)
        q = GF + '::' + name
        if not fns:
            R.broken('%s: no instantiated body found' % q)
            continue
        for fn in fns:
            F = Fac(fb, fn)
            if not F.ok:
                R.broken('%s: cannot identify back-end / projection members of %s' % (q, fn.clsT))
                continue
            S = FillShape(fb, fn, F)
            if S.err:
                R.broken('%s: %s' % (fn.full, S.err))
                continue
            _fill_one(fb, R, fn, F, S, name, unique, emit_name, q)


def _fill_one(fb, R, fn, F, S, name, unique, emit_name, q):
    emits = S.emits
    emit_ids = {n['id'] for n in emits}
    site = fn.site

    # ---------------------------------------------------------------- E1 count == emits (functions that return the count)
    if name != 'add_points':
        rets = [n for n in fn.all_nodes() if n.get('k') == 'return']
        cds = {local_or_param(fn, r.get('sub')) for r in rets} if rets else {None}
        key = q + '#count==emits'
        if len(cds) != 1 or None in cds:
            R.bad('E1-count-equals-emits', key, site, 'the function does not return one local counter variable on every path')
        else:
            cd = cds.pop()
            dn, dv = decl_of(fn, cd)
            ws = [w for w in writes(fn) if w[1] == ('var', cd)]
            okinit = dv is not None and isinstance(dv.get('init'), int) and fn.const_value(dv['init']) == 0
            okw = all(w[2] == 'inc' or (w[2] == 'compound' and w[0].get('op') == '+=' and fn.const_value(w[3]) == 1) for w in ws) \
                and not address_taken(fn, ('var', cd))
            incs = {w[0]['id'] for w in ws}
            if not okinit or not okw:
                R.bad('E1-count-equals-emits', key, site,
                      'the returned counter %s must start at the constant 0 and only ever be incremented by one' % (dv['name'] if dv else '?'))
            else:
                st = delta_states(fn, lambda n: (1 if n['id'] in emit_ids else 0) - (1 if n['id'] in incs else 0))
                bad = None
                for r in rets:
                    s = st.get(r['id'])
                    if s is None or s != frozenset([0]):
                        bad = (r, s)
                if bad is None and not emits:
                    bad = (rets[0], 'no emit')
                R.check(bad is None, 'E1-count-equals-emits', key, site if bad is None else fn.loc(bad[0]['id']),
                        'on some path the number of %s calls differs from the number of increments of the returned counter %s '
                        '(emits - increments can be %s at the return; >=3 means unbounded): the count handed to %s_finish would not match the '
                        'encoded points' % (emit_name, dv['name'], sorted(bad[1]) if bad and not isinstance(bad[1], str) and bad[1] else bad and bad[1],
                                            FILLS[name][2]),
                        detail='%d emit site(s), %d increment site(s), delta {0} at every return' % (len(emits), len(incs)))

    # ---------------------------------------------------------------- E2 emitted value is the current element, right back-end method
    key = q + '#emit-arg'
    if not emits:
        R.bad('E2-emits-current-element', key, site, 'no call of the back end\'s %s found: nothing is emitted' % emit_name)
    sentinel = None      # decl id of the "last location" local, when the emit goes through one
    for e in emits:
        msg = None
        if short(e['q']) != emit_name:
            msg = '%s emits through %s, required is %s' % (name, short(e['q']), emit_name)
        x = proj_call_arg(fn, F, e['args'][0]) if len(e.get('args', [])) == 1 else None
        if msg is None and x is None:
            msg = 'the emitted value is not %s(<location>) of this factory' % F.proj
        if msg is None and not S.cur_loc(x):
            d = local_or_param(fn, x)
            dn, dv = decl_of(fn, d) if d is not None else (None, None)
            if dv is None:
                msg = 'the projected value is neither the current element\'s location() nor a local holding it'
            else:
                defs = [w for w in writes(fn) if w[1] == ('var', d)]
                good = [w for w in defs if w[2] in ('opassign', 'assign') and S.cur_loc(w[3])]
                if len(defs) != len(good) or not good or address_taken(fn, ('var', d)):
                    msg = 'local %s is written by something other than `%s = <current element>.location()`' % (dv['name'], dv['name'])
                elif not any(fn.elem_dominates(w[0]['id'], e['id']) and fn.in_range(w[0]['id'], S.loop['b'], S.loop['e'])
                             and S.header in fn.dominators().get(fn.positions()[w[0]['id']][0], ()) for w in good):
                    msg = ('the emit projects local %s, but no assignment `%s = <current element>.location()` of the same iteration dominates it '
                           '(the previous element would be emitted)' % (dv['name'], dv['name']))
                else:
                    sentinel = d
        R.check(msg is None, 'E2-emits-current-element', key, fn.loc(e['id']), msg or '',
                detail='%s(%s(%s))' % (short(e['q']), F.proj, fn.expr(x) if x is not None else '?'))

    # ---------------------------------------------------------------- E3 which elements may be skipped
    key = q + '#skip-guard'
    dups = []  # (block id, index of the edge taken when the two locations are EQUAL, cond id, decl of the compared local)
    if unique:
        for blk in fn.blocks.values():
            c = blk.get('cond')
            if c is None or len(blk['succs']) != 2 or blk.get('termcls') == 'SwitchStmt' or not fn.in_range(c, S.loop['b'], S.loop['e']):
                continue
            # the test this block itself evaluates: for `a || b` / `a && b` the earlier operands have blocks of their own and the
            # block that carries the statement's terminator evaluates the last operand
            cn = pn(fn, c)
            neg = False
            while cn is not None:
                if cn.get('k') == 'unop' and cn.get('op') == '!':
                    neg = not neg
                    cn = pn(fn, cn['sub'])
                elif cn.get('k') == 'binop' and cn.get('op') in ('&&', '||') and blk.get('termcls') != 'BinaryOperator':
                    cn = pn(fn, cn['rhs'])
                else:
                    break
            if cn is None or cn.get('k') != 'call' or cn.get('op') not in ('!=', '==') or short(cn.get('q', '')) not in ('operator!=', 'operator=='):
                continue
            ops = list(cn.get('args', []))
            if cn.get('recv') is not None:
                ops = [cn['recv']] + ops
            if len(ops) != 2 or LOC not in (fn.nodes.get(peel(fn, ops[0]), {}).get('t') or ''):
                continue
            x, y = ops
            lx, ly = local_or_param(fn, x), local_or_param(fn, y)
            L = lx if (lx is not None and not S.cur_loc(x) and S.cur_loc(y)) else (ly if (ly is not None and not S.cur_loc(y) and S.cur_loc(x)) else None)
            if L is None:
                continue
            eq_edge = 1 if cn['op'] == '!=' else 0
            if neg:
                eq_edge = 1 - eq_edge
            dups.append((blk['id'], eq_edge, c, L))
        if not dups:
            R.bad('E3-skip-only-consecutive-duplicates', key, site,
                  '%s must drop consecutive duplicates: the loop has no comparison of the current location with the location emitted last' % name)
        elif len({d[3] for d in dups}) != 1:
            R.broken('%s: several duplicate tests against different locals' % fn.full)
            dups = []
        else:
            # the local must hold the location emitted last: all its writes are `L = <current>.location()` inside the loop and on
            # every path the number of such writes equals the number of emits when the iteration ends
            L = dups[0][3]
            lw = [w for w in writes(fn) if w[1] == ('var', L)]
            okw = bool(lw) and all(w[2] in ('opassign', 'assign') and S.cur_loc(w[3]) and fn.in_range(w[0]['id'], S.loop['b'], S.loop['e']) for w in lw) \
                and not address_taken(fn, ('var', L))
            if okw:
                lids = {w[0]['id'] for w in lw}
                st = delta_states(fn, lambda n: (1 if n['id'] in emit_ids else 0) - (1 if n['id'] in lids else 0))
                ends = list(S.step_ids) + [n['id'] for n in fn.all_nodes() if n.get('k') == 'return']
                okw = all(st.get(e) == frozenset([0]) for e in ends if e in st)
            R.check(okw, 'E3-skip-only-consecutive-duplicates', q + '#compares-with-last-emitted', fn.loc(dups[0][2]),
                    'the duplicate test compares the current location with a local that does not hold exactly the location emitted last '
                    '(it must be assigned the current location on the paths that emit, and only there)')
            sentinel = L if okw else None
    dup_edges = {(d[0], d[1]) for d in dups}
    dup_blocks = {d[0] for d in dups}

    def edge_ok(b, idx, s):
        return (b, idx) not in dup_edges
    w = path_search(fn, S.body_entry, lambda x: (not isinstance(x, tuple)) and x in S.step_ids, lambda x: x in emit_ids, edge_ok, from_block_start=True)
    R.check(w is None, 'E3-skip-only-consecutive-duplicates', key, site,
            'an element can pass through the loop body without being emitted%s: %s'
            % (' although it differs from the previous one' if unique else ' (mode "all" must emit every node)', describe_path(fn, w)),
            detail='unique' if unique else 'all')
    # one step per iteration, no second emit per iteration
    for e in emits:
        w2 = path_search(fn, e['id'], lambda x: (not isinstance(x, tuple)) and x in emit_ids, lambda x: x in S.step_ids)
        R.check(w2 is None, 'E3-skip-only-consecutive-duplicates', q + '#one-emit-per-element', fn.loc(e['id']),
                'an element can be emitted twice within one iteration: %s' % describe_path(fn, w2))

    # ---------------------------------------------------------------- E4 first element
    if unique and dups and sentinel is not None:
        dn, dv = decl_of(fn, sentinel)
        init = pn(fn, dv.get('init')) if dv is not None and isinstance(dv.get('init'), int) else None
        # a sentinel built from nothing / from constants is itself a possible element value
        is_const_loc = init is not None and init.get('k') == 'construct' and init.get('q') == LOC + '::(ctor)' and \
            all((pn(fn, a) or {}).get('k') == 'lit' or 'cv' in (pn(fn, a) or {}) for a in init.get('args', []))
        # a first-element path: the emit can be reached in an iteration without going through the duplicate test at all
        # (`if (first || last != cur)`, `if (num_points == 0 || ...)`)
        bypass = None
        if S.body_entry not in dup_blocks:
            bypass = path_search(fn, S.body_entry, lambda x: (not isinstance(x, tuple)) and x in emit_ids, lambda x: False,
                                 lambda b, idx, s_: s_ not in dup_blocks, from_block_start=True)
        # ... or the comparison is only one operand of the deciding condition (`first || last != cur`, `!first && last == cur`)
        compound = False
        for d_ in dups:
            x = pn(fn, fn.blocks[d_[0]].get('cond'))
            while x is not None and x.get('k') == 'unop' and x.get('op') == '!':
                x = pn(fn, x['sub'])
            if x is not None and x.get('k') == 'binop' and x.get('op') in ('&&', '||'):
                compound = True
        is_default = is_const_loc and not init.get('args')
        R.check(not is_const_loc or bypass is not None or compound, 'E4-first-element-never-skipped',
                q + ('#sentinel' if (is_default or not is_const_loc) else '#sentinel-constant'), fn.loc(dn['id']) if dn else site,
                'the duplicate filter starts from a constant osmium::Location (%s; default = undefined) and every element, including the first, '
                'is compared with it: a first element with exactly that location is dropped silently -- for the undefined location instead of '
                'raising invalid_location (e.g. locations [undefined, A, B] yield the geometry A,B)'
                % (fn.expr(dv['init']) if dv is not None and isinstance(dv.get('init'), int) else '?'))


# ================================================================================================ wrappers

WRAPPERS = ['linestring_start', 'linestring_finish', 'polygon_start', 'polygon_finish']


def wrapper_rules(fb, R):
    for name in WRAPPERS:
        q = GF + '::' + name
        fns = gf_methods(fb, name)
        if not fns:
            R.bad('W1-wrapper-forwards', q + '#forwards', '%s' % q, 'wrapper %s not found / not instantiated' % q)
            continue
        for fn in fns:
            F = Fac(fb, fn)
            if not F.ok:
                R.broken('%s: cannot identify back-end member' % fn.full)
                continue
            calls = [n for n in fn.all_nodes() if impl_call(fn, F, n)]
            good = [n for n in calls if impl_call(fn, F, n) == name]
            ids = {n['id'] for n in good}
            ok = len(calls) == 1 and len(good) == 1
            msg = 'must call %s.%s exactly once and nothing else on the back end' % (F.impl, name)
            if ok:
                w = path_search(fn, fn.entry, exit_t, lambda e: e in ids, from_block_start=True)
                ok = w is None
            if ok:
                c = good[0]
                want = [p['d'] for p in fn.params]
                got = [local_or_param(fn, a) for a in c.get('args', [])]
                if want != got:
                    ok, msg = False, 'must pass its parameter(s) on unchanged'
            if ok and fn.retC != 'void':
                rets = [n for n in fn.all_nodes() if n.get('k') == 'return']
                if not rets or any(peel(fn, r.get('sub')) != good[0]['id'] for r in rets):
                    ok, msg = False, 'must return the result of the back-end call'
            R.check(ok, 'W1-wrapper-forwards', q + '#forwards', fn.site, '%s %s' % (q, msg))


# ================================================================================================ protocol automata

LINE_AUTOMATON = {
    # state -> {event: next state}
    'S0': {'start': 'A0'},
    'A0': {'fill': 'A1'},
    'A1': {'finish': 'END'},
    'END': {},
}
MP_AUTOMATON = {
    'S0': {'multipolygon_start': 'M0'},
    'M0': {'multipolygon_polygon_start': 'P0'},
    'P0': {'multipolygon_outer_ring_start': 'RO'},
    'RO': {'add': 'RO', 'multipolygon_outer_ring_finish': 'P1'},
    'P1': {'multipolygon_inner_ring_start': 'RI', 'multipolygon_polygon_finish': 'M1'},
    'RI': {'add': 'RI', 'multipolygon_inner_ring_finish': 'P1'},
    'M1': {'multipolygon_polygon_start': 'P0', 'multipolygon_finish': 'END'},
    'END': {},
}
MP_NO_RING_STATES = ('S0', 'M0')
MP_STATE_TEXT = {'S0': 'nothing started', 'M0': 'multipolygon started, no polygon yet', 'P0': 'polygon open, no ring yet',
                 'RO': 'outer ring open', 'RI': 'inner ring open', 'P1': 'polygon open with closed ring(s)',
                 'M1': 'polygon(s) closed, none open', 'END': 'multipolygon finished'}


class _Violation(Exception):
    def __init__(self, msg, nid):
        Exception.__init__(self, msg)
        self.nid = nid


def _explore(fn, init, on_elem, counters_of):
    """Abstract interpretation of the CFG from the entry block.  State = (protocol state, frozenset((decl, absval)), extra).
    on_elem(state, node) -> state | None (path dropped by a domain assumption); raises _Violation.
    Branches whose condition is decided by the abstract counter values are followed exactly."""
    seen = set()
    work = [(fn.entry, init)]
    ends = []
    while work:
        b, st = work.pop()
        if (b, st) in seen:
            continue
        seen.add((b, st))
        blk = fn.blocks[b]
        dead = False
        for e in blk['elems']:
            st = on_elem(st, fn.nodes[e])
            if st is None:
                dead = True
                break
            if st == 'stop':
                dead = True
                break
        if dead:
            continue
        if b == fn.exit:
            continue
        succs = blk['succs']
        if is_abort_block(fn, b):
            continue
        if 'cond' in blk and len(succs) == 2 and blk.get('termcls') != 'SwitchStmt':
            r = abs_cond(fn, blk['cond'], counters_of(st))
            idxs = [0, 1] if r is None else ([0] if r else [1])
        else:
            idxs = range(len(succs))
        for i in idxs:
            if succs[i] is not None:
                work.append((succs[i], st))
        if len(seen) > 20000:
            raise _Violation('state space too large', None)
    return ends


def _geom_error_throw(n):
    return n.get('k') == 'throw' and not n.get('rethrow') and (GEOM_ERROR in (n.get('bases') or []) or (n.get('tt') or '').endswith('geometry_error'))


def protocol_rules(fb, R):
    # ---- linestring / polygon
    for kind in ('linestring', 'polygon'):
        name = 'create_' + kind
        q = GF + '::' + name
        fns = [f for f in gf_methods(fb, name) if f.params and f.params[0]['tC'].endswith('WayNodeList &')]
        if not fns:
            R.bad('T1-create-protocol', q + '#protocol', q, '%s(const WayNodeList&, ...) not found / not instantiated' % q)
            continue
        for fn in fns:
            F = Fac(fb, fn)
            if not F.ok:
                R.broken('%s: cannot identify back-end member' % fn.full)
                continue
            _line_protocol(fb, R, fn, F, kind, q)
        # the Way overload forwards to the list overload with the same un / dir
        ways = [f for f in gf_methods(fb, name) if f.params and f.params[0]['tC'].endswith('Way &')]
        for fn in ways:
            calls = [n for n in fn.all_nodes() if self_call(fn, n) == name]
            ok = len(calls) == 1
            if ok:
                c = calls[0]
                a = c.get('args', [])
                ok = len(a) == 3 and local_or_param(fn, a[1]) == fn.params[1]['d'] and local_or_param(fn, a[2]) == fn.params[2]['d']
                l = pn(fn, a[0]) if a else None
                ok = ok and l is not None and l.get('k') == 'call' and l.get('q') == 'osmium::Way::nodes' \
                    and local_or_param(fn, l.get('recv')) == fn.params[0]['d']
                rets = [n for n in fn.all_nodes() if n.get('k') == 'return']
                ok = ok and bool(rets) and all(peel(fn, r.get('sub')) == c['id'] for r in rets)
            R.check(ok, 'T1-create-protocol', q + '#way-overload-forwards', fn.site,
                    '%s(const Way&, un, dir) must return %s(way.nodes(), un, dir) with both options passed on unchanged' % (name, name))
        if not ways:
            R.bad('T1-create-protocol', q + '#way-overload-forwards', q, '%s(const Way&, ...) not found' % q)
    # ---- multipolygon
    q = GF + '::create_multipolygon'
    fns = gf_methods(fb, 'create_multipolygon')
    if not fns:
        R.bad('T1-create-protocol', q + '#protocol', q, '%s not found / not instantiated' % q)
    for fn in fns:
        F = Fac(fb, fn)
        if not F.ok:
            R.broken('%s: cannot identify back-end member' % fn.full)
            continue
        _mp_protocol(fb, R, fn, F, q)


def _counter_updates(fn):
    """{node id: (decl, new abstract value | 'inc')} for locals of integer type written in the body."""
    upd = {}
    for (n, key, kind, rhs) in writes(fn):
        if key[0] != 'var':
            continue
        if kind == 'inc':
            upd[n['id']] = (key[1], 'inc')
        elif kind == 'assign':
            v = fn.const_value(rhs)
            upd[n['id']] = (key[1], ('c', v) if v is not None else ('expr', rhs))
        else:
            upd[n['id']] = (key[1], TOP)
    return upd


def _int_locals(fn):
    out = {}
    for n in fn.all_nodes():
        if n.get('k') == 'decl':
            for v in n['vars']:
                if OT.domain_of_type(v['tC'], True) not in (None, 'bool') and isinstance(v.get('init'), int):
                    c = fn.const_value(v['init'])
                    out[v['d']] = (n['id'], ('c', c) if c is not None else ('expr', v['init']))
    return out


def _line_protocol(fb, R, fn, F, kind, q):
    key = q + '#protocol'
    fill_names = {k for k, v in FILLS.items() if v[2] == kind}
    start_n, finish_n, add_n = kind + '_start', kind + '_finish', kind + '_add_location'
    upd = _counter_updates(fn)
    locs = _int_locals(fn)
    decl_at = {nid: (d, v) for d, (nid, v) in locs.items()}
    fill_ids = set()

    def event(n):
        nm = impl_call(fn, F, n) or self_call(fn, n)
        if nm is None:
            return None
        if nm == start_n:
            return 'start'
        if nm == finish_n:
            return 'finish'
        if nm in fill_names or nm == add_n:
            return 'fill'
        if nm in FILLS or nm.endswith(('_start', '_finish', '_add_location')) or nm.startswith('make_'):
            return 'foreign:' + nm
        return None

    def absval(fn_, rhs):
        x = pn(fn_, rhs)
        if x is not None and x['id'] in fill_ids:
            return ('fill', x['id'])
        return TOP

    def on_elem(st, n):
        ps, env, last_finish = st
        envd = dict(env)
        nid = n['id']
        if nid in decl_at:
            d, v = decl_at[nid]
            envd[d] = v if v is None or v[0] == 'c' else absval(fn, v[1])
        if nid in upd:
            d, v = upd[nid]
            if v == 'inc':
                envd[d] = POS
            elif v is not None and v[0] == 'expr':
                envd[d] = absval(fn, v[1])
            else:
                envd[d] = v
        ev = event(n)
        if ev is not None:
            if ev.startswith('foreign:'):
                raise _Violation('%s calls %s, which belongs to another geometry kind' % (q, ev[8:]), nid)
            nxt = LINE_AUTOMATON[ps].get(ev)
            if nxt is None:
                raise _Violation('%s_%s in protocol state %s (required order: %s_start, one fill, %s_finish)'
                                 % (kind, ev, ps, kind, kind), nid)
            if ev == 'fill':
                fill_ids.add(nid)
            if ev == 'finish':
                a = n.get('args', [])
                d = local_or_param(fn, a[0]) if len(a) == 1 else None
                v = envd.get(d) if d is not None else (('fill', peel(fn, a[0])) if a and peel(fn, a[0]) in fill_ids else None)
                if not (v is not None and v[0] == 'fill'):
                    raise _Violation('the count passed to %s_finish is not the value returned by the fill call of this path '
                                     '(it is %s)' % (kind, fn.expr(a[0]) if a else 'missing'), nid)
                last_finish = nid
            ps = nxt
        if n.get('k') == 'return':
            if ps != 'END':
                raise _Violation('return in protocol state %s: the geometry was not finished' % ps, nid)
            if peel(fn, n.get('sub')) != last_finish:
                raise _Violation('the returned value is not the result of %s_finish' % kind, nid)
            return 'stop'
        if n.get('k') == 'throw':
            return 'stop'
        return (ps, frozenset(envd.items()), last_finish)

    # fill calls must be known before values are classified: pre-pass
    for n in fn.all_nodes():
        if event(n) == 'fill':
            fill_ids.add(n['id'])
    try:
        _explore(fn, ('S0', frozenset(), None), on_elem, lambda st: {d: v for d, v in st[1] if v is None or v[0] in ('c', 'pos')})
        rets = [n for n in fn.all_nodes() if n.get('k') == 'return']
        R.check(bool(rets), 'T1-create-protocol', key, fn.site, 'no return statement')
    except _Violation as v:
        R.bad('T1-create-protocol', key, fn.loc(v.nid) if v.nid is not None else fn.site, str(v))


def _mp_protocol(fb, R, fn, F, q):
    key = q + '#protocol'
    upd = _counter_updates(fn)
    locs = _int_locals(fn)
    decl_at = {nid: (d, v) for d, (nid, v) in locs.items()}
    reached_end = []

    def event(n):
        nm = impl_call(fn, F, n)
        if nm is not None:
            return 'add' if nm == 'multipolygon_add_location' else nm
        nm = self_call(fn, n)
        if nm == 'add_points':
            return 'add'
        if nm in FILLS:
            return nm
        return None

    def on_elem(st, n):
        ps, env, last_finish = st
        envd = dict(env)
        nid = n['id']
        if nid in decl_at:
            d, v = decl_at[nid]
            envd[d] = v if (v is None or v[0] == 'c') else TOP
        if nid in upd:
            d, v = upd[nid]
            envd[d] = POS if v == 'inc' else (v if (v is None or v[0] == 'c') else TOP)
        ev = event(n)
        if ev is not None:
            nxt = MP_AUTOMATON[ps].get(ev)
            if nxt is None:
                if ev == 'multipolygon_inner_ring_start' and ps == 'M0':
                    return None     # ASSUMPTION: an inner ring never precedes the first outer ring of an area
                raise _Violation('%s while %s (required: multipolygon_start, then per outer ring polygon_start, outer_ring_start, points, '
                                 'outer_ring_finish, per inner ring inner_ring_start, points, inner_ring_finish, then polygon_finish before the '
                                 'next polygon_start and before multipolygon_finish)' % (ev, MP_STATE_TEXT[ps]), nid)
            if ev == 'multipolygon_finish':
                last_finish = nid
            ps = nxt
        if n.get('k') == 'return':
            if ps != 'END':
                raise _Violation('return while %s' % MP_STATE_TEXT[ps], nid)
            if peel(fn, n.get('sub')) != last_finish:
                raise _Violation('the returned value is not the result of multipolygon_finish', nid)
            reached_end.append(nid)
            return 'stop'
        if n.get('k') == 'throw':
            if not n.get('rethrow') and ps not in MP_NO_RING_STATES:
                raise _Violation('an exception is thrown while %s: an area that has rings is rejected' % MP_STATE_TEXT[ps], nid)
            return 'stop'
        return (ps, frozenset(envd.items()), last_finish)

    try:
        _explore(fn, ('S0', frozenset(), None), on_elem, lambda st: {d: v for d, v in st[1] if v is None or v[0] in ('c', 'pos')})
        R.check(bool(reached_end), 'T1-create-protocol', key, fn.site,
                'no path reaches `return multipolygon_finish()` in the finished state: every area would be rejected')
    except _Violation as v:
        R.bad('T1-create-protocol', key, fn.loc(v.nid) if v.nid is not None else fn.site, str(v))


# ================================================================================================ dispatch table

def _enum_names(fb, q):
    e = fb.enum(q)
    if e is None:
        return None
    return {int(x['value']): x['name'] for x in e['enumerators']}


def _constraints(fn, nid, pdecls):
    """{param decl: set of values the parameter must have for element nid to execute} from if-guards and switch case labels.
    Returns None when a guard on one of the parameters has a shape that is not understood."""
    out = {}
    for (c, sense, _b) in guards_of(fn, nid):
        cn = pn(fn, c)
        if cn is None:
            continue
        if cn.get('k') == 'binop' and cn.get('op') in ('==', '!='):
            for (a, b) in ((cn['lhs'], cn['rhs']), (cn['rhs'], cn['lhs'])):
                d = local_or_param(fn, a)
                v = fn.const_value(b)
                if d in pdecls and v is not None:
                    eq = (cn['op'] == '==') == bool(sense)
                    out.setdefault(d, []).append(('eq' if eq else 'ne', v))
        elif any(local_or_param(fn, x) in pdecls for x in fn.subtree(c) if fn.nodes[x].get('k') == 'var') \
                and not (cn.get('k') == 'binop' and cn.get('op') in ('&&', '||')) and not (cn.get('k') == 'unop' and cn.get('op') == '!'):
            return None
    # switch case labels: a dominating block that carries a case label and is entered only from the switch block
    pos = fn.positions()
    if nid not in pos:
        return None
    b0 = pos[nid][0]
    preds = fn.preds()
    for d in fn.dominators().get(b0, ()):  # includes b0
        lab = fn.blocks[d].get('label') or {}
        if 'case' not in lab and not lab.get('default'):
            continue
        ps = preds.get(d, [])
        sw = [p for p in ps if fn.blocks[p].get('termcls') == 'SwitchStmt']
        if len(sw) != 1 or len(ps) != 1:
            return None   # fall-through into the label: not understood
        sd = local_or_param(fn, fn.blocks[sw[0]].get('cond'))
        if sd not in pdecls:
            continue
        if lab.get('default'):
            return None
        v = fn.const_value(lab['case'])
        if v is None:
            return None
        out.setdefault(sd, []).append(('eq', v))
    return out


_BEGIN = {'begin': ('forward', 0), 'cbegin': ('forward', 0), 'end': ('forward', 1), 'cend': ('forward', 1),
          'rbegin': ('backward', 0), 'crbegin': ('backward', 0), 'rend': ('backward', 1), 'crend': ('backward', 1)}


def dispatch_rules(fb, R):
    un_names = _enum_names(fb, 'osmium::geom::use_nodes')
    dir_names = _enum_names(fb, 'osmium::geom::direction')
    if not un_names or not dir_names or set(un_names.values()) != {'unique', 'all'} or set(dir_names.values()) != {'forward', 'backward'}:
        R.broken('enums osmium::geom::use_nodes {unique, all} / direction {forward, backward} not found')
        return
    for kind in ('linestring', 'polygon'):
        name = 'create_' + kind
        q = GF + '::' + name
        fns = [f for f in gf_methods(fb, name) if f.params and f.params[0]['tC'].endswith('WayNodeList &')]
        for fn in fns:
            if len(fn.params) != 3:
                R.broken('%s: expected (list, use_nodes, direction) parameters' % fn.full)
                continue
            pl, pu, pd = fn.params[0]['d'], fn.params[1]['d'], fn.params[2]['d']
            if 'use_nodes' not in fn.params[1]['tC'] or 'direction' not in fn.params[2]['tC']:
                R.broken('%s: parameter types are not (use_nodes, direction)' % fn.full)
                continue
            found = {}
            for n in fn.all_nodes():
                nm = self_call(fn, n)
                if nm not in FILLS or FILLS[nm][2] != kind:
                    continue
                cons = _constraints(fn, n['id'], {pu, pd})
                if cons is None:
                    R.broken('%s: guard shape of the call to %s not understood' % (fn.full, nm))
                    continue

                def vals(d, names):
                    poss = set(names)
                    for (op, v) in cons.get(d, []):
                        poss = {x for x in poss if (x == v) == (op == 'eq')}
                    return {names[x] for x in poss}
                us, ds = vals(pu, un_names), vals(pd, dir_names)
                for u in us:
                    for dr in ds:
                        found.setdefault((u, dr), []).append((n, nm, len(us) * len(ds)))
            for u in ('unique', 'all'):
                for dr in ('forward', 'backward'):
                    key = '%s#%s/%s' % (q, u, dr)
                    sites = found.get((u, dr), [])
                    if not sites:
                        R.bad('D1-direction-and-uniqueness-dispatch', key, fn.site,
                              'no fill call is reached for use_nodes::%s, direction::%s: such a request produces no points' % (u, dr))
                        continue
                    for (n, nm, width) in sites:
                        msg = None
                        if FILLS[nm][0] != (u == 'unique'):
                            msg = 'use_nodes::%s reaches %s' % (u, nm)
                        a = n.get('args', [])
                        its = []
                        for x in a:
                            c = pn(fn, x)
                            # reverse iterators are wrapped in a converting construction
                            hops = 0
                            while c is not None and c.get('k') == 'construct' and len(c.get('args', [])) == 1 and hops < 3:
                                c = pn(fn, c['args'][0])
                                hops += 1
                            if c is None or c.get('k') != 'call' or short(c.get('q', '')) not in _BEGIN or c.get('recv') is None:
                                its.append(None)
                            else:
                                its.append((short(c['q']), local_or_param(fn, c['recv'])))
                        if msg is None and (len(its) != 2 or None in its):
                            msg = 'arguments of %s are not begin/end iterators of the list' % nm
                        if msg is None:
                            (n0, r0), (n1, r1) = its
                            if r0 != pl or r1 != pl:
                                msg = 'iterators are not taken from the list parameter %s' % fn.params[0]['name']
                            elif _BEGIN[n0][0] != dr or _BEGIN[n1][0] != dr:
                                msg = 'direction::%s reaches %s(%s(), %s())' % (dr, nm, n0, n1)
                            elif _BEGIN[n0][1] != 0 or _BEGIN[n1][1] != 1:
                                msg = 'iterator pair (%s(), %s()) is not (begin, end)' % (n0, n1)
                        R.check(msg is None, 'D1-direction-and-uniqueness-dispatch', key, fn.loc(n['id']), msg or '',
                                detail='%s(%s)' % (nm, ', '.join('%s()' % i[0] for i in its if i)))
    # D2
    for (name, inner) in (('crbegin', 'cend'), ('crend', 'cbegin')):
        q = 'osmium::NodeRefList::' + name
        fns = fb.fns(q)
        if not fns:
            R.bad('D2-reverse-iterators', '%s#wraps-%s' % (q, inner), q, '%s not found' % q)
        for fn in fns:
            rets = [n for n in fn.all_nodes() if n.get('k') == 'return']
            ok = bool(rets)
            for r in rets:
                x = pn(fn, r.get('sub'), explicit_noop=True)
                hops = 0
                while x is not None and x.get('k') in ('construct', 'cast') and hops < 4:
                    nxt = x['args'][0] if x.get('k') == 'construct' and len(x.get('args', [])) == 1 else x.get('sub')
                    x = pn(fn, nxt, explicit_noop=True) if nxt is not None else None
                    hops += 1
                ok = ok and x is not None and x.get('k') == 'call' and x.get('q') == 'osmium::NodeRefList::' + inner and is_this(fn, x.get('recv'))
            R.check(ok, 'D2-reverse-iterators', '%s#wraps-%s' % (q, inner), fn.site, '%s must return reverse_iterator(%s())' % (name, inner))


# ================================================================================================ degenerate thresholds

def _threshold_guard(fb, R, fn, target, counter_d, k, rule, key, what):
    """target (node id) executes iff counter >= k, decided over all counter values; failing edges throw geometry_error."""
    gs = [(c, s, b) for (c, s, b) in guards_of(fn, target) if fn.blocks[b].get('cond') == c]
    rel = []
    for (c, s, b) in gs:
        if any(local_or_param(fn, x) == counter_d for x in fn.subtree(c) if fn.nodes[x].get('k') == 'var'):
            rel.append((c, s, b))
    if not rel:
        R.bad(rule, key, fn.loc(target), '%s is not guarded by a test of the point counter: %s' % (fn.expr(target)[:60], what))
        return

    def atoms(f, n):
        if n.get('k') == 'var' and n.get('d') == counter_d:
            return ('n', OT.UINT64)
        return None
    try:
        progs = [(OT.compile_expression(fb, fn, c, atoms), s) for (c, s, _b) in rel]
    except OT.Inexact as e:
        R.broken('%s: guard of %s is not comparison-only: %s' % (fn.full, fn.expr(target)[:40], e))
        return
    consts = set([k, k - 1, 0])
    for p, _s in progs:
        consts |= set(p.consts)
    bad = None
    for w in OT.worlds({'n': OT.UINT64}, consts):
        reach = all(OT.run(p, w).as_bool() == bool(s) for (p, s) in progs)
        want = w.ge('n', k)
        if reach != want:
            bad = w
            break
    ok = R.check(bad is None, rule, key, fn.loc(rel[0][0]),
                 '%s: for counter %s the finish call is %s but must be %s' % (what, bad.witness() if bad else '', 'reached' if bad and not bad.ge('n', k) else 'not reached',
                                                                              'rejected' if bad and not bad.ge('n', k) else 'accepted'),
                 detail='guards %s decided over %d order types' % ([fn.expr(c) for (c, _s, _b) in rel], len(list(OT.worlds({'n': OT.UINT64}, consts)))))
    # failing edges throw geometry_error before anything else happens to the back end
    for (c, s, b) in rel:
        fail = fn.blocks[b]['succs'][1 if s else 0]
        if fail is None:
            continue
        thr = [n for n in fn.all_nodes() if _geom_error_throw(n)]
        tids = {n['id'] for n in thr}
        w = path_search(fn, fail, lambda e: exit_t(e) or ((not isinstance(e, tuple)) and fn.nodes[e].get('k') in ('return', 'call') and e not in tids
                                                           and fn.nodes[e].get('q', '').startswith(('osmium::geom::', GF))),
                        lambda e: e in tids, from_block_start=True)
        R.check(w is None and bool(thr), rule, key + '/throws', fn.loc(c),
                '%s: the rejecting edge of `%s` does not throw osmium::geometry_error on every path: %s' % (what, fn.expr(c), describe_path(fn, w)))
    return ok


def threshold_rules(fb, R):
    for kind, k in (('linestring', 2), ('polygon', 4)):
        name = 'create_' + kind
        q = GF + '::' + name
        key = '%s#min-points-%d' % (q, k)
        fns = [f for f in gf_methods(fb, name) if f.params and f.params[0]['tC'].endswith('WayNodeList &')]
        if not fns:
            R.bad('G1-degenerate-threshold', key, q, '%s not found' % q)
        for fn in fns:
            F = Fac(fb, fn)
            if not F.ok:
                continue
            fins = [n for n in fn.all_nodes() if (impl_call(fn, F, n) or self_call(fn, n)) == kind + '_finish']
            if not fins:
                R.bad('G1-degenerate-threshold', key, fn.site, 'no call of %s_finish' % kind)
            for f in fins:
                a = f.get('args', [])
                d = local_or_param(fn, a[0]) if len(a) == 1 else None
                if d is None:
                    R.bad('G1-degenerate-threshold', key, fn.loc(f['id']), 'the count passed to %s_finish is not a local counter' % kind)
                    continue
                _threshold_guard(fb, R, fn, f['id'], d, k, 'G1-degenerate-threshold', key,
                                 'a %s needs at least %d points' % (kind, k))
    # multipolygon: geometry_error iff ring counter == 0
    q = GF + '::create_multipolygon'
    key = q + '#no-rings'
    fns = gf_methods(fb, 'create_multipolygon')
    if not fns:
        R.bad('G1-degenerate-threshold', key, q, '%s not found' % q)
    for fn in fns:
        F = Fac(fb, fn)
        if not F.ok:
            continue
        fins = [n for n in fn.all_nodes() if impl_call(fn, F, n) == 'multipolygon_finish']
        ring_starts = [n for n in fn.all_nodes() if (impl_call(fn, F, n) or '').endswith('_ring_start')]
        # the ring counter: a local incremented on every path after each ring start and nowhere else
        cands = {}
        for (n, lk, kind, _rhs) in writes(fn):
            if lk[0] == 'var' and kind == 'inc':
                cands.setdefault(lk[1], []).append(n)
        counter = None
        for d, incs in cands.items():
            ids = {n['id'] for n in incs}
            if ring_starts and all(any(fn.elem_dominates(rs['id'], i) and fn.positions()[rs['id']][0] == fn.positions()[i][0] for i in ids) for rs in ring_starts) \
                    and len(incs) == len(ring_starts):
                counter = d
        if counter is None or not fins:
            R.bad('G1-degenerate-threshold', key, fn.site,
                  'create_multipolygon has no local that counts exactly the rings (incremented once with every *_ring_start): the "no rings" '
                  'rejection cannot be exact')
            continue
        for f in fins:
            _threshold_guard(fb, R, fn, f['id'], counter, 1, 'G1-degenerate-threshold', key, 'an area without rings is invalid')


# ================================================================================================ projections / accessors

COORD = 'osmium::geom::Coordinates'
LOC_READERS = ('lon', 'lat', 'lon_without_check', 'lat_without_check', 'x', 'y')


def _loc_reads(fn, nid, pdecl):
    """names of osmium::Location accessors called on parameter pdecl inside the subtree of nid."""
    out = []
    for x in fn.subtree(nid):
        n = fn.nodes[x]
        if n.get('k') == 'call' and n.get('q', '').startswith(LOC + '::') and n.get('recv') is not None \
                and local_or_param(fn, n['recv']) == pdecl:
            out.append(short(n['q']))
    return out


def accessor_rules(fb, R):
    projs = set()
    for f in fb.functions:
        if f.cls == GF and f.cls_targs and len(f.cls_targs) >= 2:
            projs.add(f.cls_targs[1])
    if not projs:
        R.broken('no GeometryFactory instantiation found (projection types unknown)')
    for p in sorted(projs):
        q = p + '::operator()'
        key = q + '#x<-lon,y<-lat'
        fns = [f for f in fb.fns(q) if f.params and f.params[0]['tC'].replace('const ', '').rstrip(' &') == LOC]
        if not fns:
            R.bad('P1-checked-accessors', key, q, '%s(osmium::Location) not found' % q)
        for fn in fns:
            pd = fn.params[0]['d']
            rets = [n for n in fn.all_nodes() if n.get('k') == 'return']
            ok, msg = bool(rets), 'no return'
            for r in rets:
                c = pn(fn, r.get('sub'))
                while c is not None and c.get('k') == 'construct' and c.get('q') == COORD + '::(ctor)' and len(c.get('args', [])) == 1:
                    c = pn(fn, c['args'][0])
                if c is None or c.get('k') != 'construct' or c.get('q') != COORD + '::(ctor)' or len(c.get('args', [])) != 2:
                    ok, msg = False, 'does not return Coordinates{x, y}'
                    break
                rx, ry = _loc_reads(fn, c['args'][0], pd), _loc_reads(fn, c['args'][1], pd)
                if rx != ['lon'] or ry != ['lat']:
                    ok, msg = False, 'x must be computed from location.lon() only and y from location.lat() only (the checked accessors); found x<-%s, y<-%s' % (rx, ry)
            allreads = [short(n['q']) for n in fn.all_nodes() if n.get('k') == 'call' and n.get('q', '').startswith(LOC + '::')
                        and short(n['q']) in LOC_READERS]
            if ok and sorted(allreads) != ['lat', 'lon']:
                ok, msg = False, 'reads the location through %s' % allreads
            R.check(ok, 'P1-checked-accessors', key, fn.site, '%s: %s' % (q, msg))
    # Coordinates constructors
    q = COORD + '::(ctor)'
    rec = fb.record(COORD)
    fx, fy = (rec.fields[0]['name'], rec.fields[1]['name']) if rec is not None and len(rec.fields) >= 2 else ('x', 'y')
    seen = set()
    for fn in fb.fns(q):
        inits = {n['name']: n for n in fn.all_nodes() if n.get('k') == 'init' and 'name' in n}
        if len(fn.params) == 1 and LOC in fn.params[0]['tC']:
            pd = fn.params[0]['d']
            ok = fx in inits and fy in inits and _loc_reads(fn, inits[fx]['init'], pd) == ['lon'] and _loc_reads(fn, inits[fy]['init'], pd) == ['lat']
            R.check(ok, 'P1-checked-accessors', q + '#from-Location', fn.site,
                    'Coordinates(const Location&) must initialise x from location.lon() and y from location.lat() (checked accessors)')
            seen.add('loc')
        elif len(fn.params) == 2:
            ok = fx in inits and fy in inits and local_or_param(fn, inits[fx]['init']) == fn.params[0]['d'] \
                and local_or_param(fn, inits[fy]['init']) == fn.params[1]['d']
            R.check(ok, 'P1-checked-accessors', q + '#from-doubles', fn.site, 'Coordinates(cx, cy) must initialise x from cx and y from cy')
            seen.add('dbl')
    if 'loc' not in seen:
        R.bad('P1-checked-accessors', q + '#from-Location', COORD, 'constructor Coordinates(const Location&) not found')
    if 'dbl' not in seen:
        R.bad('P1-checked-accessors', q + '#from-doubles', COORD, 'constructor Coordinates(double, double) not found')
    # Location::lon / lat
    lrec = fb.record(LOC)
    for i, nm in enumerate(('lon', 'lat')):
        q = '%s::%s' % (LOC, nm)
        key = q + '#throws-if-invalid'
        fns = fb.fns(q)
        if not fns:
            R.bad('P1-checked-accessors', key, q, '%s not found' % q)
        for fn in fns:
            rets = [n for n in fn.all_nodes() if n.get('k') == 'return']
            ok, msg = bool(rets), 'no return'
            for r in rets:
                gs = guards_of(fn, r['id'])
                if not any(s and (pn(fn, c) or {}).get('q') == LOC + '::valid' for (c, s, _b) in gs):
                    ok, msg = False, 'a return is reachable without valid() having been true'
                fld = lrec.fields[i]['name'] if lrec is not None and len(lrec.fields) >= 2 else None
                fields = {fn.nodes[x]['name'] for x in fn.subtree(r['id']) if fn.nodes[x].get('k') == 'member' and fn.nodes[x].get('field')}
                if ok and fld is not None and fields != {fld}:
                    ok, msg = False, 'returns a value computed from %s, expected %s' % (sorted(fields), fld)
            thr = [n for n in fn.all_nodes() if n.get('k') == 'throw' and 'invalid_location' in (n.get('tt') or '')]
            if ok and not thr:
                ok, msg = False, 'does not throw osmium::invalid_location'
            if ok:
                tids = {n['id'] for n in thr}
                rids = {n['id'] for n in rets}
                w = path_search(fn, fn.entry, exit_t, lambda e: e in tids or e in rids, from_block_start=True)
                if w is not None:
                    ok, msg = False, 'a path leaves the function without returning the coordinate or throwing'
            R.check(ok, 'P1-checked-accessors', key, fn.site, '%s: %s' % (q, msg))


# ================================================================================================ WKB back end

WKB = 'osmium::geom::detail::WKBFactoryImpl'
WKT = 'osmium::geom::detail::WKTFactoryImpl'
GEOJSON = 'osmium::geom::detail::GeoJSONFactoryImpl'
STR_PUSH = 'osmium::geom::detail::str_push'
BS = 'std::basic_string::'
# level, start, finish, child events that each count one element of the level
LEVELS = [
    ('linestring', 'linestring_start', 'linestring_finish', ['linestring_add_location']),
    ('polygon', 'polygon_start', 'polygon_finish', ['polygon_add_location']),
    ('multipolygon', 'multipolygon_start', 'multipolygon_finish', ['multipolygon_polygon_start']),
    ('multipolygon_polygon', 'multipolygon_polygon_start', 'multipolygon_polygon_finish',
     ['multipolygon_outer_ring_start', 'multipolygon_inner_ring_start']),
    ('multipolygon_outer_ring', 'multipolygon_outer_ring_start', 'multipolygon_outer_ring_finish', ['multipolygon_add_location']),
    ('multipolygon_inner_ring', 'multipolygon_inner_ring_start', 'multipolygon_inner_ring_finish', ['multipolygon_add_location']),
]
NESTED = ['multipolygon', 'multipolygon_polygon', 'multipolygon_outer_ring', 'multipolygon_inner_ring']
OGC_TYPES = {'wkbPoint': 1, 'wkbLineString': 2, 'wkbPolygon': 3, 'wkbMultiPoint': 4, 'wkbMultiLineString': 5, 'wkbMultiPolygon': 6,
             'wkbGeometryCollection': 7, 'wkbSRID': 0x20000000}
WKB_HEADER_USERS = {'make_point': ('wkbPoint', 0), 'linestring_start': ('wkbLineString', 1), 'polygon_start': ('wkbPolygon', 1),
                    'multipolygon_start': ('wkbMultiPolygon', 1), 'multipolygon_polygon_start': ('wkbPolygon', 1)}


def _method(fb, cls, name):
    fns = [f for f in fb.fns('%s::%s' % (cls, name)) if f.has_cfg]
    return fns[0] if fns else None


def _buffer_field(fb, cls):
    """The std::string member the back end accumulates into: the one linestring_add_location appends to."""
    fn = _method(fb, cls, 'linestring_add_location')
    if fn is None:
        return None
    cands = set()
    for n in fn.all_nodes():
        if n.get('k') != 'call':
            continue
        f = recv_field(fn, n)
        if f is not None and n.get('q', '').startswith(BS):
            cands.add(f)
        for a in n.get('args', []):
            f = this_field(fn, a)
            if f is not None and (fn.nodes.get(peel(fn, a), {}).get('t') or '').startswith(('std::string', 'std::basic_string')):
                cands.add(f)
    return cands.pop() if len(cands) == 1 else None


def _single_path_elems(fn):
    ps = normal_paths(fn)
    if not ps or len(ps) != 1:
        return None
    return path_elems(fn, ps[0])


def _is_u32_zero_push(fn, n, data):
    return n.get('k') == 'call' and n.get('q') == STR_PUSH and len(n.get('args', [])) == 2 and this_field(fn, n['args'][0]) == data \
        and (fn.nodes.get(peel(fn, n['args'][1]), {}).get('t') in ('unsigned int', 'uint32_t')) and fn.const_value(n['args'][1]) == 0 \
        and (pn(fn, n['args'][1], explicit_noop=False) or {}).get('k') in ('cast', 'lit')


def _header_call(fn, nid):
    n = pn(fn, nid)
    if n is not None and n.get('k') == 'call' and n.get('q') == WKB + '::header':
        return n
    return None


def _start_captures(fn, data):
    """offset members recorded by a start method: [(field, how, node)] ; how = 'header' | 'size+zero'."""
    elems = _single_path_elems(fn)
    if elems is None:
        return None
    caps = []
    for i, e in enumerate(elems):
        n = fn.nodes[e]
        if n.get('k') != 'assign' or n.get('op') != '=':
            continue
        f = this_field(fn, n['lhs'])
        if f is None:
            continue
        h = _header_call(fn, n['rhs'])
        if h is not None and len(h.get('args', [])) == 3 and this_field(fn, h['args'][0]) == data and fn.const_value(h['args'][2]) == 1:
            caps.append((f, 'header', n))
            continue
        r = pn(fn, n['rhs'])
        if r is not None and r.get('k') == 'call' and r.get('q') == BS + 'size' and recv_field(fn, r) == data:
            # next mutation of the buffer must be the 4-byte zero placeholder
            nxt = None
            for e2 in elems[i + 1:]:
                m = fn.nodes[e2]
                if m.get('k') == 'call' and (m.get('q') == STR_PUSH or m.get('q') == WKB + '::header' or
                                             (m.get('q', '').startswith(BS) and recv_field(fn, m) == data and short(m['q']) not in ('size', 'empty', 'length'))):
                    nxt = m
                    break
            if nxt is not None and _is_u32_zero_push(fn, nxt, data):
                caps.append((f, 'size+zero', n))
            else:
                caps.append((f, 'size-without-placeholder', n))
    return caps


def _set_size_calls(fn):
    return [n for n in fn.all_nodes() if n.get('k') == 'call' and n.get('q') == WKB + '::set_size']


def wkb_rules(fb, R):
    rec = fb.record(WKB)
    if rec is None:
        R.broken('record %s not found' % WKB)
        return
    data = _buffer_field(fb, WKB)
    if data is None:
        R.broken('%s: cannot identify the accumulation buffer member' % WKB)
        return
    methods = {f.name: f for f in fb.functions if f.cls == WKB and f.has_cfg and not f.is_lambda}
    field_writers = {}
    for mname, fn in methods.items():
        if fn.kind in ('ctor', 'dtor'):
            continue
        for (n, key, kind, rhs) in writes(fn):
            if key[0] == 'field':
                field_writers.setdefault(key[1], []).append((mname, n, kind, rhs))
    offsets, counters = {}, {}
    for (level, sname, fname, children) in LEVELS:
        k1 = '%s#%s' % (WKB, level)
        S, Fn_ = methods.get(sname), methods.get(fname)
        if S is None or Fn_ is None:
            R.bad('B1-backpatch-offset-pairing', k1, '%s:%d' % (rec.file, rec.line), 'methods %s / %s not found' % (sname, fname))
            continue
        caps = _start_captures(S, data)
        if caps is None:
            R.broken('%s::%s: not a straight-line body' % (WKB, sname))
            continue
        good = [c for c in caps if c[1] in ('header', 'size+zero')]
        calls = _set_size_calls(Fn_)
        ids = {c['id'] for c in calls}
        msg = None
        if len(caps) != len(good):
            msg = '%s stores %s.size() in %s but the next thing appended is not the 4-byte zero count placeholder' % (sname, data, [c[0] for c in caps if c not in good])
        elif len(good) != 1:
            msg = '%s must record the position of exactly one count placeholder in a member (found %s)' % (sname, [c[0] for c in good])
        elif len(calls) != 1:
            msg = '%s must call set_size exactly once (found %d calls): the count written by %s is never / repeatedly patched' % (fname, len(calls), sname)
        else:
            w = path_search(Fn_, Fn_.entry, exit_t, lambda e: e in ids, from_block_start=True)
            a = calls[0].get('args', [])
            of = this_field(Fn_, a[0]) if len(a) == 2 else None
            if w is not None:
                msg = '%s can return without calling set_size: %s' % (fname, describe_path(Fn_, w))
            elif of != good[0][0]:
                msg = ('%s patches the count at %s but %s recorded the placeholder position in %s: the count of another element is '
                       'overwritten and this one stays 0' % (fname, of or Fn_.expr(a[0]) if a else '?', sname, good[0][0]))
            else:
                offsets[level] = of
        R.check(msg is None, 'B1-backpatch-offset-pairing', k1, Fn_.loc(calls[0]['id']) if calls else Fn_.site, msg or '',
                detail='%s: %s <- %s ; %s: set_size(%s, ...)' % (sname, good[0][0] if good else '?', good[0][1] if good else '?', fname, offsets.get(level)))
        if len(calls) != 1 or len(calls[0].get('args', [])) != 2:
            continue
        # ---- B2 counter
        cnt = calls[0]['args'][1]
        cd = local_or_param(Fn_, cnt)
        cf = this_field(Fn_, cnt)
        msg = None
        if cd is not None:
            if param_index(Fn_, cd) != 0 or len(Fn_.params) != 1:
                msg = '%s passes local %s as the count, not its parameter' % (fname, Fn_.expr(cnt))
            elif any(w_[1] == ('var', cd) for w_ in writes(Fn_)):
                msg = '%s modifies its count parameter before patching' % fname
        elif cf is not None:
            counters[level] = cf
            resets = [w_ for w_ in field_writers.get(cf, []) if w_[0] == sname]
            if not (len(resets) == 1 and resets[0][2] == 'assign' and S.const_value(resets[0][3]) == 0):
                msg = '%s must reset the element counter %s to 0 (exactly once)' % (sname, cf)
            for ch in children:
                C = methods.get(ch)
                if msg is not None:
                    break
                if C is None:
                    msg = 'child event %s not found' % ch
                    break
                incs = [w_ for w_ in field_writers.get(cf, []) if w_[0] == ch]
                if not (len(incs) == 1 and (incs[0][2] == 'inc' or (incs[0][2] == 'compound' and incs[0][1].get('op') == '+=' and C.const_value(incs[0][3]) == 1))):
                    msg = '%s must increment %s exactly once (it is the count that %s writes into the %s header)' % (ch, cf, fname, level)
                else:
                    iid = incs[0][1]['id']
                    w = path_search(C, C.entry, exit_t, lambda e: e == iid, from_block_start=True)
                    if w is not None:
                        msg = '%s can return without incrementing %s' % (ch, cf)
            if msg is None:
                allowed = set()
                for (lv, s2, f2, ch2) in LEVELS:
                    c2 = _set_size_calls(methods[f2]) if f2 in methods else []
                    if len(c2) == 1 and len(c2[0].get('args', [])) == 2 and this_field(methods[f2], c2[0]['args'][1]) == cf:
                        allowed |= {s2} | set(ch2)
                others = sorted({w_[0] for w_ in field_writers.get(cf, [])} - allowed)
                if others:
                    msg = 'element counter %s is also written by %s' % (cf, others)
        else:
            msg = 'the count passed to set_size in %s is neither the parameter nor a member: %s' % (fname, Fn_.expr(cnt))
        R.check(msg is None, 'B2-backpatch-counter', k1, Fn_.loc(calls[0]['id']), msg or '',
                detail='count = %s' % Fn_.expr(cnt))
    # ---- B3 nested slots
    offs = [(lv, offsets[lv]) for lv in NESTED if lv in offsets]
    clash = [(a, b) for (a, b) in itertools.combinations(offs, 2) if a[1] == b[1] and not {a[0], b[0]} == {'multipolygon_outer_ring', 'multipolygon_inner_ring'}]
    R.check(not clash and len(offs) == 4, 'B3-nested-slots-distinct', WKB + '#nested-offsets', '%s:%d' % (rec.file, rec.line),
            'levels that are open at the same time share an offset member (the inner start overwrites the outer position): %s' % clash
            if clash else 'offset members of the nested levels could not all be determined')
    cnts = [(lv, counters[lv]) for lv in NESTED if lv in counters]
    clash = [(a, b) for (a, b) in itertools.combinations(cnts, 2) if a[1] == b[1] and not {a[0], b[0]} == {'multipolygon_outer_ring', 'multipolygon_inner_ring'}]
    R.check(not clash and len(cnts) == 4, 'B3-nested-slots-distinct', WKB + '#nested-counters', '%s:%d' % (rec.file, rec.line),
            'levels that are open at the same time share a counter member: %s' % clash if clash else 'counter members of the nested levels could not all be determined')

    _wkb_set_size(fb, R, methods, data)
    _wkb_header(fb, R, methods, data)
    _wkb_axis(fb, R, methods, data)
    _wkb_handover(fb, R, methods, data)


def _decide_guard(fb, R, fn, target, sym_decl, dom, want, rule, key, what, extra=()):
    """`target` executes exactly in the worlds where want(world) holds; the guards may mention only the symbol `n` (sym_decl)."""
    rel = [(c, s, b) for (c, s, b) in guards_of(fn, target) if fn.blocks[b].get('cond') == c
           and any(local_or_param(fn, x) == sym_decl for x in fn.subtree(c) if fn.nodes[x].get('k') == 'var')]

    def atoms(f, n):
        if n.get('k') == 'var' and n.get('d') == sym_decl:
            return ('n', dom)
        return None
    try:
        progs = [(OT.compile_expression(fb, fn, c, atoms), s) for (c, s, _b) in rel]
    except OT.Inexact as e:
        R.broken('%s: guard of %s is not comparison-only: %s' % (fn.full, fn.expr(target)[:40], e))
        return None
    consts = {0} | set(extra)
    for p, _s in progs:
        consts |= set(p.consts)
    for c in list(consts):
        consts |= {c - 1, c + 1} if dom[0] <= c - 1 and c + 1 <= dom[1] else set()
    bad = None
    nw = 0
    for w in OT.worlds({'n': dom}, consts):
        nw += 1
        reach = all(OT.run(p, w).as_bool() == bool(s) for (p, s) in progs)
        if reach != bool(want(w)) and bad is None:
            bad = (w, reach)
    R.check(bad is None, rule, key, fn.loc(rel[0][0]) if rel else fn.loc(target),
            '%s: for %s the guarded operation is %s' % (what, bad[0].witness() if bad else '', 'executed' if bad and bad[1] else 'not executed'),
            detail='guards %s decided over %d order types' % ([fn.expr(c) for (c, _s, _b) in rel], nw))
    return rel


def _wkb_set_size(fb, R, methods, data):
    fn = methods.get('set_size')
    key = WKB + '::set_size'
    if fn is None or len(fn.params) != 2:
        R.bad('B4-set_size-patches-uint32', key + '#patch', WKB, 'set_size(offset, size) not found')
        return
    po, ps = fn.params[0]['d'], fn.params[1]['d']
    copies = [n for n in fn.all_nodes() if n.get('k') == 'call' and n.get('q') in ('std::copy_n', 'std::memcpy', 'memcpy', 'std::copy')]
    msg = None
    if len(copies) != 1 or copies[0]['q'] != 'std::copy_n' or len(copies[0].get('args', [])) != 3:
        msg = 'expected exactly one std::copy_n(src, n, dst)'
    else:
        src, cnt, dst = copies[0]['args']
        d = pn(fn, dst)
        okd = d is not None and d.get('k') == 'unop' and d.get('op') == '&'
        if okd:
            ix = pn(fn, d['sub'])
            okd = ix is not None and ix.get('k') == 'call' and ix.get('q') == BS + 'operator[]' and recv_field(fn, ix) == data \
                and len(ix.get('args', [])) == 1 and local_or_param(fn, ix['args'][0]) == po
        s = pn(fn, src, explicit_noop=True)
        while s is not None and s.get('k') == 'cast':
            s = pn(fn, s['sub'], explicit_noop=True)
        oks = s is not None and s.get('k') == 'unop' and s.get('op') == '&'
        if oks:
            sd = local_or_param(fn, s['sub'])
            dn, dv = decl_of(fn, sd) if sd is not None else (None, None)
            oks = dv is not None and dv['tC'].replace('const ', '') == 'unsigned int' and not [w for w in writes(fn) if w[1] == ('var', sd)]
            if oks:
                i = pn(fn, dv.get('init'), explicit_noop=False)
                oks = i is not None and i.get('k') == 'cast' and local_or_param(fn, i['sub']) == ps
        if fn.const_value(cnt) != 4:
            msg = 'the number of bytes patched is %s, the count field is a 4 byte uint32' % fn.const_value(cnt)
        elif not okd:
            msg = 'the destination is not &%s[offset]' % data
        elif not oks:
            msg = 'the source is not the address of a uint32_t local initialised with static_cast<uint32_t>(size)'
    R.check(msg is None, 'B4-set_size-patches-uint32', key + '#patch', fn.site, 'set_size: %s' % msg)
    if msg is None:
        _decide_guard(fb, R, fn, copies[0]['id'], ps, OT.UINT64, lambda w: w.le('n', 4294967295), 'B4-set_size-patches-uint32',
                      key + '#range-guard', 'exactly the sizes above UINT32_MAX must be rejected before narrowing to uint32_t', extra=(4294967295,))
        thr = [n for n in fn.all_nodes() if _geom_error_throw(n)]
        R.check(bool(thr), 'B4-set_size-patches-uint32', key + '#range-guard/throws', fn.site, 'set_size does not throw geometry_error for oversized counts')


def _wkb_header(fb, R, methods, data):
    fn = methods.get('header')
    key = WKB + '::header'
    if fn is None or len(fn.params) != 3:
        R.bad('B5-header-layout', key + '#offset', WKB, 'header(str, type, add_length) not found')
        return
    pstr, ptype, plen = (p['d'] for p in fn.params)
    rets = [n for n in fn.all_nodes() if n.get('k') == 'return']
    od = {local_or_param(fn, r.get('sub')) for r in rets}
    msg = None
    pushes = [n for n in fn.all_nodes() if n.get('k') == 'call' and n.get('q') == STR_PUSH and len(n.get('args', [])) == 2
              and local_or_param(fn, n['args'][0]) == pstr]
    other_mut = [n for n in fn.all_nodes() if n.get('k') == 'call' and n.get('q', '').startswith(BS) and n.get('recv') is not None
                 and local_or_param(fn, n['recv']) == pstr and short(n['q']) not in ('size', 'length', 'empty')]
    if len(od) != 1 or None in od:
        msg = 'does not return one local'
    else:
        d = od.pop()
        dn, dv = decl_of(fn, d)
        i = pn(fn, dv.get('init')) if dv is not None else None
        if i is None or i.get('k') != 'call' or i.get('q') != BS + 'size' or local_or_param(fn, i.get('recv')) != pstr \
                or [w for w in writes(fn) if w[1] == ('var', d)]:
            msg = 'the returned offset is not `str.size()` taken once'
        elif other_mut:
            msg = 'str is modified other than through str_push'
        else:
            after = [p for p in pushes if path_search(fn, dn['id'], lambda e: e == p['id'], lambda e: False) is not None]
            before = [p for p in pushes if p not in after]
            if len(after) != 1 or fn.const_value(after[0]['args'][1]) != 0 or fn.nodes.get(peel(fn, after[0]['args'][1]), {}).get('t') != 'unsigned int':
                msg = 'after the offset is taken exactly one uint32 zero (the count placeholder) must be appended; found %s' % [fn.expr(p['id']) for p in after]
            elif not any(s and local_or_param(fn, c) == plen for (c, s, _b) in guards_of(fn, after[0]['id'])):
                msg = 'the count placeholder is not appended under `add_length`'
            elif any(path_search(fn, p['id'], lambda e: e == dn['id'], lambda e: False) is None for p in before):
                msg = 'a header field is appended on a path that does not continue to the offset computation'
            else:
                # per path: byte order (1 byte), type (uint32, from parameter), [srid iff SRID flag]
                for path in normal_paths(fn) or []:
                    seq = [fn.nodes[e] for e in path_elems(fn, path) if fn.nodes[e] in before]
                    kinds = []
                    for p in seq:
                        a = p['args'][1]
                        an = fn.nodes.get(peel(fn, a), {})
                        vars_ = [fn.nodes[x] for x in fn.subtree(a) if fn.nodes[x].get('k') == 'var']
                        if any(v.get('d') == ptype for v in vars_):
                            kinds.append('type+srid' if any(short(v.get('q', '')) == 'wkbSRID' for v in vars_) else 'type')
                        elif 'wkb_byte_order_type' in (an.get('t') or ''):
                            kinds.append('order')
                        elif this_field(fn, a) is not None and (an.get('t') or '').replace('const ', '') == 'int':
                            kinds.append('srid')
                        else:
                            kinds.append('?' + fn.expr(a))
                    if kinds not in (['order', 'type'], ['order', 'type+srid', 'srid']):
                        msg = 'header fields on one path are %s; required: byte order, type, and the srid exactly when the SRID flag is set' % kinds
    R.check(msg is None, 'B5-header-layout', key + '#offset', fn.site, 'header(): %s' % msg)
    # enum values
    e = fb.enum(WKB + '::wkbGeometryType')
    if e is None:
        R.broken('enum %s::wkbGeometryType not found' % WKB)
    else:
        vals = {x['name']: int(x['value']) for x in e['enumerators']}
        wrong = {k: v for k, v in vals.items() if k in OGC_TYPES and OGC_TYPES[k] != v}
        R.check(not wrong and all(k in vals for k in ('wkbPoint', 'wkbLineString', 'wkbPolygon', 'wkbMultiPolygon', 'wkbSRID')),
                'B5-header-layout', WKB + '::wkbGeometryType#ogc-values', '%s:%d' % (e['file'], e['line']),
                'geometry type codes differ from the OGC / EWKB table: %s' % wrong)
    # users
    for mname, (tname, addlen) in WKB_HEADER_USERS.items():
        k2 = '%s::%s#header(%s)' % (WKB, mname, tname)
        m = methods.get(mname)
        if m is None:
            R.bad('B5-header-layout', k2, WKB, '%s not found' % mname)
            continue
        hs = [n for n in m.all_nodes() if n.get('k') == 'call' and n.get('q') == WKB + '::header']
        msg = None
        if len(hs) != 1 or len(hs[0].get('args', [])) != 3:
            msg = 'expected exactly one header() call'
        else:
            h = hs[0]
            t = pn(m, h['args'][1])
            if t is None or short(t.get('q', '')) != tname:
                msg = 'writes geometry type %s, required %s' % (short(t.get('q', '?')) if t else '?', tname)
            elif m.const_value(h['args'][2]) != addlen:
                msg = 'add_length must be %s' % bool(addlen)
            elif addlen:
                # result must be stored in a member or handed to set_size
                pm = m.parent_map()
                x = h['id']
                used = False
                hops = 0
                while x in pm and hops < 6:
                    x = pm[x]
                    hops += 1
                    nx = m.nodes[x]
                    if nx.get('k') == 'assign' and this_field(m, nx['lhs']) is not None:
                        used = True
                    if nx.get('k') == 'call' and nx.get('q') == WKB + '::set_size':
                        used = True
                if not used:
                    msg = 'the offset of the count placeholder returned by header() is discarded: the count stays 0'
            w = path_search(m, m.entry, exit_t, lambda e_: e_ == h['id'], from_block_start=True) if msg is None else None
            if w is not None:
                msg = 'header() is not written on every path'
        R.check(msg is None, 'B5-header-layout', k2, m.site, '%s: %s' % (mname, msg))
        if mname == 'polygon_start' and msg is None:
            ss = [n for n in _set_size_calls(m) if _header_call(m, n['args'][0]) is not None]
            R.check(len(ss) == 1 and m.const_value(ss[0]['args'][1]) == 1, 'B5-header-layout', WKB + '::polygon_start#ring-count-1', m.site,
                    'polygon_start must patch the ring count of the polygon header with the constant 1 (a polygon built from a way has one ring)')


def _coord_pushes(fn, data_key):
    out = []
    for n in fn.all_nodes():
        if n.get('k') == 'call' and n.get('q') == STR_PUSH and len(n.get('args', [])) == 2:
            out.append(n)
    return out


def _wkb_axis(fb, R, methods, data):
    rec = fb.record(COORD)
    fx, fy = (rec.fields[0]['name'], rec.fields[1]['name']) if rec is not None and len(rec.fields) >= 2 else ('x', 'y')
    for mname in ('make_point', 'linestring_add_location', 'polygon_add_location', 'multipolygon_add_location'):
        key = '%s::%s#x-then-y' % (WKB, mname)
        fn = methods.get(mname)
        if fn is None or not fn.params or COORD not in fn.params[0]['tC']:
            R.bad('X1-axis-order', key, WKB, '%s(const Coordinates&) not found' % mname)
            continue
        pd = fn.params[0]['d']
        pushes = _coord_pushes(fn, data)
        seq = []
        for p in sorted(pushes, key=lambda n: fn.positions().get(n['id'], (0, 0))[::-1] if False else n['id']):
            a = pn(fn, p['args'][1])
            if a is not None and a.get('k') == 'member' and local_or_param(fn, a.get('base')) == pd:
                seq.append((a['name'], p, fn.nodes.get(p['args'][1], {}).get('t') or a.get('t')))
            else:
                seq.append(('?' + fn.expr(p['args'][1]), p, None))
        msg = None
        names = [s[0] for s in seq]
        if sorted(names) != sorted([fx, fy]):
            msg = 'must push exactly the two members %s and %s of its parameter, found %s' % (fx, fy, names)
        else:
            px = next(s[1] for s in seq if s[0] == fx)
            py = next(s[1] for s in seq if s[0] == fy)
            if not fn.elem_dominates(px['id'], py['id']):
                msg = '%s must be written before %s (WKB point = x then y)' % (fx, fy)
            elif any((pn(fn, s[1]['args'][1]) or {}).get('t', '').replace('const ', '') != 'double' for s in seq):
                msg = 'coordinates must be pushed as 8 byte doubles'
            else:
                tgt = {lvalue_key(fn, s[1]['args'][0]) for s in seq}
                if len(tgt) != 1 or None in tgt:
                    msg = 'x and y are pushed into different strings'
                for s in seq:
                    if path_search(fn, fn.entry, exit_t, lambda e, i=s[1]['id']: e == i, from_block_start=True) is not None:
                        msg = 'a coordinate is not written on every path'
        R.check(msg is None, 'X1-axis-order', key, fn.site, '%s: %s' % (mname, msg))
    # Coordinates::append_to_string
    q = COORD + '::append_to_string'
    got3 = got5 = False
    for fn in fb.fns(q):
        if len(fn.params) == 3:
            got3 = True
            ps, pi, pp = (p['d'] for p in fn.params)
            d2s = [n for n in fn.all_nodes() if n.get('k') == 'call' and short(n.get('q', '')) == 'double2string']
            inf = [n for n in fn.all_nodes() if n.get('k') == 'call' and n.get('q') == BS + 'operator+=' and local_or_param(fn, n.get('recv')) == ps
                   and n.get('args') and local_or_param(fn, n['args'][0]) == pi]
            msg = None
            if len(d2s) != 2 or len(inf) != 1:
                msg = 'expected double2string(x), s += infix, double2string(y)'
            else:
                def fld(c):
                    a = pn(fn, c['args'][1]) if len(c.get('args', [])) == 3 else None
                    return a['name'] if a is not None and a.get('k') == 'member' and fn.is_this_member(a['id']) else None
                byf = {fld(c): c for c in d2s}
                if set(byf) != {fx, fy}:
                    msg = 'the two numbers written are %s, required %s and %s' % (sorted(map(str, byf)), fx, fy)
                elif not (fn.elem_dominates(byf[fx]['id'], inf[0]['id']) and fn.elem_dominates(inf[0]['id'], byf[fy]['id'])):
                    msg = 'order must be %s, infix, %s' % (fx, fy)
                elif any(local_or_param(fn, c['args'][0]) != ps or local_or_param(fn, c['args'][2]) != pp for c in d2s):
                    msg = 'double2string must receive the output string and the precision parameter'
                elif not any(s and (pn(fn, c) or {}).get('q') == COORD + '::valid' for (c, s, _b) in guards_of(fn, byf[fx]['id'])):
                    msg = 'numbers are written without valid() having been tested'
            R.check(msg is None, 'X1-axis-order', q + '#x-infix-y', fn.site, 'append_to_string(s, infix, precision): %s' % msg)
        elif len(fn.params) == 5:
            got5 = True
            ps, ppre, pi, psuf, pp = (p['d'] for p in fn.params)
            adds = [n for n in fn.all_nodes() if n.get('k') == 'call' and n.get('q') == BS + 'operator+=' and local_or_param(fn, n.get('recv')) == ps]
            inner = [n for n in fn.all_nodes() if n.get('k') == 'call' and n.get('q') == q]
            msg = None
            if len(adds) != 2 or len(inner) != 1:
                msg = 'expected s += prefix, append_to_string(s, infix, precision), s += suffix'
            else:
                pre = [a for a in adds if local_or_param(fn, a['args'][0]) == ppre]
                suf = [a for a in adds if local_or_param(fn, a['args'][0]) == psuf]
                ia = inner[0].get('args', [])
                if len(pre) != 1 or len(suf) != 1:
                    msg = 'prefix / suffix are not appended once each'
                elif not (fn.elem_dominates(pre[0]['id'], inner[0]['id']) and fn.elem_dominates(inner[0]['id'], suf[0]['id'])):
                    msg = 'order must be prefix, coordinates, suffix'
                elif len(ia) != 3 or [local_or_param(fn, a) for a in ia] != [ps, pi, pp] or not is_this(fn, inner[0].get('recv')):
                    msg = 'the inner call must be this->append_to_string(s, infix, precision)'
            R.check(msg is None, 'X1-axis-order', q + '#prefix-body-suffix', fn.site, 'append_to_string(s, prefix, infix, suffix, precision): %s' % msg)
    if not got3:
        R.bad('X1-axis-order', q + '#x-infix-y', COORD, 'append_to_string(s, infix, precision) not found')
    if not got5:
        R.bad('X1-axis-order', q + '#prefix-body-suffix', COORD, 'append_to_string(s, prefix, infix, suffix, precision) not found')


def _wkb_handover(fb, R, methods, data):
    hex_enum = 'osmium::geom::out_type::hex'
    for mname in ('make_point', 'linestring_finish', 'polygon_finish', 'multipolygon_finish'):
        fn = methods.get(mname)
        key = '%s::%s' % (WKB, mname)
        if fn is None:
            R.bad('B7-patch-before-handover', key + '#hex-iff-requested', WKB, '%s not found' % mname)
            continue
        swaps = [n for n in fn.all_nodes() if n.get('k') == 'call' and n.get('q') == 'std::swap' and len(n.get('args', [])) == 2]
        local = None
        if mname != 'make_point':
            msg = None
            sw = [n for n in swaps if {lvalue_key(fn, a) for a in n['args']} >= {('field', data)}]
            if len(sw) != 1:
                msg = 'expected one swap of a local string with %s' % data
            else:
                other = [lvalue_key(fn, a) for a in sw[0]['args'] if lvalue_key(fn, a) != ('field', data)]
                local = other[0][1] if other and other[0] and other[0][0] == 'var' else None
                dn, dv = decl_of(fn, local) if local is not None else (None, None)
                i = pn(fn, dv.get('init')) if dv is not None and isinstance(dv.get('init'), int) else None
                if local is None or not (i is None or (i.get('k') == 'construct' and not i.get('args'))):
                    msg = 'the local swapped with %s is not a fresh empty string (stale content would survive in %s)' % (data, data)
                for c in _set_size_calls(fn):
                    if not fn.elem_dominates(c['id'], sw[0]['id']):
                        msg = 'set_size runs after %s was handed over to the local: it patches an empty string' % data
            R.check(msg is None, 'B7-patch-before-handover', key + '#patch-before-handover', fn.site, '%s: %s' % (mname, msg))
        else:
            hs = [n for n in fn.all_nodes() if n.get('k') == 'call' and n.get('q') == WKB + '::header']
            local = local_or_param(fn, hs[0]['args'][0]) if len(hs) == 1 and hs[0].get('args') else None
        rets = [n for n in fn.all_nodes() if n.get('k') == 'return']
        msg = None if rets and local is not None else 'cannot identify the result string'
        nhex = nraw = 0
        for r in rets:
            if msg is not None:
                break
            gs = guards_of(fn, r['id'])
            hexg = None
            for (c, s, _b) in gs:
                cn = pn(fn, c)
                if cn is not None and cn.get('k') == 'binop' and cn.get('op') in ('==', '!='):
                    sides = [pn(fn, cn['lhs']), pn(fn, cn['rhs'])]
                    if any(x is not None and x.get('q') == hex_enum for x in sides) and any(this_field(fn, y) is not None for y in (cn['lhs'], cn['rhs'])):
                        hexg = (cn['op'] == '==') == bool(s)
            v = pn(fn, r.get('sub'))
            is_hex = v is not None and v.get('k') == 'call' and v.get('q') == 'osmium::geom::detail::convert_to_hex' \
                and v.get('args') and local_or_param(fn, v['args'][0]) == local
            is_raw = local_or_param(fn, r.get('sub')) == local
            if hexg is None:
                # the fall-through return: reached when the hex test failed (early return on the hex edge)
                hexg = False if any((pn(fn, fn.blocks[b].get('cond')) or {}).get('k') == 'binop' for b in fn.blocks if 'cond' in fn.blocks[b]) else None
            if hexg is True and not is_hex:
                msg = 'out_type::hex does not return convert_to_hex(<result>)'
            elif hexg is False and not is_raw:
                msg = 'binary output does not return the result string unchanged'
            elif hexg is None:
                msg = 'return is not related to the out_type test'
            nhex += bool(is_hex)
            nraw += bool(is_raw)
        if msg is None and (nhex == 0 or nraw == 0):
            msg = 'both a hex and a binary return are required'
        R.check(msg is None, 'B7-patch-before-handover', key + '#hex-iff-requested', fn.site, '%s: %s' % (mname, msg))


def reset_rules(fb, R):
    for cls in (WKB, WKT, GEOJSON):
        buf = _buffer_field(fb, cls)
        if buf is None:
            R.broken('%s: cannot identify the accumulation buffer member' % cls)
            continue
        for mname in ('linestring_start', 'polygon_start', 'multipolygon_start'):
            key = '%s::%s#reset' % (cls, mname)
            fn = _method(fb, cls, mname)
            if fn is None:
                R.bad('B6-start-resets-buffer', key, cls, '%s not found' % mname)
                continue
            elems = _single_path_elems(fn)
            if elems is None:
                R.broken('%s::%s: not a straight-line body' % (cls, mname))
                continue
            first = None
            for e in elems:
                n = fn.nodes[e]
                if n.get('k') != 'call':
                    continue
                touches = recv_field(fn, n) == buf or any(this_field(fn, a) == buf for a in n.get('args', []))
                if not touches or (n.get('q', '').startswith(BS) and short(n['q']) in ('size', 'empty', 'length', 'capacity')):
                    continue
                first = n
                break
            ok = first is not None and recv_field(fn, first) == buf and first.get('q') in (BS + 'clear', BS + 'operator=', BS + 'assign')
            R.check(ok, 'B6-start-resets-buffer', key, fn.loc(first['id']) if first else fn.site,
                    '%s::%s appends to %s without resetting it first (content left behind by a geometry that ended in an exception, e.g. '
                    '"need at least two points", would be prepended to the next geometry); first operation: %s'
                    % (short(cls), mname, buf, fn.expr(first['id']) if first else 'none'))


# ================================================================================================ text back ends

TEXT_METHODS = ['make_point', 'linestring_start', 'linestring_add_location', 'linestring_finish', 'polygon_start', 'polygon_add_location',
                'polygon_finish', 'multipolygon_start', 'multipolygon_polygon_start', 'multipolygon_polygon_finish',
                'multipolygon_outer_ring_start', 'multipolygon_outer_ring_finish', 'multipolygon_inner_ring_start',
                'multipolygon_inner_ring_finish', 'multipolygon_add_location', 'multipolygon_finish']
STRING_READS = ('size', 'empty', 'length', 'capacity', 'c_str', 'data', 'back', 'front', '(dtor)', 'begin', 'end')


class _Unknown(Exception):
    pass


def _is_string_t(t):
    t = (t or '').replace('const ', '')
    return t.startswith(('std::string', 'std::basic_string<char'))


def _text_ops(fn, buf, other_fields):
    """Straight-line string transformer of one back-end method: list of ops over string objects ('field', name) / ('var', d).
       ('set', T, tokens) ('copy', T, S) ('append', T, tokens) ('point', T, prefix, infix, suffix, precision-ok)
       ('replace_last', T, ch) ('swap', A, B) ('return', T)"""
    paths = normal_paths(fn)
    if not paths:
        raise _Unknown('no normal path / loop in body')
    results = []
    for path in paths:
        ops = []
        handled = set()
        for e in path_elems(fn, path):
            n = fn.nodes[e]
            k = n.get('k')
            if k == 'decl':
                for v in n['vars']:
                    if not _is_string_t(v['tC']):
                        continue
                    i = pn(fn, v.get('init')) if isinstance(v.get('init'), int) else None
                    if i is None or (i.get('k') == 'construct' and not i.get('args')):
                        ops.append(('set', ('var', v['d']), []))
                    else:
                        s = string_of(fn, v['init'])
                        src = lvalue_key(fn, i['args'][0]) if i.get('k') == 'construct' and len(i.get('args', [])) >= 1 else lvalue_key(fn, v['init'])
                        if s is not None:
                            ops.append(('set', ('var', v['d']), list(s)))
                        elif src is not None:
                            ops.append(('copy', ('var', v['d']), src))
                        else:
                            raise _Unknown('string local %s initialised by %s' % (v['name'], fn.expr(v['init'])))
                continue
            if k == 'assign':
                l = pn(fn, n['lhs'])
                if l is not None and l.get('k') == 'call' and l.get('q') == BS + 'back' and l.get('recv') is not None:
                    T = lvalue_key(fn, l['recv'])
                    ch = char_of(fn, n['rhs'])
                    if T is None or ch is None or n.get('op') != '=':
                        raise _Unknown('assignment through back(): %s' % fn.expr(e))
                    ops.append(('replace_last', T, ch))
                    handled.add(l['id'])
                elif l is not None and _is_string_t(l.get('t')):
                    raise _Unknown('string assignment %s' % fn.expr(e))
                continue
            if k == 'return':
                if 'sub' in n:
                    T = lvalue_key(fn, n['sub'])
                    if T is None:
                        raise _Unknown('returns %s' % fn.expr(n['sub']))
                    ops.append(('return', T))
                continue
            if k != 'call' or 'q' not in n:
                continue
            q = n['q']
            if q == 'std::swap' and len(n.get('args', [])) == 2:
                A, B = lvalue_key(fn, n['args'][0]), lvalue_key(fn, n['args'][1])
                if A is None or B is None:
                    raise _Unknown('swap of %s' % fn.expr(e))
                ops.append(('swap', A, B))
                continue
            if q == COORD + '::append_to_string':
                a = n.get('args', [])
                T = lvalue_key(fn, a[0]) if a else None
                rv = local_or_param(fn, n.get('recv'))
                if T is None or rv is None or param_index(fn, rv) != 0:
                    raise _Unknown('append_to_string call %s' % fn.expr(e))
                chars = [char_of(fn, x) for x in a[1:-1]]
                if None in chars or len(chars) not in (1, 3):
                    raise _Unknown('append_to_string with non-constant delimiters: %s' % fn.expr(e))
                precf = this_field(fn, a[-1])
                pre, inf, suf = (None, chars[0], None) if len(chars) == 1 else chars
                ops.append(('point', T, pre, inf, suf, precf))
                continue
            if q.startswith(BS) and n.get('recv') is not None:
                T = lvalue_key(fn, n['recv'])
                nm = short(q)
                if T is None:
                    if nm in STRING_READS or nm == '(ctor)':
                        continue
                    raise _Unknown('string operation on %s' % fn.expr(n['recv']))
                if nm in STRING_READS:
                    continue
                if nm == 'clear':
                    ops.append(('set', T, []))
                    continue
                a = n.get('args', [])
                if nm in ('operator=', 'assign') and len(a) == 1:
                    s = string_of(fn, a[0])
                    src = lvalue_key(fn, a[0])
                    if s is not None:
                        ops.append(('set', T, list(s)))
                    elif src is not None:
                        ops.append(('copy', T, src))
                    else:
                        raise _Unknown('assignment %s' % fn.expr(e))
                    continue
                if nm in ('operator+=', 'append', 'push_back') and len(a) == 1:
                    s = string_of(fn, a[0])
                    ch = char_of(fn, a[0]) if s is None else None
                    if s is not None:
                        ops.append(('append', T, list(s)))
                    elif ch is not None:
                        ops.append(('append', T, [ch]))
                    elif lvalue_key(fn, a[0]) is not None and _is_string_t(fn.nodes.get(peel(fn, a[0]), {}).get('t')):
                        ops.append(('append_from', T, lvalue_key(fn, a[0])))
                    else:
                        raise _Unknown('append of a non-constant: %s' % fn.expr(e))
                    continue
                raise _Unknown('string operation %s' % fn.expr(e))
        results.append(ops)
    for r in results[1:]:
        if r != results[0]:
            raise _Unknown('different string operations on different paths')
    return results[0]


def _apply(ops, state, buf, tag):
    """Interpret one method's ops on the abstract buffer content.  Returns (returned token list | None).  Raises _GrammarError."""
    local = {}

    def get(T):
        if T == ('field', buf):
            return state['buf']
        if T[0] == 'field':
            return [('PFX', T[1])]
        return local.setdefault(T, [])

    def put(T, v):
        if T == ('field', buf):
            state['buf'] = v
        elif T[0] == 'field':
            raise _Unknown('write to member %s' % T[1])
        else:
            local[T] = v
    ret = None
    for op in ops:
        if op[0] == 'set':
            put(op[1], list(op[2]))
        elif op[0] == 'copy':
            put(op[1], list(get(op[2])))
        elif op[0] == 'append':
            put(op[1], get(op[1]) + list(op[2]))
        elif op[0] == 'append_from':
            put(op[1], get(op[1]) + list(get(op[2])))
        elif op[0] == 'point':
            put(op[1], get(op[1]) + [('P', op[2], op[3], op[4], tag)])
        elif op[0] == 'replace_last':
            cur = get(op[1])
            if not cur:
                raise _GrammarError('back() = %r on an empty string' % op[2])
            if cur[-1] != ',':
                raise _GrammarError('back() = %r overwrites %s, which is not a separator: content is lost' % (op[2], _show([cur[-1]])))
            put(op[1], cur[:-1] + [op[2]])
        elif op[0] == 'swap':
            a, b = get(op[1]), get(op[2])
            put(op[1], b)
            put(op[2], a)
        elif op[0] == 'return':
            ret = list(get(op[1]))
    return ret


class _GrammarError(Exception):
    pass


def _show(tokens):
    out = []
    for t in tokens:
        if isinstance(t, tuple):
            if t[0] == 'PFX':
                out.append('<srid-prefix>')
            else:
                out.append('%sx%d%sy%d%s' % (t[1] or '', t[4], t[2], t[4], t[3] or ''))
        else:
            out.append(t)
    return ''.join(out)


TEXT_FORMATS = {
    WKT: dict(open='(', close=')', leaf=(None, ' ', None), point=('(', ' ', ')'),
              head={'point': 'POINT', 'linestring': 'LINESTRING', 'polygon': 'POLYGON', 'multipolygon': 'MULTIPOLYGON'}, tail='', prefix_ok=True),
    GEOJSON: dict(open='[', close=']', leaf=('[', ',', ']'), point=('[', ',', ']'),
                  head={'point': '{"type":"Point","coordinates":', 'linestring': '{"type":"LineString","coordinates":',
                        'polygon': '{"type":"Polygon","coordinates":', 'multipolygon': '{"type":"MultiPolygon","coordinates":'}, tail='}',
                  prefix_ok=False),
}
DEPTH = {'linestring': 1, 'polygon': 2, 'multipolygon': 3}


def _parse(tokens, fmt, kind):
    """Reference grammar: [prefix] head value tail ; value = point | nested list of depth DEPTH[kind] with ',' between siblings.
    Returns the nested list of point tags.  Raises _GrammarError."""
    pos = 0
    if tokens and isinstance(tokens[0], tuple) and tokens[0][0] == 'PFX':
        if not fmt['prefix_ok']:
            raise _GrammarError('unexpected SRID prefix')
        pos = 1
    head = fmt['head'][kind]
    got = ''.join(t for t in tokens[pos:pos + len(head)] if isinstance(t, str))
    if got != head:
        raise _GrammarError('geometry starts with %r, required %r' % (_show(tokens[pos:pos + len(head)]), head))
    pos += len(head)

    def leaf(shape):
        nonlocal pos
        if pos >= len(tokens) or not (isinstance(tokens[pos], tuple) and tokens[pos][0] == 'P'):
            raise _GrammarError('expected a coordinate pair at %r' % _show(tokens[pos:pos + 6]))
        t = tokens[pos]
        if (t[1], t[2], t[3]) != shape:
            raise _GrammarError('coordinate pair written as %r, required delimiters %r' % (_show([t]), shape))
        pos += 1
        return t[4]

    def lst(depth):
        nonlocal pos
        if pos >= len(tokens) or tokens[pos] != fmt['open']:
            raise _GrammarError('expected %r at ...%s' % (fmt['open'], _show(tokens[max(0, pos - 4):pos + 4])))
        pos += 1
        items = []
        while True:
            items.append(leaf(fmt['leaf']) if depth == 1 else lst(depth - 1))
            if pos < len(tokens) and tokens[pos] == ',':
                pos += 1
                continue
            break
        if pos >= len(tokens) or tokens[pos] != fmt['close']:
            raise _GrammarError('expected %r or a separator at ...%s' % (fmt['close'], _show(tokens[max(0, pos - 6):pos + 4])))
        pos += 1
        return items
    val = leaf(fmt['point']) if kind == 'point' else lst(DEPTH[kind])
    rest = ''.join(t if isinstance(t, str) else '?' for t in tokens[pos:])
    if rest != fmt['tail']:
        raise _GrammarError('geometry ends with %r, required %r' % (_show(tokens[pos:]), fmt['tail']))
    return val


def _sequences(kind):
    """(event list, expected nested tag structure) for every protocol sequence up to the bound."""
    out = []
    if kind == 'point':
        return [([('make_point', 1)], 1)]
    if kind in ('linestring', 'polygon'):
        for k in (1, 2, 3):
            ev = [(kind + '_start', None)] + [(kind + '_add_location', i + 1) for i in range(k)] + [(kind + '_finish', None)]
            pts = [i + 1 for i in range(k)]
            out.append((ev, pts if kind == 'linestring' else [pts]))
        return out
    shapes = []
    for npoly in (1, 2):
        per_poly = list(itertools.product((0, 1, 2), repeat=npoly))
        for inner_counts in per_poly:
            for k in (1, 2):
                shapes.append((inner_counts, k))
    for inner_counts, k in shapes:
        ev = [('multipolygon_start', None)]
        expect = []
        tag = 0
        first = True
        for ni in inner_counts:
            if not first:
                ev.append(('multipolygon_polygon_finish', None))
            first = False
            ev.append(('multipolygon_polygon_start', None))
            poly = []
            for r in range(1 + ni):
                which = 'outer' if r == 0 else 'inner'
                ev.append(('multipolygon_%s_ring_start' % which, None))
                ring = []
                for _ in range(k):
                    tag += 1
                    ev.append(('multipolygon_add_location', tag))
                    ring.append(tag)
                ev.append(('multipolygon_%s_ring_finish' % which, None))
                poly.append(ring)
            expect.append(poly)
        ev.append(('multipolygon_polygon_finish', None))
        ev.append(('multipolygon_finish', None))
        out.append((ev, expect))
    return out


def text_rules(fb, R):
    for cls, fmt in TEXT_FORMATS.items():
        rec = fb.record(cls)
        if rec is None:
            R.broken('record %s not found' % cls)
            continue
        buf = _buffer_field(fb, cls)
        if buf is None:
            R.broken('%s: cannot identify the accumulation buffer member' % cls)
            continue
        other = [f['name'] for f in rec.fields if _is_string_t(f['tC']) and f['name'] != buf]
        ops = {}
        broken = False
        for m in TEXT_METHODS:
            fn = _method(fb, cls, m)
            if fn is None:
                R.bad('S1-text-nesting-grammar', '%s#%s' % (cls, m.split('_')[0] if not m.startswith('make') else 'point'), cls, 'method %s not found' % m)
                broken = True
                continue
            try:
                ops[m] = _text_ops(fn, buf, other)
            except _Unknown as e:
                R.broken('%s::%s: string transformer not understood: %s' % (cls, m, e))
                broken = True
        if broken:
            continue
        # precision member
        precs = {op[5] for m in ops.values() for op in m if op[0] == 'point'}
        intf = [f['name'] for f in rec.fields if f['tC'] == 'int']
        ctor_ok = False
        for c in fb.fns(cls + '::(ctor)'):
            for n in c.all_nodes():
                if n.get('k') == 'init' and n.get('name') in precs and local_or_param(c, n.get('init')) is not None \
                        and param_index(c, local_or_param(c, n['init'])) is not None:
                    ctor_ok = True
        R.check(len(precs) == 1 and None not in precs and precs <= set(intf) and ctor_ok, 'S1-text-nesting-grammar', cls + '#precision-member',
                '%s:%d' % (rec.file, rec.line),
                'every coordinate must be formatted with the precision member that the constructor fills from its parameter; found %s' % sorted(map(str, precs)))
        for kind in ('point', 'linestring', 'polygon', 'multipolygon'):
            key = '%s#%s' % (cls, kind)
            err = None
            nseq = 0
            for (events, expect) in _sequences(kind):
                nseq += 1
                state = {'buf': []}
                ret = None
                try:
                    # a previous geometry that ended in an exception leaves content behind: start from a dirty buffer as well
                    for dirty in ([], ['#', ',']) if kind != 'point' else ([],):
                        state['buf'] = list(dirty)
                        for (m, tag) in events:
                            ret = _apply(ops[m], state, buf, tag)
                        if ret is None:
                            raise _GrammarError('the finishing method returns nothing')
                        got = _parse(ret, fmt, kind)
                        if got != expect:
                            raise _GrammarError('structure %r was fed in but the text encodes %r' % (expect, got))
                        if state['buf']:
                            raise _GrammarError('finish leaves %r in %s' % (_show(state['buf']), buf))
                except _GrammarError as e:
                    err = '%s; events %s produce %r' % (e, ' '.join(m.replace('multipolygon_', 'mp_') for (m, _t) in events), _show(ret or state['buf']))
                    break
                except _Unknown as e:
                    R.broken('%s: %s' % (key, e))
                    break
            fn0 = _method(fb, cls, 'make_point' if kind == 'point' else kind + '_start')
            R.check(err is None, 'S1-text-nesting-grammar', key, fn0.site if fn0 else cls, err or '', detail='%d protocol sequences composed and parsed' % nseq)


# ================================================================================================ hex, snprintf

def _eval_int(fn, nid, env):
    """Evaluate an integer expression over env {decl: value} with C semantics for the operators used by convert_to_hex."""
    n = fn.nodes.get(nid)
    if n is None:
        raise _Unknown('missing node')
    k = n.get('k')
    if k in ('wrap', 'icast'):
        v = _eval_int(fn, n['sub'], env)
        t = n.get('t', '')
        if t == 'unsigned int':
            return v & 0xffffffff
        return v
    if k == 'cast':
        v = _eval_int(fn, n['sub'], env)
        if n.get('toC') == 'unsigned int':
            return v & 0xffffffff
        if n.get('toC') == 'unsigned char':
            return v & 0xff
        raise _Unknown('cast to %s' % n.get('toC'))
    if k == 'lit' and 'cv' in n:
        return int(n['cv'])
    if k == 'var' and n.get('d') in env:
        return env[n['d']]
    if k == 'binop' and n.get('op') in ('>>', '&', '<<', '|', '+', '-', '%', '/'):
        a, b = _eval_int(fn, n['lhs'], env), _eval_int(fn, n['rhs'], env)
        return {'>>': lambda: a >> b, '&': lambda: a & b, '<<': lambda: (a << b) & 0xffffffff, '|': lambda: a | b, '+': lambda: a + b,
                '-': lambda: a - b, '%': lambda: a % b, '/': lambda: a // b}[n['op']]()
    raise _Unknown('expression %s' % fn.expr(nid))


def hex_rules(fb, R):
    q = 'osmium::geom::detail::convert_to_hex'
    key = q + '#nibbles'
    fns = fb.fns(q)
    if not fns:
        R.bad('H1-hex-encoding', key, q, '%s not found' % q)
    for fn in fns:
        msg = None
        tables = {}
        for n in fn.all_nodes():
            if n.get('k') == 'decl':
                for v in n['vars']:
                    s = string_of(fn, v.get('init')) if isinstance(v.get('init'), int) else None
                    if s is not None:
                        tables[v['d']] = s
        rets = [n for n in fn.all_nodes() if n.get('k') == 'return']
        outd = {local_or_param(fn, r.get('sub')) for r in rets}
        appends = [n for n in fn.all_nodes() if n.get('k') == 'call' and n.get('q') in (BS + 'operator+=', BS + 'push_back') and n.get('recv') is not None
                   and local_or_param(fn, n['recv']) in outd]
        appends.sort(key=lambda n: n['id'])
        if len(fn.loops) != 1 or fn.loops[0]['cls'] != 'CXXForRangeStmt' or len(outd) != 1:
            msg = 'expected one range-for over the input and one result string'
        elif len(appends) != 2 or not fn.elem_dominates(appends[0]['id'], appends[1]['id']):
            msg = 'expected exactly two appends per input byte'
        else:
            rng = [v for n in fn.all_nodes() if n.get('k') == 'decl' for v in n['vars'] if v['name'].startswith('__range')]
            if not rng or local_or_param(fn, rng[0].get('init')) != fn.params[0]['d']:
                msg = 'the loop does not run over the parameter'
            elem = [v for n in fn.all_nodes() if n.get('k') == 'decl' and fn.in_range(n['id'], fn.loops[0]['b'], fn.loops[0]['e']) for v in n['vars']
                    if not v['name'].startswith('__')]
            if msg is None and len(elem) != 1:
                msg = 'cannot identify the loop element'
            if msg is None:
                ed = elem[0]['d']
                want = [lambda c: (c & 0xff) >> 4, lambda c: c & 0xf]
                for ap, w in zip(appends, want):
                    ix = pn(fn, ap['args'][0])
                    if ix is None or ix.get('k') != 'index' or local_or_param(fn, ix.get('base')) not in tables:
                        msg = 'appended value is not an element of the digit table'
                        break
                    tab = tables[local_or_param(fn, ix['base'])]
                    if len(tab) != 16 or any(int(ch, 16) != i for i, ch in enumerate(tab) if ch in '0123456789abcdefABCDEF') or any(ch not in '0123456789abcdefABCDEF' for ch in tab):
                        msg = 'digit table %r is not the 16 hexadecimal digits in order' % tab
                        break
                    try:
                        for c in range(-128, 256):
                            if _eval_int(fn, ix['idx'], {ed: c}) != w(c):
                                msg = 'for byte value %d the %s digit index is %d, required %d' % (c & 0xff, 'first' if w is want[0] else 'second',
                                                                                                 _eval_int(fn, ix['idx'], {ed: c}), w(c))
                                break
                    except _Unknown as e:
                        R.broken('%s: index expression not understood: %s' % (q, e))
                        return
                    if msg:
                        break
        R.check(msg is None, 'H1-hex-encoding', key, fn.site, 'convert_to_hex: %s' % msg, detail='both digit indices evaluated for all byte values')


def snprintf_rules(fb, R):
    q = 'osmium::double2string'
    key = q + '#snprintf-result'
    fns = [f for f in fb.fns(q) if any(n.get('k') == 'call' and (n.get('q') or n.get('name')) in ('snprintf', 'std::snprintf', '_snprintf')
                                       for n in f.all_nodes())]
    if not fns:
        R.bad('N1-snprintf-length-bounded', key, q, 'no double2string body that calls snprintf was found')
    for fn in fns:
        calls = [n for n in fn.all_nodes() if n.get('k') == 'call' and (n.get('q') or n.get('name')) in ('snprintf', 'std::snprintf', '_snprintf')]
        for c in calls:
            a = c.get('args', [])
            bd = local_or_param(fn, a[0]) if a else None
            dn, dv = decl_of(fn, bd) if bd is not None else (None, None)
            size = fn.const_value(a[1]) if len(a) > 1 else None
            arr = None
            if dv is not None and dv['tC'].startswith('char[') and dv['tC'].endswith(']'):
                try:
                    arr = int(dv['tC'][5:-1])
                except ValueError:
                    arr = None
            if arr is None or size is None:
                R.broken('%s: snprintf buffer / size argument not understood' % fn.full)
                continue
            R.check(size <= arr, 'N1-snprintf-length-bounded', q + '#size-arg-within-buffer', fn.loc(c['id']),
                    'snprintf is told the buffer has %d bytes but it has %d' % (size, arr))
            # the result variable
            pm = fn.parent_map()
            ld = None
            for n in fn.all_nodes():
                if n.get('k') == 'decl':
                    for v in n['vars']:
                        if isinstance(v.get('init'), int) and peel(fn, v['init']) == c['id']:
                            ld = v['d']
            if ld is None:
                R.bad('N1-snprintf-length-bounded', key, fn.loc(c['id']), 'the result of snprintf (number of characters needed) is discarded')
                continue
            uses = []
            for n in fn.all_nodes():
                if n.get('k') == 'index' and any(fn.nodes[x].get('k') == 'var' and fn.nodes[x].get('d') == ld for x in fn.subtree(n['idx'])):
                    uses.append(n)
                if n.get('k') == 'call' and n.get('q') in ('std::copy_n', 'std::copy', 'memcpy', 'std::memcpy') and \
                        any(local_or_param(fn, x) == ld for x in n.get('args', [])):
                    uses.append(n)
            badu = None
            for u in uses:
                rel = [(g, s, b) for (g, s, b) in guards_of(fn, u['id'])
                       if any(fn.nodes[x].get('k') == 'var' and fn.nodes[x].get('d') == ld for x in fn.subtree(g)) and
                       not any(fn.nodes[x].get('k') == 'index' for x in fn.subtree(g))]

                def atoms(f, n, ld=ld):
                    if n.get('k') == 'var' and n.get('d') == ld:
                        return ('n', OT.INT32)
                    return None
                try:
                    progs = [(OT.compile_expression(fb, fn, g, atoms), s) for (g, s, _b) in rel]
                except OT.Inexact:
                    progs = []
                consts = {0, 1, size, size - 1}
                for p, _s in progs:
                    consts |= set(p.consts)
                implied = bool(progs)
                for w in OT.worlds({'n': OT.INT32}, consts):
                    if all(OT.run(p, w).as_bool() == bool(s) for (p, s) in progs) and not (w.gt('n', 0) and w.lt('n', size)):
                        implied = False
                if not implied:
                    badu = u
                    break
            R.check(badu is None and bool(uses), 'N1-snprintf-length-bounded', key, fn.loc(badu['id']) if badu else fn.loc(c['id']),
                    'the value returned by snprintf is used as index / byte count (`%s`) without a test that it is > 0 and < %d that survives '
                    'in this configuration: a number that needs %d or more characters is truncated and the buffer is read past its end'
                    % (fn.expr(badu['id'])[:60] if badu else '', size, size),
                    detail='%d uses of the snprintf result, all dominated by 0 < len < %d' % (len(uses), size))


def trim_rules(fb, R):
    q = 'osmium::double2string'
    key = q + '#zero-trim-only-after-decimal-point'
    fns = [f for f in fb.fns(q) if f.loops]
    if not fns:
        R.bad('N2-zero-trim-needs-fraction', key, q, 'no double2string body with a trimming loop was found')
    for fn in fns:
        prec = next((p['d'] for p in fn.params if p['tC'] == 'int'), None)
        found = False
        for lp in fn.loops:
            hb = loop_header_block(fn, lp)
            if hb is None:
                continue
            c = fn.blocks[hb]['cond']
            cn = pn(fn, c)
            # condition compares a buffer character with '0'
            conj = []

            def split(x):
                n = pn(fn, x)
                if n is not None and n.get('k') == 'binop' and n.get('op') == '&&':
                    split(n['lhs'])
                    split(n['rhs'])
                else:
                    conj.append(x)
            split(c)
            zero_cmp = [x for x in conj if (pn(fn, x) or {}).get('k') == 'binop' and pn(fn, x).get('op') == '==' and
                        {char_of(fn, pn(fn, x)['lhs']), char_of(fn, pn(fn, x)['rhs'])} & {'0'} and
                        any(fn.nodes[y].get('k') == 'index' for y in fn.subtree(x))]
            if not zero_cmp:
                continue
            found = True
            others = [x for x in conj if x not in zero_cmp] + [g for (g, s_, _b) in guards_of(fn, c) if not fn.in_range(g, lp['b'], lp['e'])]

            def mentions_fraction(x):
                for y in fn.subtree(x):
                    ny = fn.nodes[y]
                    if ny.get('k') == 'var' and ny.get('d') == prec:
                        return True
                    if char_of(fn, y) == '.' and ny.get('k') == 'lit':
                        return True
                return False
            R.check(any(mentions_fraction(x) for x in others), 'N2-zero-trim-needs-fraction', key, fn.loc(c),
                    'trailing \'0\' characters are stripped without any test that the text has a fractional part (precision > 0 / a \'.\' was '
                    'written): with precision 0 the integer digits are stripped, double2string(s, 10.0, 0) yields "1", 0.0 reads buffer[-1]')
        if not found:
            R.broken('%s: trailing-zero trimming loop not recognised' % fn.full)


def backend_rules(fb, R):
    accessor_rules(fb, R)
    wkb_rules(fb, R)
    reset_rules(fb, R)
    text_rules(fb, R)
    hex_rules(fb, R)
    snprintf_rules(fb, R)
    trim_rules(fb, R)


# ================================================================================================ run
def factory_rules(fb, R):
    fill_rules(fb, R)
    wrapper_rules(fb, R)
    protocol_rules(fb, R)
    dispatch_rules(fb, R)
    threshold_rules(fb, R)


def run(ctx):
    R = ctx.R
    configs = ['ndebug14'] if ctx.tier == 'quick' else ['ndebug14', 'debug14', 'ndebug17', 'debug17']
    for cfg in configs:
        fb = ctx.facts(['geom'], cfg)
        factory_rules(fb, R)
        backend_rules(fb, R)
    # instance floors, each confirmed by reading the tree (see the module docstring for what an instance is)
    R.expect('E1-count-equals-emits', 4)                  # the four fill_* functions
    R.expect('E2-emits-current-element', 5)               # + add_points
    R.expect('E3-skip-only-consecutive-duplicates', 13)   # 5 skip-guard + 5 one-emit-per-element + 3 compares-with-last-emitted
    R.expect('E4-first-element-never-skipped', 3)         # the three duplicate filters
    R.expect('W1-wrapper-forwards', 4)
    R.expect('T1-create-protocol', 5)                     # 3 protocols + 2 Way overloads
    R.expect('D1-direction-and-uniqueness-dispatch', 8)   # 2 geometries x 2 x 2
    R.expect('D2-reverse-iterators', 2)
    R.expect('G1-degenerate-threshold', 6)                # 3 thresholds + 3 "rejecting edge throws"
    R.expect('P1-checked-accessors', 6)                   # 2 projections, 2 Coordinates ctors, lon, lat
    R.expect('X1-axis-order', 6)                          # 4 WKB encoders + 2 append_to_string overloads
    R.expect('B1-backpatch-offset-pairing', 6)            # the 6 WKB levels
    R.expect('B2-backpatch-counter', 6)
    R.expect('B3-nested-slots-distinct', 2)
    R.expect('B4-set_size-patches-uint32', 3)
    R.expect('B5-header-layout', 8)                       # layout, enum table, 5 users, polygon ring count
    R.expect('B6-start-resets-buffer', 9)                 # 3 back ends x 3 top level starts
    R.expect('B7-patch-before-handover', 7)               # 3 finishes + 4 hex/binary returns
    R.expect('S1-text-nesting-grammar', 10)               # 2 formats x (4 geometries + precision member)
    R.expect('H1-hex-encoding', 1)
    R.expect('N1-snprintf-length-bounded', 2)
    R.expect('N2-zero-trim-needs-fraction', 1)


def _st_factory(fb, R):
    factory_rules(fb, R)


def _st_backend(fb, R):
    backend_rules(fb, R)


SELFTESTS = [(r, 'c17_geom.cpp', _st_factory) for r in (
    'E1-count-equals-emits', 'E2-emits-current-element', 'E3-skip-only-consecutive-duplicates', 'E4-first-element-never-skipped',
    'W1-wrapper-forwards', 'T1-create-protocol',
    'D1-direction-and-uniqueness-dispatch', 'D2-reverse-iterators', 'G1-degenerate-threshold')] + [(r, 'c17_geom.cpp', _st_backend) for r in (
        'P1-checked-accessors', 'X1-axis-order', 'B1-backpatch-offset-pairing', 'B2-backpatch-counter', 'B3-nested-slots-distinct',
        'B4-set_size-patches-uint32', 'B5-header-layout', 'B6-start-resets-buffer', 'B7-patch-before-handover', 'S1-text-nesting-grammar',
        'H1-hex-encoding', 'N1-snprintf-length-bounded', 'N2-zero-trim-needs-fraction')]
