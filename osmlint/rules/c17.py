"""C17 -- geometry exports encode exactly the object's coordinates (PAIR + ORDERTYPE + sibling agreement).

Everything is decided from the fact base (resolved callees, CFG paths, dominance, constants); no libosmium code is run.
Instances are keyed by what the property REQUIRES (the protocol level, the (unique, direction) combination, the encoder
method), so a construct that was deleted shows up as a violated instance, not as a missing one.

GeometryFactory<TGeomImpl, TProjection> (every instantiation of drivers/geom.cpp: 3 back ends x 2 projections x 2 iterator kinds)
 E1-count-equals-emits       fill_linestring / fill_linestring_unique / fill_polygon / fill_polygon_unique: on every CFG
        path the number of `*_add_location` calls equals the number of increments of the returned counter (bounded
        integer-delta dataflow, must be exactly {0} at every return); the counter starts at the constant 0 and is only
        ever incremented.
 E2-emits-current-element    in those four and in add_points: the emitted value is m_projection(L) where L is the current
        element's location (`it->location()` directly, or a local whose only reaching definition is `local = it->location()`
        in the same iteration), and the back-end method is the one of the geometry kind being built.
 E3-skip-only-consecutive-duplicates   "all" mode: no path through one loop iteration avoids the emit.  "unique" mode
        (`*_unique`, add_points): the only edge that skips the emit is the equal-edge of a comparison between the current
        location and the local that holds the location emitted last; that local is written nowhere else in the loop.
 E4-first-element-never-skipped   the duplicate test must not be able to drop the FIRST element: a sentinel that is a
        default-constructed (= undefined) osmium::Location compares equal to an undefined first location.   FIRES on
        today's tree (3 instances, see KNOWN).
 W1-wrapper-forwards         linestring_start/finish, polygon_start/finish call the same-named back-end method exactly
        once on every path, pass their parameter on and return its result.
 T1-create-protocol          create_linestring / create_polygon / create_multipolygon drive the back end through the
        protocol automaton  start (add_location)* finish  resp.  multipolygon_start ( polygon_start outer_ring_start add*
        outer_ring_finish ( inner_ring_start add* inner_ring_finish )* polygon_finish )+ multipolygon_finish  on every normal
        CFG path (abstract interpretation of the CFG over protocol state x {0, >=1} values of the local counters, so the
        `num_polygons > 0` / `num_rings == 0` branches are followed exactly); the count handed to `*_finish` is the value
        returned by the fill call of that path; the returned object is the result of the finish call; a geometry_error is
        thrown only while no ring has been emitted.
 D1-direction-and-uniqueness-dispatch   for each of the 8 required combinations {linestring, polygon} x {unique, all} x
        {forward, backward} there is a call site, reached exactly under that combination of the `un` / `dir` parameters,
        that calls the `_unique` variant iff unique and passes (c)begin/(c)end resp. (c)rbegin/(c)rend -- in that order --
        of the SAME list.
 D2-reverse-iterators        NodeRefList::crbegin wraps cend(), crend wraps cbegin().
 G1-degenerate-threshold     the finish call is reached iff counter >= 2 (linestring) / >= 4 (polygon) -- decided for all
        2^64 counter values by the ORDERTYPE engine on the guard conditions -- and the failing edge throws a
        geometry_error; create_multipolygon throws geometry_error iff its ring counter == 0.
 P1-checked-accessors        IdentityProjection / MercatorProjection::operator() and Coordinates(Location) read the location
        only through Location::lon() / lat() (x from lon, y from lat); lon()/lat() return only when valid() held and throw
        invalid_location otherwise.
Back ends
 X1-axis-order               every WKB encoder of a Coordinates pushes exactly two doubles, .x then .y of its parameter;
        Coordinates::append_to_string writes x, infix, y.
 B1-backpatch-offset-pairing for each of the 6 WKB levels (linestring, polygon, multipolygon, multipolygon_polygon,
        multipolygon_outer_ring, multipolygon_inner_ring) the start method stores the position of a 4-byte zero count
        placeholder in a member and the matching finish passes exactly that member to set_size, once, on every path.
 B2-backpatch-counter        the count passed is the finish parameter (linestring, polygon) or a member that the level's
        start resets to 0, that each child event increments exactly once, and that nothing else writes.
 B3-nested-slots-distinct    offset (and counter) members of levels that are open at the same time are distinct.
 B4-set_size-patches-uint32  set_size range-checks against UINT32_MAX (throws geometry_error) and copies sizeof(uint32_t)
        bytes of the narrowed value to &m_data[offset].
 B5-header-layout            header(): byte order, type (| SRID flag + srid for EWKB) are pushed before the returned offset
        is taken, the offset is str.size(), and the only push after it is the uint32 zero under `add_length`; every
        header(..., true) result is stored or patched; geometry type constants follow the OGC table.
 B6-start-resets-buffer      the three top level start methods of every back end reset the accumulation buffer (clear /
        assignment) before appending (an exception between start and finish leaves stale content behind).
 B7-patch-before-handover    WKB finish: set_size precedes the swap that hands m_data over; hex output iff out_type::hex.
 S1-text-nesting-grammar     WKT and GeoJSON: the string transformers of all 13 back-end methods are extracted from the
        CFG (assign / append literal / append_to_string / back() = c / swap / return) and composed along every protocol
        sequence up to 2 polygons x 2 inner rings x 2 points; the resulting token string must parse, with an independent
        reference grammar, into exactly the nested structure that was fed in (brackets balanced, one separator between
        siblings, none dangling, the right geometry keyword, precision taken from m_precision).
 H1-hex-encoding             convert_to_hex appends lookup[(c >> 4) & 15] then lookup[c & 15] for all 256 byte values and
        the lookup table is "0123456789ABCDEF".
 N1-snprintf-length-bounded  double2string: the value returned by snprintf is used as index / count only where a test
        against the buffer size dominates the use.   FIRES on today's tree under NDEBUG (see KNOWN).

Not decided (left to other technique families): numeric exactness of snprintf("%.*f") and of the zero trimming as values;
that an independent WKB/WKT/GeoJSON decoder of a real library accepts the bytes (the reference grammar in this file is the
frozen OGC / RFC 7946 shape); agreement of the three encodings as values; projection accuracy (C18).
"""
import itertools

from .. import ordertype as OT
from ..c17_util import (POS, TOP, ZERO, abs_cond, address_taken, char_of, decl_of, delta_states, exit_t, is_abort_block, block_throws,
                        is_this, local_or_param, loop_header_block, loop_of, lvalue_key, normal_paths, param_index, path_elems, peel,
                        pn, recv_field, short, string_of, this_field, writes)
from ..flow import describe_path, guards_of, path_search

EXPLANATION = (
    'Decided: count/emit agreement of the fill functions on every CFG path; emitted value = projection of the current element; '
    'duplicate suppression skips only consecutive equal locations; protocol automaton of create_linestring/polygon/multipolygon on '
    'every normal path incl. exact handling of the counter branches; (unique, direction) dispatch table; degenerate thresholds '
    '(<2, <4, ==0 -> geometry_error) for all counter values via order types; checked lon()/lat() accessors in both projections; '
    'WKB back-patching (offset member pairing, counters, nested slots, header layout, set_size), buffer reset, axis order, hex '
    'nibbles; WKT/GeoJSON nesting grammar by composing the extracted string transformers over all protocol sequences up to '
    '2x2x2; snprintf length use. NOT decided: numeric exactness of number formatting as values, acceptance by third-party '
    'decoders, value-level agreement of the three encodings, projection accuracy.')
ASSUMPTIONS = [
    'an osmium::Area lists each inner ring after its outer ring (builder invariant; the property quantifies over such areas)',
    'std::string append / back / swap / clear / size and std::copy_n behave per the standard',
    'WKT / GeoJSON / WKB shapes (OGC 99-049, RFC 7946) are the frozen reference tables in this module',
    'the instantiations in drivers/geom.cpp (WKB, WKT, GeoJSON x Identity, Mercator x pointer, reverse iterator) cover the library\'s own uses',
]

# Genuine defects of the unchanged tree found by these rules: (rule, key, explanation).  Reported with R.bad as usual.
KNOWN = [
    ('E4-first-element-never-skipped', 'osmium::geom::GeometryFactory::fill_linestring_unique#sentinel',
     'The duplicate filter compares every element with `last_location`, which starts as a default-constructed (undefined) Location. '
     'A way whose FIRST node has an undefined location followed by >= 2 valid distinct ones, e.g. locations [undefined, (1,1), (2,2)], '
     'gives create_linestring(way, use_nodes::unique) == LINESTRING(1 1,2 2) without any error, while use_nodes::all (and an undefined '
     'location at any later position) throws osmium::invalid_location.  Property: undefined locations at any position are rejected.'),
    ('E4-first-element-never-skipped', 'osmium::geom::GeometryFactory::fill_polygon_unique#sentinel',
     'Same sentinel: create_polygon(way) with locations [undefined, A, B, C, A] returns POLYGON((A,B,C,A)) instead of throwing.'),
    ('E4-first-element-never-skipped', 'osmium::geom::GeometryFactory::add_points#sentinel',
     'Same sentinel in the ring loop of create_multipolygon: a ring whose first node reference has an undefined location is exported '
     'without that node and without an error.'),
    ('N1-snprintf-length-bounded', 'osmium::util::double2string#snprintf-result',
     'double2string formats into char buffer[20] and uses the snprintf result `len` as index and copy count; the only test is an '
     'assert.  With NDEBUG, double2string(out, -20037508.34, 10) (a Web-Mercator x at lon -180 with precision 10, i.e. '
     'WKTFactory<MercatorProjection>{10}) needs 20 characters + NUL: snprintf returns 20, the text is truncated, buffer[19] is the NUL '
     'and 20 bytes including the NUL are appended ("-20037508.340000000\\0" instead of "-20037508.34").  Precision 17 returns 27: '
     'buffer[26] and copy_n(buffer, 27) read past the 20 byte stack buffer.  Property: numbers exact for every magnitude a projection '
     'can produce at precision 0..17.'),
]

GF = 'osmium::geom::GeometryFactory'
LOC = 'osmium::Location'
NODEREF_LOCATION = 'osmium::NodeRef::location'
GEOM_ERROR = 'osmium::geometry_error'
FILLS = {
    # function -> (unique?, back-end emit method, geometry kind)
    'fill_linestring': (False, 'linestring_add_location', 'linestring'),
    'fill_linestring_unique': (True, 'linestring_add_location', 'linestring'),
    'fill_polygon': (False, 'polygon_add_location', 'polygon'),
    'fill_polygon_unique': (True, 'polygon_add_location', 'polygon'),
    'add_points': (True, 'multipolygon_add_location', 'multipolygon'),
}


# ================================================================================================ factory helpers

class Fac:
    """Field roles of one GeometryFactory instantiation: which member is the back end, which the projection."""

    def __init__(self, fb, fn):
        self.ok = False
        targs = fn.cls_targs or []
        if len(targs) < 2:
            return
        self.impl_t, self.proj_t = targs[0], targs[1]
        rec = next((r for r in fb.records_named(GF) if r.full == fn.clsT), None)
        if rec is None:
            return
        self.impl = next((f['name'] for f in rec.fields if f['tC'] == self.impl_t), None)
        self.proj = next((f['name'] for f in rec.fields if f['tC'] == self.proj_t), None)
        self.ok = self.impl is not None and self.proj is not None


def impl_call(fn, F, n):
    """back-end method name if node n is a call on this->m_impl."""
    if n.get('k') == 'call' and 'q' in n and recv_field(fn, n) == F.impl:
        return short(n['q'])
    return None


def self_call(fn, n):
    """method name if node n is a call of another GeometryFactory member on *this."""
    if n.get('k') == 'call' and n.get('q', '').startswith(GF + '::') and n.get('recv') is not None and is_this(fn, n['recv']):
        return short(n['q'])
    return None


def proj_call_arg(fn, F, nid):
    """If the peeled expression is this->m_projection(x): the id of x, else None."""
    n = pn(fn, nid)
    if n is not None and n.get('k') == 'call' and n.get('op') == '()' and recv_field(fn, n) == F.proj and len(n.get('args', [])) == 1:
        return n['args'][0]
    return None


def gf_methods(fb, name):
    return [f for f in fb.fns(GF + '::' + name) if f.has_cfg and not f.is_lambda]


# ================================================================================================ fill loops

class FillShape:
    """Structural reading of one fill_* / add_points body."""

    def __init__(self, fb, fn, F):
        self.fn = fn
        self.err = None
        self.emits = [n for n in fn.all_nodes() if (impl_call(fn, F, n) or '').endswith('_add_location')]
        self.elem_roots = set()       # decl ids whose ->location() is "the current element's location"
        self.step_nodes = []          # iterator increments
        self.loop = None
        if len(fn.loops) != 1:
            self.err = 'expected exactly one loop, found %d' % len(fn.loops)
            return
        self.loop = fn.loops[0]
        self.header = loop_header_block(fn, self.loop)
        if self.header is None:
            self.err = 'cannot find the loop condition block'
            return
        if self.loop['cls'] == 'CXXForRangeStmt':
            # element variable: declared from *__begin; the range must be the function's (only) list parameter
            begin = rng = None
            for n in fn.all_nodes():
                if n.get('k') == 'decl':
                    for v in n['vars']:
                        if v['name'].startswith('__begin'):
                            begin = v['d']
                        if v['name'].startswith('__range'):
                            rng = v
            if begin is None or rng is None or local_or_param(fn, rng.get('init')) != (fn.params[0]['d'] if fn.params else None):
                self.err = 'range-for does not iterate over the list parameter'
                return
            for n in fn.all_nodes():
                if n.get('k') == 'decl' and fn.in_range(n['id'], self.loop['b'], self.loop['e']):
                    for v in n['vars']:
                        i = pn(fn, v.get('init'))
                        if i is not None and ((i.get('k') == 'unop' and i.get('op') == '*') or (i.get('k') == 'call' and i.get('op') == '*')):
                            src = i.get('sub', i.get('recv'))
                            if local_or_param(fn, src) == begin:
                                self.elem_roots.add(v['d'])
            self.step_nodes = [w[0] for w in writes(fn) if w[1] == ('var', begin) and w[2] == 'inc']
        else:
            if len(fn.params) != 2:
                self.err = 'expected (it, end) parameters'
                return
            it, end = fn.params[0]['d'], fn.params[1]['d']
            c = pn(fn, fn.blocks[self.header]['cond'])
            ops = []
            if c is not None and c.get('k') == 'binop':
                ops = [c['lhs'], c['rhs']]
            elif c is not None and c.get('k') == 'call' and c.get('op') == '!=':
                ops = list(c.get('args', []))
                if c.get('recv') is not None:
                    ops = [c['recv']] + ops
            if c is None or c.get('op') != '!=' or sorted(local_or_param(fn, o) or -1 for o in ops) != sorted([it, end]):
                self.err = 'loop condition is not `it != end` over the two parameters'
                return
            self.elem_roots.add(it)
            ws = [w for w in writes(fn) if w[1] == ('var', it)]
            if any(w[2] != 'inc' for w in ws) or any(w[1] == ('var', end) for w in writes(fn)):
                self.err = 'iterator parameters are modified other than by ++it'
                return
            self.step_nodes = [w[0] for w in ws]
        if not self.step_nodes:
            self.err = 'no iterator increment found'
        self.step_ids = {n['id'] for n in self.step_nodes}
        self.body_entry = fn.blocks[self.header]['succs'][0]

    def cur_loc(self, nid):
        """peeled expression is <current element>.location()"""
        fn = self.fn
        n = pn(fn, nid)
        if n is None or n.get('k') != 'call' or n.get('q') != NODEREF_LOCATION or n.get('recv') is None:
            return False
        rv = fn.root_var(n['recv'])
        return rv is not None and rv[0] == 'var' and rv[1] in self.elem_roots


def fill_rules(fb, R):
    for name, (unique, emit_name, _kind) in FILLS.items():
        fns = gf_methods(fb, name)
        q = GF + '::' + name
        if not fns:
            R.broken('%s: no instantiated body found' % q)
            continue
        for fn in fns:
            F = Fac(fb, fn)
            if not F.ok:
                R.broken('%s: cannot identify back-end / projection members of %s' % (q, fn.clsT))
                continue
            S = FillShape(fb, fn, F)
            if S.err:
                R.broken('%s: %s' % (fn.full, S.err))
                continue
            _fill_one(fb, R, fn, F, S, name, unique, emit_name, q)


def _fill_one(fb, R, fn, F, S, name, unique, emit_name, q):
    emits = S.emits
    emit_ids = {n['id'] for n in emits}
    site = fn.site

    # ---------------------------------------------------------------- E1 count == emits (functions that return the count)
    if name != 'add_points':
        rets = [n for n in fn.all_nodes() if n.get('k') == 'return']
        cds = {local_or_param(fn, r.get('sub')) for r in rets} if rets else {None}
        key = q + '#count==emits'
        if len(cds) != 1 or None in cds:
            R.bad('E1-count-equals-emits', key, site, 'the function does not return one local counter variable on every path')
        else:
            cd = cds.pop()
            dn, dv = decl_of(fn, cd)
            ws = [w for w in writes(fn) if w[1] == ('var', cd)]
            okinit = dv is not None and isinstance(dv.get('init'), int) and fn.const_value(dv['init']) == 0
            okw = all(w[2] == 'inc' or (w[2] == 'compound' and w[0].get('op') == '+=' and fn.const_value(w[3]) == 1) for w in ws) \
                and not address_taken(fn, ('var', cd))
            incs = {w[0]['id'] for w in ws}
            if not okinit or not okw:
                R.bad('E1-count-equals-emits', key, site,
                      'the returned counter %s must start at the constant 0 and only ever be incremented by one' % (dv['name'] if dv else '?'))
            else:
                st = delta_states(fn, lambda n: (1 if n['id'] in emit_ids else 0) - (1 if n['id'] in incs else 0))
                bad = None
                for r in rets:
                    s = st.get(r['id'])
                    if s is None or s != frozenset([0]):
                        bad = (r, s)
                if bad is None and not emits:
                    bad = (rets[0], 'no emit')
                R.check(bad is None, 'E1-count-equals-emits', key, site if bad is None else fn.loc(bad[0]['id']),
                        'on some path the number of %s calls differs from the number of increments of the returned counter %s '
                        '(emits - increments can be %s at the return; >=3 means unbounded): the count handed to %s_finish would not match the '
                        'encoded points' % (emit_name, dv['name'], sorted(bad[1]) if bad and not isinstance(bad[1], str) and bad[1] else bad and bad[1],
                                            FILLS[name][2]),
                        detail='%d emit site(s), %d increment site(s), delta {0} at every return' % (len(emits), len(incs)))

    # ---------------------------------------------------------------- E2 emitted value is the current element, right back-end method
    key = q + '#emit-arg'
    if not emits:
        R.bad('E2-emits-current-element', key, site, 'no call of the back end\'s %s found: nothing is emitted' % emit_name)
    sentinel = None      # decl id of the "last location" local, when the emit goes through one
    for e in emits:
        msg = None
        if short(e['q']) != emit_name:
            msg = '%s emits through %s, required is %s' % (name, short(e['q']), emit_name)
        x = proj_call_arg(fn, F, e['args'][0]) if len(e.get('args', [])) == 1 else None
        if msg is None and x is None:
            msg = 'the emitted value is not %s(<location>) of this factory' % F.proj
        if msg is None and not S.cur_loc(x):
            d = local_or_param(fn, x)
            dn, dv = decl_of(fn, d) if d is not None else (None, None)
            if dv is None:
                msg = 'the projected value is neither the current element\'s location() nor a local holding it'
            else:
                defs = [w for w in writes(fn) if w[1] == ('var', d)]
                good = [w for w in defs if w[2] in ('opassign', 'assign') and S.cur_loc(w[3])]
                if len(defs) != len(good) or not good or address_taken(fn, ('var', d)):
                    msg = 'local %s is written by something other than `%s = <current element>.location()`' % (dv['name'], dv['name'])
                elif not any(fn.elem_dominates(w[0]['id'], e['id']) and fn.in_range(w[0]['id'], S.loop['b'], S.loop['e'])
                             and S.header in fn.dominators().get(fn.positions()[w[0]['id']][0], ()) for w in good):
                    msg = ('the emit projects local %s, but no assignment `%s = <current element>.location()` of the same iteration dominates it '
                           '(the previous element would be emitted)' % (dv['name'], dv['name']))
                else:
                    sentinel = d
        R.check(msg is None, 'E2-emits-current-element', key, fn.loc(e['id']), msg or '',
                detail='%s(%s(%s))' % (short(e['q']), F.proj, fn.expr(x) if x is not None else '?'))

    # ---------------------------------------------------------------- E3 which elements may be skipped
    key = q + '#skip-guard'
    dup = None  # (block id, skip edge index, cond id)
    if unique:
        for e in emits:
            for (c, sense, blk) in guards_of(fn, e['id']):
                cn = pn(fn, c)
                if cn is None or cn.get('k') != 'call' or cn.get('op') not in ('!=', '==') or not fn.in_range(c, S.loop['b'], S.loop['e']):
                    continue
                if short(cn.get('q', '')) not in ('operator!=', 'operator=='):
                    continue
                ops = list(cn.get('args', []))
                if cn.get('recv') is not None:
                    ops = [cn['recv']] + ops
                if len(ops) != 2:
                    continue
                a, b = ops
                la, lb = local_or_param(fn, a), local_or_param(fn, b)
                pair = (la, b) if (la is not None and S.cur_loc(b)) else ((lb, a) if (lb is not None and S.cur_loc(a)) else None)
                if pair is None:
                    continue
                if (cn['op'] == '!=') != bool(sense):
                    continue
                if c != fn.blocks[blk].get('cond'):
                    continue   # part of a larger condition: handled as unknown shape below
                dup = (blk, 1 if cn['op'] == '!=' else 0, c, pair[0])
        if dup is None:
            R.bad('E3-skip-only-consecutive-duplicates', key, site,
                  '%s must drop consecutive duplicates: no emit is guarded by a comparison `last != <current>.location()` of osmium::Location values' % name)
        else:
            ok = sentinel is not None and dup[3] == sentinel
            R.check(ok, 'E3-skip-only-consecutive-duplicates', q + '#compares-with-last-emitted', fn.loc(dup[2]),
                    'the duplicate test compares the current location with a local that is not the one holding the location emitted last')

    def edge_ok(b, idx, s):
        return not (dup is not None and b == dup[0] and idx == dup[1])
    w = path_search(fn, S.body_entry, lambda x: (not isinstance(x, tuple)) and x in S.step_ids, lambda x: x in emit_ids, edge_ok, from_block_start=True)
    R.check(w is None, 'E3-skip-only-consecutive-duplicates', key, site,
            'an element can pass through the loop body without being emitted%s: %s'
            % (' although it differs from the previous one' if unique else ' (mode "all" must emit every node)', describe_path(fn, w)),
            detail='unique' if unique else 'all')
    # one step per iteration, no second emit per iteration
    for e in emits:
        w2 = path_search(fn, e['id'], lambda x: (not isinstance(x, tuple)) and x in emit_ids, lambda x: x in S.step_ids)
        R.check(w2 is None, 'E3-skip-only-consecutive-duplicates', q + '#one-emit-per-element', fn.loc(e['id']),
                'an element can be emitted twice within one iteration: %s' % describe_path(fn, w2))

    # ---------------------------------------------------------------- E4 first element
    if unique and dup is not None and sentinel is not None:
        dn, dv = decl_of(fn, sentinel)
        init = pn(fn, dv.get('init')) if dv is not None and isinstance(dv.get('init'), int) else None
        is_default_loc = init is not None and init.get('k') == 'construct' and init.get('q') == LOC + '::(ctor)' and not init.get('args')
        first_guard = False
        for (c, sense, blk) in guards_of(fn, dup[2]):
            if fn.in_range(c, S.loop['b'], S.loop['e']) and blk != S.header:
                first_guard = True      # the comparison itself is only reached under a further loop-local condition
        R.check(not is_default_loc or first_guard, 'E4-first-element-never-skipped', q + '#sentinel', fn.loc(dn['id']) if dn else site,
                'the duplicate filter starts from a default-constructed (undefined) osmium::Location: a first element whose location is '
                'undefined compares equal to it and is dropped silently instead of raising invalid_location '
                '(e.g. locations [undefined, A, B] yield the geometry A,B)')


# ================================================================================================ wrappers

WRAPPERS = ['linestring_start', 'linestring_finish', 'polygon_start', 'polygon_finish']


def wrapper_rules(fb, R):
    for name in WRAPPERS:
        q = GF + '::' + name
        fns = gf_methods(fb, name)
        if not fns:
            R.bad('W1-wrapper-forwards', q + '#forwards', '%s' % q, 'wrapper %s not found / not instantiated' % q)
            continue
        for fn in fns:
            F = Fac(fb, fn)
            if not F.ok:
                R.broken('%s: cannot identify back-end member' % fn.full)
                continue
            calls = [n for n in fn.all_nodes() if impl_call(fn, F, n)]
            good = [n for n in calls if impl_call(fn, F, n) == name]
            ids = {n['id'] for n in good}
            ok = len(calls) == 1 and len(good) == 1
            msg = 'must call %s.%s exactly once and nothing else on the back end' % (F.impl, name)
            if ok:
                w = path_search(fn, fn.entry, exit_t, lambda e: e in ids, from_block_start=True)
                ok = w is None
            if ok:
                c = good[0]
                want = [p['d'] for p in fn.params]
                got = [local_or_param(fn, a) for a in c.get('args', [])]
                if want != got:
                    ok, msg = False, 'must pass its parameter(s) on unchanged'
            if ok and fn.retC != 'void':
                rets = [n for n in fn.all_nodes() if n.get('k') == 'return']
                if not rets or any(peel(fn, r.get('sub')) != good[0]['id'] for r in rets):
                    ok, msg = False, 'must return the result of the back-end call'
            R.check(ok, 'W1-wrapper-forwards', q + '#forwards', fn.site, '%s %s' % (q, msg))


# ================================================================================================ protocol automata

LINE_AUTOMATON = {
    # state -> {event: next state}
    'S0': {'start': 'A0'},
    'A0': {'fill': 'A1'},
    'A1': {'finish': 'END'},
    'END': {},
}
MP_AUTOMATON = {
    'S0': {'multipolygon_start': 'M0'},
    'M0': {'multipolygon_polygon_start': 'P0'},
    'P0': {'multipolygon_outer_ring_start': 'RO'},
    'RO': {'add': 'RO', 'multipolygon_outer_ring_finish': 'P1'},
    'P1': {'multipolygon_inner_ring_start': 'RI', 'multipolygon_polygon_finish': 'M1'},
    'RI': {'add': 'RI', 'multipolygon_inner_ring_finish': 'P1'},
    'M1': {'multipolygon_polygon_start': 'P0', 'multipolygon_finish': 'END'},
    'END': {},
}
MP_NO_RING_STATES = ('S0', 'M0')
MP_STATE_TEXT = {'S0': 'nothing started', 'M0': 'multipolygon started, no polygon yet', 'P0': 'polygon open, no ring yet',
                 'RO': 'outer ring open', 'RI': 'inner ring open', 'P1': 'polygon open with closed ring(s)',
                 'M1': 'polygon(s) closed, none open', 'END': 'multipolygon finished'}


class _Violation(Exception):
    def __init__(self, msg, nid):
        Exception.__init__(self, msg)
        self.nid = nid


def _explore(fn, init, on_elem, counters_of):
    """Abstract interpretation of the CFG from the entry block.  State = (protocol state, frozenset((decl, absval)), extra).
    on_elem(state, node) -> state | None (path dropped by a domain assumption); raises _Violation.
    Branches whose condition is decided by the abstract counter values are followed exactly."""
    seen = set()
    work = [(fn.entry, init)]
    ends = []
    while work:
        b, st = work.pop()
        if (b, st) in seen:
            continue
        seen.add((b, st))
        blk = fn.blocks[b]
        dead = False
        for e in blk['elems']:
            st = on_elem(st, fn.nodes[e])
            if st is None:
                dead = True
                break
            if st == 'stop':
                dead = True
                break
        if dead:
            continue
        if b == fn.exit:
            continue
        succs = blk['succs']
        if is_abort_block(fn, b):
            continue
        if 'cond' in blk and len(succs) == 2 and blk.get('termcls') != 'SwitchStmt':
            r = abs_cond(fn, blk['cond'], counters_of(st))
            idxs = [0, 1] if r is None else ([0] if r else [1])
        else:
            idxs = range(len(succs))
        for i in idxs:
            if succs[i] is not None:
                work.append((succs[i], st))
        if len(seen) > 20000:
            raise _Violation('state space too large', None)
    return ends


def _geom_error_throw(n):
    return n.get('k') == 'throw' and not n.get('rethrow') and (GEOM_ERROR in (n.get('bases') or []) or (n.get('tt') or '').endswith('geometry_error'))


def protocol_rules(fb, R):
    # ---- linestring / polygon
    for kind in ('linestring', 'polygon'):
        name = 'create_' + kind
        q = GF + '::' + name
        fns = [f for f in gf_methods(fb, name) if f.params and f.params[0]['tC'].endswith('WayNodeList &')]
        if not fns:
            R.bad('T1-create-protocol', q + '#protocol', q, '%s(const WayNodeList&, ...) not found / not instantiated' % q)
            continue
        for fn in fns:
            F = Fac(fb, fn)
            if not F.ok:
                R.broken('%s: cannot identify back-end member' % fn.full)
                continue
            _line_protocol(fb, R, fn, F, kind, q)
        # the Way overload forwards to the list overload with the same un / dir
        ways = [f for f in gf_methods(fb, name) if f.params and f.params[0]['tC'].endswith('Way &')]
        for fn in ways:
            calls = [n for n in fn.all_nodes() if self_call(fn, n) == name]
            ok = len(calls) == 1
            if ok:
                c = calls[0]
                a = c.get('args', [])
                ok = len(a) == 3 and local_or_param(fn, a[1]) == fn.params[1]['d'] and local_or_param(fn, a[2]) == fn.params[2]['d']
                l = pn(fn, a[0]) if a else None
                ok = ok and l is not None and l.get('k') == 'call' and l.get('q') == 'osmium::Way::nodes' \
                    and local_or_param(fn, l.get('recv')) == fn.params[0]['d']
                rets = [n for n in fn.all_nodes() if n.get('k') == 'return']
                ok = ok and bool(rets) and all(peel(fn, r.get('sub')) == c['id'] for r in rets)
            R.check(ok, 'T1-create-protocol', q + '#way-overload-forwards', fn.site,
                    '%s(const Way&, un, dir) must return %s(way.nodes(), un, dir) with both options passed on unchanged' % (name, name))
        if not ways:
            R.bad('T1-create-protocol', q + '#way-overload-forwards', q, '%s(const Way&, ...) not found' % q)
    # ---- multipolygon
    q = GF + '::create_multipolygon'
    fns = gf_methods(fb, 'create_multipolygon')
    if not fns:
        R.bad('T1-create-protocol', q + '#protocol', q, '%s not found / not instantiated' % q)
    for fn in fns:
        F = Fac(fb, fn)
        if not F.ok:
            R.broken('%s: cannot identify back-end member' % fn.full)
            continue
        _mp_protocol(fb, R, fn, F, q)


def _counter_updates(fn):
    """{node id: (decl, new abstract value | 'inc')} for locals of integer type written in the body."""
    upd = {}
    for (n, key, kind, rhs) in writes(fn):
        if key[0] != 'var':
            continue
        if kind == 'inc':
            upd[n['id']] = (key[1], 'inc')
        elif kind == 'assign':
            v = fn.const_value(rhs)
            upd[n['id']] = (key[1], ('c', v) if v is not None else ('expr', rhs))
        else:
            upd[n['id']] = (key[1], TOP)
    return upd


def _int_locals(fn):
    out = {}
    for n in fn.all_nodes():
        if n.get('k') == 'decl':
            for v in n['vars']:
                if OT.domain_of_type(v['tC'], True) not in (None, 'bool') and isinstance(v.get('init'), int):
                    c = fn.const_value(v['init'])
                    out[v['d']] = (n['id'], ('c', c) if c is not None else ('expr', v['init']))
    return out


def _line_protocol(fb, R, fn, F, kind, q):
    key = q + '#protocol'
    fill_names = {k for k, v in FILLS.items() if v[2] == kind}
    start_n, finish_n, add_n = kind + '_start', kind + '_finish', kind + '_add_location'
    upd = _counter_updates(fn)
    locs = _int_locals(fn)
    decl_at = {nid: (d, v) for d, (nid, v) in locs.items()}
    fill_ids = set()

    def event(n):
        nm = impl_call(fn, F, n) or self_call(fn, n)
        if nm is None:
            return None
        if nm == start_n:
            return 'start'
        if nm == finish_n:
            return 'finish'
        if nm in fill_names or nm == add_n:
            return 'fill'
        if nm in FILLS or nm.endswith(('_start', '_finish', '_add_location')) or nm.startswith('make_'):
            return 'foreign:' + nm
        return None

    def absval(fn_, rhs):
        x = pn(fn_, rhs)
        if x is not None and x['id'] in fill_ids:
            return ('fill', x['id'])
        return TOP

    def on_elem(st, n):
        ps, env, last_finish = st
        envd = dict(env)
        nid = n['id']
        if nid in decl_at:
            d, v = decl_at[nid]
            envd[d] = v if v is None or v[0] == 'c' else absval(fn, v[1])
        if nid in upd:
            d, v = upd[nid]
            if v == 'inc':
                envd[d] = POS
            elif v is not None and v[0] == 'expr':
                envd[d] = absval(fn, v[1])
            else:
                envd[d] = v
        ev = event(n)
        if ev is not None:
            if ev.startswith('foreign:'):
                raise _Violation('%s calls %s, which belongs to another geometry kind' % (q, ev[8:]), nid)
            nxt = LINE_AUTOMATON[ps].get(ev)
            if nxt is None:
                raise _Violation('%s_%s in protocol state %s (required order: %s_start, one fill, %s_finish)'
                                 % (kind, ev, ps, kind, kind), nid)
            if ev == 'fill':
                fill_ids.add(nid)
            if ev == 'finish':
                a = n.get('args', [])
                d = local_or_param(fn, a[0]) if len(a) == 1 else None
                v = envd.get(d) if d is not None else (('fill', peel(fn, a[0])) if a and peel(fn, a[0]) in fill_ids else None)
                if not (v is not None and v[0] == 'fill'):
                    raise _Violation('the count passed to %s_finish is not the value returned by the fill call of this path '
                                     '(it is %s)' % (kind, fn.expr(a[0]) if a else 'missing'), nid)
                last_finish = nid
            ps = nxt
        if n.get('k') == 'return':
            if ps != 'END':
                raise _Violation('return in protocol state %s: the geometry was not finished' % ps, nid)
            if peel(fn, n.get('sub')) != last_finish:
                raise _Violation('the returned value is not the result of %s_finish' % kind, nid)
            return 'stop'
        if n.get('k') == 'throw':
            return 'stop'
        return (ps, frozenset(envd.items()), last_finish)

    # fill calls must be known before values are classified: pre-pass
    for n in fn.all_nodes():
        if event(n) == 'fill':
            fill_ids.add(n['id'])
    try:
        _explore(fn, ('S0', frozenset(), None), on_elem, lambda st: {d: v for d, v in st[1] if v is None or v[0] in ('c', 'pos')})
        rets = [n for n in fn.all_nodes() if n.get('k') == 'return']
        R.check(bool(rets), 'T1-create-protocol', key, fn.site, 'no return statement')
    except _Violation as v:
        R.bad('T1-create-protocol', key, fn.loc(v.nid) if v.nid is not None else fn.site, str(v))


def _mp_protocol(fb, R, fn, F, q):
    key = q + '#protocol'
    upd = _counter_updates(fn)
    locs = _int_locals(fn)
    decl_at = {nid: (d, v) for d, (nid, v) in locs.items()}
    reached_end = []

    def event(n):
        nm = impl_call(fn, F, n)
        if nm is not None:
            return 'add' if nm == 'multipolygon_add_location' else nm
        nm = self_call(fn, n)
        if nm == 'add_points':
            return 'add'
        if nm in FILLS:
            return nm
        return None

    def on_elem(st, n):
        ps, env, last_finish = st
        envd = dict(env)
        nid = n['id']
        if nid in decl_at:
            d, v = decl_at[nid]
            envd[d] = v if (v is None or v[0] == 'c') else TOP
        if nid in upd:
            d, v = upd[nid]
            envd[d] = POS if v == 'inc' else (v if (v is None or v[0] == 'c') else TOP)
        ev = event(n)
        if ev is not None:
            nxt = MP_AUTOMATON[ps].get(ev)
            if nxt is None:
                if ev == 'multipolygon_inner_ring_start' and ps == 'M0':
                    return None     # ASSUMPTION: an inner ring never precedes the first outer ring of an area
                raise _Violation('%s while %s (required: multipolygon_start, then per outer ring polygon_start, outer_ring_start, points, '
                                 'outer_ring_finish, per inner ring inner_ring_start, points, inner_ring_finish, then polygon_finish before the '
                                 'next polygon_start and before multipolygon_finish)' % (ev, MP_STATE_TEXT[ps]), nid)
            if ev == 'multipolygon_finish':
                last_finish = nid
            ps = nxt
        if n.get('k') == 'return':
            if ps != 'END':
                raise _Violation('return while %s' % MP_STATE_TEXT[ps], nid)
            if peel(fn, n.get('sub')) != last_finish:
                raise _Violation('the returned value is not the result of multipolygon_finish', nid)
            reached_end.append(nid)
            return 'stop'
        if n.get('k') == 'throw':
            if not n.get('rethrow') and ps not in MP_NO_RING_STATES:
                raise _Violation('an exception is thrown while %s: an area that has rings is rejected' % MP_STATE_TEXT[ps], nid)
            return 'stop'
        return (ps, frozenset(envd.items()), last_finish)

    try:
        _explore(fn, ('S0', frozenset(), None), on_elem, lambda st: {d: v for d, v in st[1] if v is None or v[0] in ('c', 'pos')})
        R.check(bool(reached_end), 'T1-create-protocol', key, fn.site,
                'no path reaches `return multipolygon_finish()` in the finished state: every area would be rejected')
    except _Violation as v:
        R.bad('T1-create-protocol', key, fn.loc(v.nid) if v.nid is not None else fn.site, str(v))


# ================================================================================================ dispatch table

def _enum_names(fb, q):
    e = fb.enum(q)
    if e is None:
        return None
    return {int(x['value']): x['name'] for x in e['enumerators']}


def _constraints(fn, nid, pdecls):
    """{param decl: set of values the parameter must have for element nid to execute} from if-guards and switch case labels.
    Returns None when a guard on one of the parameters has a shape that is not understood."""
    out = {}
    for (c, sense, _b) in guards_of(fn, nid):
        cn = pn(fn, c)
        if cn is None:
            continue
        if cn.get('k') == 'binop' and cn.get('op') in ('==', '!='):
            for (a, b) in ((cn['lhs'], cn['rhs']), (cn['rhs'], cn['lhs'])):
                d = local_or_param(fn, a)
                v = fn.const_value(b)
                if d in pdecls and v is not None:
                    eq = (cn['op'] == '==') == bool(sense)
                    out.setdefault(d, []).append(('eq' if eq else 'ne', v))
        elif any(local_or_param(fn, x) in pdecls for x in fn.subtree(c) if fn.nodes[x].get('k') == 'var') \
                and not (cn.get('k') == 'binop' and cn.get('op') in ('&&', '||')) and not (cn.get('k') == 'unop' and cn.get('op') == '!'):
            return None
    # switch case labels: a dominating block that carries a case label and is entered only from the switch block
    pos = fn.positions()
    if nid not in pos:
        return None
    b0 = pos[nid][0]
    preds = fn.preds()
    for d in fn.dominators().get(b0, ()):  # includes b0
        lab = fn.blocks[d].get('label') or {}
        if 'case' not in lab and not lab.get('default'):
            continue
        ps = preds.get(d, [])
        sw = [p for p in ps if fn.blocks[p].get('termcls') == 'SwitchStmt']
        if len(sw) != 1 or len(ps) != 1:
            return None   # fall-through into the label: not understood
        sd = local_or_param(fn, fn.blocks[sw[0]].get('cond'))
        if sd not in pdecls:
            continue
        if lab.get('default'):
            return None
        v = fn.const_value(lab['case'])
        if v is None:
            return None
        out.setdefault(sd, []).append(('eq', v))
    return out


_BEGIN = {'begin': ('forward', 0), 'cbegin': ('forward', 0), 'end': ('forward', 1), 'cend': ('forward', 1),
          'rbegin': ('backward', 0), 'crbegin': ('backward', 0), 'rend': ('backward', 1), 'crend': ('backward', 1)}


def dispatch_rules(fb, R):
    un_names = _enum_names(fb, 'osmium::geom::use_nodes')
    dir_names = _enum_names(fb, 'osmium::geom::direction')
    if not un_names or not dir_names or set(un_names.values()) != {'unique', 'all'} or set(dir_names.values()) != {'forward', 'backward'}:
        R.broken('enums osmium::geom::use_nodes {unique, all} / direction {forward, backward} not found')
        return
    for kind in ('linestring', 'polygon'):
        name = 'create_' + kind
        q = GF + '::' + name
        fns = [f for f in gf_methods(fb, name) if f.params and f.params[0]['tC'].endswith('WayNodeList &')]
        for fn in fns:
            if len(fn.params) != 3:
                R.broken('%s: expected (list, use_nodes, direction) parameters' % fn.full)
                continue
            pl, pu, pd = fn.params[0]['d'], fn.params[1]['d'], fn.params[2]['d']
            if 'use_nodes' not in fn.params[1]['tC'] or 'direction' not in fn.params[2]['tC']:
                R.broken('%s: parameter types are not (use_nodes, direction)' % fn.full)
                continue
            found = {}
            for n in fn.all_nodes():
                nm = self_call(fn, n)
                if nm not in FILLS or FILLS[nm][2] != kind:
                    continue
                cons = _constraints(fn, n['id'], {pu, pd})
                if cons is None:
                    R.broken('%s: guard shape of the call to %s not understood' % (fn.full, nm))
                    continue

                def vals(d, names):
                    poss = set(names)
                    for (op, v) in cons.get(d, []):
                        poss = {x for x in poss if (x == v) == (op == 'eq')}
                    return {names[x] for x in poss}
                us, ds = vals(pu, un_names), vals(pd, dir_names)
                for u in us:
                    for dr in ds:
                        found.setdefault((u, dr), []).append((n, nm, len(us) * len(ds)))
            for u in ('unique', 'all'):
                for dr in ('forward', 'backward'):
                    key = '%s#%s/%s' % (q, u, dr)
                    sites = found.get((u, dr), [])
                    if not sites:
                        R.bad('D1-direction-and-uniqueness-dispatch', key, fn.site,
                              'no fill call is reached for use_nodes::%s, direction::%s: such a request produces no points' % (u, dr))
                        continue
                    for (n, nm, width) in sites:
                        msg = None
                        if FILLS[nm][0] != (u == 'unique'):
                            msg = 'use_nodes::%s reaches %s' % (u, nm)
                        a = n.get('args', [])
                        its = []
                        for x in a:
                            c = pn(fn, x)
                            # reverse iterators are wrapped in a converting construction
                            hops = 0
                            while c is not None and c.get('k') == 'construct' and len(c.get('args', [])) == 1 and hops < 3:
                                c = pn(fn, c['args'][0])
                                hops += 1
                            if c is None or c.get('k') != 'call' or short(c.get('q', '')) not in _BEGIN or c.get('recv') is None:
                                its.append(None)
                            else:
                                its.append((short(c['q']), local_or_param(fn, c['recv'])))
                        if msg is None and (len(its) != 2 or None in its):
                            msg = 'arguments of %s are not begin/end iterators of the list' % nm
                        if msg is None:
                            (n0, r0), (n1, r1) = its
                            if r0 != pl or r1 != pl:
                                msg = 'iterators are not taken from the list parameter %s' % fn.params[0]['name']
                            elif _BEGIN[n0][0] != dr or _BEGIN[n1][0] != dr:
                                msg = 'direction::%s reaches %s(%s(), %s())' % (dr, nm, n0, n1)
                            elif _BEGIN[n0][1] != 0 or _BEGIN[n1][1] != 1:
                                msg = 'iterator pair (%s(), %s()) is not (begin, end)' % (n0, n1)
                        R.check(msg is None, 'D1-direction-and-uniqueness-dispatch', key, fn.loc(n['id']), msg or '',
                                detail='%s(%s)' % (nm, ', '.join('%s()' % i[0] for i in its if i)))
    # D2
    for (name, inner) in (('crbegin', 'cend'), ('crend', 'cbegin')):
        q = 'osmium::NodeRefList::' + name
        fns = fb.fns(q)
        if not fns:
            R.bad('D2-reverse-iterators', '%s#wraps-%s' % (q, inner), q, '%s not found' % q)
        for fn in fns:
            rets = [n for n in fn.all_nodes() if n.get('k') == 'return']
            ok = bool(rets)
            for r in rets:
                x = pn(fn, r.get('sub'), explicit_noop=True)
                hops = 0
                while x is not None and x.get('k') in ('construct', 'cast') and hops < 4:
                    nxt = x['args'][0] if x.get('k') == 'construct' and len(x.get('args', [])) == 1 else x.get('sub')
                    x = pn(fn, nxt, explicit_noop=True) if nxt is not None else None
                    hops += 1
                ok = ok and x is not None and x.get('k') == 'call' and x.get('q') == 'osmium::NodeRefList::' + inner and is_this(fn, x.get('recv'))
            R.check(ok, 'D2-reverse-iterators', '%s#wraps-%s' % (q, inner), fn.site, '%s must return reverse_iterator(%s())' % (name, inner))


# ================================================================================================ degenerate thresholds

def _threshold_guard(fb, R, fn, target, counter_d, k, rule, key, what):
    """target (node id) executes iff counter >= k, decided over all counter values; failing edges throw geometry_error."""
    gs = [(c, s, b) for (c, s, b) in guards_of(fn, target) if fn.blocks[b].get('cond') == c]
    rel = []
    for (c, s, b) in gs:
        if any(local_or_param(fn, x) == counter_d for x in fn.subtree(c) if fn.nodes[x].get('k') == 'var'):
            rel.append((c, s, b))
    if not rel:
        R.bad(rule, key, fn.loc(target), '%s is not guarded by a test of the point counter: %s' % (fn.expr(target)[:60], what))
        return

    def atoms(f, n):
        if n.get('k') == 'var' and n.get('d') == counter_d:
            return ('n', OT.UINT64)
        return None
    try:
        progs = [(OT.compile_expression(fb, fn, c, atoms), s) for (c, s, _b) in rel]
    except OT.Inexact as e:
        R.broken('%s: guard of %s is not comparison-only: %s' % (fn.full, fn.expr(target)[:40], e))
        return
    consts = set([k, k - 1, 0])
    for p, _s in progs:
        consts |= set(p.consts)
    bad = None
    for w in OT.worlds({'n': OT.UINT64}, consts):
        reach = all(OT.run(p, w).as_bool() == bool(s) for (p, s) in progs)
        want = w.ge('n', k)
        if reach != want:
            bad = w
            break
    ok = R.check(bad is None, rule, key, fn.loc(rel[0][0]),
                 '%s: for counter %s the finish call is %s but must be %s' % (what, bad.witness() if bad else '', 'reached' if bad and not bad.ge('n', k) else 'not reached',
                                                                              'rejected' if bad and not bad.ge('n', k) else 'accepted'),
                 detail='guards %s decided over %d order types' % ([fn.expr(c) for (c, _s, _b) in rel], len(list(OT.worlds({'n': OT.UINT64}, consts)))))
    # failing edges throw geometry_error before anything else happens to the back end
    for (c, s, b) in rel:
        fail = fn.blocks[b]['succs'][1 if s else 0]
        if fail is None:
            continue
        thr = [n for n in fn.all_nodes() if _geom_error_throw(n)]
        tids = {n['id'] for n in thr}
        w = path_search(fn, fail, lambda e: exit_t(e) or ((not isinstance(e, tuple)) and fn.nodes[e].get('k') in ('return', 'call') and e not in tids
                                                           and fn.nodes[e].get('q', '').startswith(('osmium::geom::', GF))),
                        lambda e: e in tids, from_block_start=True)
        R.check(w is None and bool(thr), rule, key + '/throws', fn.loc(c),
                '%s: the rejecting edge of `%s` does not throw osmium::geometry_error on every path: %s' % (what, fn.expr(c), describe_path(fn, w)))
    return ok


def threshold_rules(fb, R):
    for kind, k in (('linestring', 2), ('polygon', 4)):
        name = 'create_' + kind
        q = GF + '::' + name
        key = '%s#min-points-%d' % (q, k)
        fns = [f for f in gf_methods(fb, name) if f.params and f.params[0]['tC'].endswith('WayNodeList &')]
        if not fns:
            R.bad('G1-degenerate-threshold', key, q, '%s not found' % q)
        for fn in fns:
            F = Fac(fb, fn)
            if not F.ok:
                continue
            fins = [n for n in fn.all_nodes() if (impl_call(fn, F, n) or self_call(fn, n)) == kind + '_finish']
            if not fins:
                R.bad('G1-degenerate-threshold', key, fn.site, 'no call of %s_finish' % kind)
            for f in fins:
                a = f.get('args', [])
                d = local_or_param(fn, a[0]) if len(a) == 1 else None
                if d is None:
                    R.bad('G1-degenerate-threshold', key, fn.loc(f['id']), 'the count passed to %s_finish is not a local counter' % kind)
                    continue
                _threshold_guard(fb, R, fn, f['id'], d, k, 'G1-degenerate-threshold', key,
                                 'a %s needs at least %d points' % (kind, k))
    # multipolygon: geometry_error iff ring counter == 0
    q = GF + '::create_multipolygon'
    key = q + '#no-rings'
    fns = gf_methods(fb, 'create_multipolygon')
    if not fns:
        R.bad('G1-degenerate-threshold', key, q, '%s not found' % q)
    for fn in fns:
        F = Fac(fb, fn)
        if not F.ok:
            continue
        fins = [n for n in fn.all_nodes() if impl_call(fn, F, n) == 'multipolygon_finish']
        ring_starts = [n for n in fn.all_nodes() if (impl_call(fn, F, n) or '').endswith('_ring_start')]
        # the ring counter: a local incremented on every path after each ring start and nowhere else
        cands = {}
        for (n, lk, kind, _rhs) in writes(fn):
            if lk[0] == 'var' and kind == 'inc':
                cands.setdefault(lk[1], []).append(n)
        counter = None
        for d, incs in cands.items():
            ids = {n['id'] for n in incs}
            if ring_starts and all(any(fn.elem_dominates(rs['id'], i) and fn.positions()[rs['id']][0] == fn.positions()[i][0] for i in ids) for rs in ring_starts) \
                    and len(incs) == len(ring_starts):
                counter = d
        if counter is None or not fins:
            R.bad('G1-degenerate-threshold', key, fn.site,
                  'create_multipolygon has no local that counts exactly the rings (incremented once with every *_ring_start): the "no rings" '
                  'rejection cannot be exact')
            continue
        for f in fins:
            _threshold_guard(fb, R, fn, f['id'], counter, 1, 'G1-degenerate-threshold', key, 'an area without rings is invalid')


# ================================================================================================ run

def factory_rules(fb, R):
    fill_rules(fb, R)
    wrapper_rules(fb, R)
    protocol_rules(fb, R)
    dispatch_rules(fb, R)
    threshold_rules(fb, R)


def run(ctx):
    R = ctx.R
    configs = ['ndebug14'] if ctx.tier == 'quick' else ['ndebug14', 'debug14', 'ndebug17', 'debug17']
    for cfg in configs:
        fb = ctx.facts(['geom'], cfg)
        factory_rules(fb, R)
