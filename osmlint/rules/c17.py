"""C17 -- geometry exports encode exactly the object's coordinates (PAIR + ORDERTYPE + sibling agreement).

Everything is decided from the fact base (resolved callees, CFG paths, dominance, constants); no libosmium code is run.
Instances are keyed by what the property REQUIRES (the protocol level, the (unique, direction) combination, the encoder
method), so a construct that was deleted shows up as a violated instance, not as a missing one.

GeometryFactory<TGeomImpl, TProjection> (every instantiation of drivers/geom.cpp: 3 back ends x 2 projections x 2 iterator kinds)
 C1-ctor-forwards-settings   every constructor (default, settings pack, projection object, projection object + settings pack; the
        driver instantiates each for every back end) initialises the back end with <projection member>.epsg() followed by
        ALL its settings parameters, each exactly once and in order, moves the projection parameter into the projection
        member, and uses every parameter exactly once; the projection member is declared before the back end.
 E1-count-equals-emits       fill_linestring / fill_linestring_unique / fill_polygon / fill_polygon_unique: on every CFG
        path the number of `*_add_location` calls equals the number of increments of the returned counter (bounded
        integer-delta dataflow, must be exactly {0} at every return); the counter starts at the constant 0 and is only
        ever incremented.
 E2-emits-current-element    in those four and in add_points: the emitted value is m_projection(L) where L is the current
        element's location (`it->location()` directly, or a local whose only reaching definition is `local = it->location()`
        in the same iteration), and the back-end method is the one of the geometry kind being built.
 E3-skip-only-consecutive-duplicates   "all" mode: no path through one loop iteration avoids the emit.  "unique" mode
        (`*_unique`, add_points): the only edge that skips the emit is the equal-edge of a comparison between the current
        location and the local that holds the location emitted last; that local is written nowhere else in the loop.
 E4-first-element-never-skipped   the duplicate test must not be able to drop the FIRST element: a sentinel that is a
        default-constructed (= undefined) or otherwise constant osmium::Location compares equal to a first element with that
        location, unless the deciding condition has a further operand / the emit can be reached without the comparison
        (`first || last != cur`, `last.is_undefined() || last != cur`), or an invalid current location cannot reach the comparison.
        A sentinel built from other constants is reported under the separate key `#sentinel-constant`.
 W1-wrapper-forwards         linestring_start/finish, polygon_start/finish call the same-named back-end method exactly
        once on every path, pass their parameter on and return its result.
 T1-create-protocol          create_linestring / create_polygon / create_multipolygon (helpers they call are explored from the
        current protocol state with their arguments bound) drive the back end through the protocol automaton  start (add_location)* finish  resp.  multipolygon_start ( polygon_start outer_ring_start add*
        outer_ring_finish ( inner_ring_start add* inner_ring_finish )* polygon_finish )+ multipolygon_finish  on every normal
        CFG path (abstract interpretation of the CFG over protocol state x {0, >=1} values of the local counters, so the
        `num_polygons > 0` / `num_rings == 0` branches are followed exactly); the count handed to `*_finish` is the value
        returned by the fill call of that path; the returned object is the result of the finish call; a geometry_error is
        thrown only while no ring has been emitted.
 D1-direction-and-uniqueness-dispatch   for each of the 8 required combinations {linestring, polygon} x {unique, all} x
        {forward, backward} the CFG (of create_* and the helpers it hands its options to) is walked with the two parameters
        set to that combination -- branches and switches over them are followed exactly -- and every fill call that can
        execute calls the `_unique` variant iff unique and passes (c)begin/(c)end resp. (c)rbegin/(c)rend -- in that order --
        of the SAME list.
 D2-reverse-iterators        NodeRefList::crbegin wraps cend(), crend wraps cbegin().
 G1-degenerate-threshold     the finish call is reached iff counter >= 2 (linestring) / >= 4 (polygon) -- decided for all
        2^64 counter values by the ORDERTYPE engine on the guard conditions -- and the failing edge throws a
        geometry_error; create_multipolygon throws geometry_error iff its ring counter == 0.
 P1-checked-accessors        IdentityProjection / MercatorProjection::operator() and Coordinates(Location) read the location
        only through Location::lon() / lat() (x from lon, y from lat); lon()/lat() return only when valid() held and throw
        invalid_location otherwise.
Back ends -- decided by ABSTRACT RUNS: the methods of a back end are interpreted by the model interpreter of c17_util over
abstract strings (literal characters, typed binary fields, symbolic coordinates) along every protocol sequence up to 2 polygons
x 2 inner rings x 2 points, in every configuration (WKB/EWKB x binary/hex; with / without SRID prefix), on a fresh object, as the
second geometry on the same object and after a geometry that was abandoned by an exception; the returned token stream is decoded
by an independent reference decoder (OGC 99-049 WKB / EWKB, WKT, RFC 7946) and must yield exactly the structure that was fed in.
Calls of helpers whose body is in the fact base are interpreted too, so extracting / inlining a helper, naming a sub-expression,
early return vs ?: and the like make no difference.  Failures are classified by what the decoder rejects:
 B1-wkb-counts-match-elements   every count field (points, rings, polygons) equals the number of elements that follow, every
        back-patch lands exactly on a 4 byte count placeholder, nothing is left in / missing from the buffer (this subsumes the
        offset-member pairing, the counter reset / increment discipline, the distinct slots of nested levels, set_size writing
        4 bytes at &m_data[offset] and patching before the buffer is handed over).
 B5-header-layout            byte order mark, OGC geometry type code of the geometry kind, SRID flag and srid exactly for EWKB.
 X1-axis-order               every point is two 8 byte doubles, x then y of the same coordinates; Coordinates::append_to_string
        (interpreted with double2string as a primitive) writes x, infix, y with the given precision, inside prefix / suffix.
 B7-hex-iff-requested        the result is convert_to_hex(data) exactly when out_type::hex is configured.
 B6-start-resets-buffer      (all three back ends) a geometry that decodes correctly on a fresh object also does after an abandoned
        one: the start methods reset the accumulation buffer.
 S1-text-nesting-grammar     WKT and GeoJSON: geometry keyword, brackets balanced, exactly one separator between siblings and none
        dangling, coordinate pairs with the format's delimiters, formatted with the precision member the constructor fills.
 M1-config-members-survive  the members a back end's constructor sets (srid prefix, precision, srid, wkb / wkt / out type) are never
        assigned, mutated, swapped, moved from or bound to a non-const reference outside constructors (a member every start
        method resets is per-geometry state instead); the abstract runs additionally treat a consumed std::move(member) as
        leaving an unspecified value, so a moved-from member shows in the second geometry.
 B8-counter-width-covers-count-field   every value handed to set_size (written into the 4 byte count field) has a type at least as
        wide as that field: a narrower counter member wraps long before the field does.
 Z1-no-shared-mutable-state  nothing in the call closure of the factory / back-end methods and double2string declares a writable
        function-local static or writes a namespace-scope / static-member variable (two factories in two threads must not share
        a formatting buffer).
 B4-set_size-range-guard     the narrowing to uint32_t in set_size happens exactly for sizes <= UINT32_MAX (ORDERTYPE on the guard),
        larger ones throw geometry_error.
 H1-hex-encoding             convert_to_hex appends lookup[(c >> 4) & 15] then lookup[c & 15] for all 256 byte values and
        the lookup table is "0123456789ABCDEF".
 N1-snprintf-length-bounded  double2string: the size argument of snprintf equals the extent of the destination array (from the array
        type and the folded constant: not more -- overflow --, not less -- usable characters lost); the value returned by
        snprintf is used as index into / byte count of that array only where its value range lies inside the array: interval-set
        dataflow over the CFG, started from the library convention (the result of a numeric conversion is < 0 or >= 1), refined
        on branch edges, so a dominating test as well as a test-and-clamp is understood.
 N2-zero-trim-needs-fraction double2string: the loop that strips trailing '0' characters runs only under a condition that the text has a
        fractional part (mentions the precision or a '.').

Not decided (left to other technique families): numeric exactness of snprintf("%.*f") and of the zero trimming as values;
that an independent WKB/WKT/GeoJSON decoder of a real library accepts the bytes (the reference grammar in this file is the
frozen OGC / RFC 7946 shape); agreement of the three encodings as values; projection accuracy (C18).
"""
import itertools

from .. import ordertype as OT
from ..c17_util import (POS, TOP, Model, ModelAbort, ModelError, ModelThrow, ModelUnknown, Obj, Str, Sym, abs_cond, address_taken, char_of, decl_of,
                        delta_states, exit_t, is_abort_block, is_this, local_or_param, loop_header_block, onode, origin, param_index, peel, pn,
                        recv_field, short, string_of, this_field, writes)
from ..flow import describe_path, guards_of, path_search

EXPLANATION = (
    'Decided: count/emit agreement of the fill functions on every CFG path; emitted value = projection of the current element; '
    'duplicate suppression skips only consecutive equal locations; protocol automaton of create_linestring/polygon/multipolygon on '
    'every normal path incl. exact handling of the counter branches; (unique, direction) dispatch table; degenerate thresholds '
    '(<2, <4, ==0 -> geometry_error) for all counter values via order types; checked lon()/lat() accessors in both projections; '
    'WKB back-patching (offset member pairing, counters, nested slots, header layout, set_size), buffer reset, axis order, hex '
    'nibbles; WKT/GeoJSON nesting grammar by composing the extracted string transformers over all protocol sequences up to '
    '2x2x2; snprintf length use. NOT decided: numeric exactness of number formatting as values, acceptance by third-party '
    'decoders, value-level agreement of the three encodings, projection accuracy.')
ASSUMPTIONS = [
    'an osmium::Area lists each inner ring after its outer ring (builder invariant; the property quantifies over such areas)',
    'std::string append / back / swap / clear / size and std::copy_n behave per the standard',
    'WKT / GeoJSON / WKB shapes (OGC 99-049, RFC 7946) are the frozen reference tables in this module',
    'the instantiations in drivers/geom.cpp (WKB, WKT, GeoJSON x Identity, Mercator x pointer, reverse iterator) cover the library\'s own uses',
]

# Genuine defects of the unchanged tree found by these rules: (rule, key, explanation).  Reported with R.bad as usual.
# None is open any more.  History (each was predicted by the rule, replayed once against the real headers, then fixed in /repo; the
# reverted fixes are seeded mutants in selftest/mutants/c17.py):
#   F12 E4-first-element-never-skipped  fill_linestring_unique / fill_polygon_unique / add_points #sentinel   fixed by ff8c96c
#       (undefined first location compared equal to the default-constructed sentinel and was dropped silently)
#   F13 N1-snprintf-length-bounded  osmium::double2string#snprintf-result                                     fixed by 06cfb4d
#       (NDEBUG: snprintf result used unchecked as index / count of char buffer[20])
#   F14 N2-zero-trim-needs-fraction osmium::double2string#zero-trim-only-after-decimal-point                  fixed by 06cfb4d
#       (precision 0: integer zeros stripped, double2string(s, 10.0, 0) == "1")
KNOWN = []

GF = 'osmium::geom::GeometryFactory'
LOC = 'osmium::Location'
NODEREF_LOCATION = 'osmium::NodeRef::location'
GEOM_ERROR = 'osmium::geometry_error'
FILLS = {
    # function -> (unique?, back-end emit method, geometry kind)
    'fill_linestring': (False, 'linestring_add_location', 'linestring'),
    'fill_linestring_unique': (True, 'linestring_add_location', 'linestring'),
    'fill_polygon': (False, 'polygon_add_location', 'polygon'),
    'fill_polygon_unique': (True, 'polygon_add_location', 'polygon'),
    'add_points': (True, 'multipolygon_add_location', 'multipolygon'),
}


# ================================================================================================ factory helpers

class Fac:
    """Field roles of one GeometryFactory instantiation: which member is the back end, which the projection."""

    def __init__(self, fb, fn):
        self.ok = False
        targs = fn.cls_targs or []
        if len(targs) < 2:
            return
        self.impl_t, self.proj_t = targs[0], targs[1]
        rec = next((r for r in fb.records_named(GF) if r.full == fn.clsT), None)
        if rec is None:
            return
        self.impl = next((f['name'] for f in rec.fields if f['tC'] == self.impl_t), None)
        self.proj = next((f['name'] for f in rec.fields if f['tC'] == self.proj_t), None)
        self.ok = self.impl is not None and self.proj is not None


def impl_call(fn, F, n):
    """back-end method name if node n is a call on this->m_impl."""
    if n.get('k') == 'call' and 'q' in n and recv_field(fn, n) == F.impl:
        return short(n['q'])
    return None


def self_call(fn, n):
    """method name if node n is a call of another GeometryFactory member on *this."""
    if n.get('k') == 'call' and n.get('q', '').startswith(GF + '::') and n.get('recv') is not None and is_this(fn, n['recv']):
        return short(n['q'])
    return None


def proj_call_arg(fn, F, nid):
    """If the peeled expression is this->m_projection(x): the id of x, else None."""
    n = onode(fn, nid)
    if n is not None and n.get('k') == 'call' and n.get('op') == '()' and recv_field(fn, n) == F.proj and len(n.get('args', [])) == 1:
        return n['args'][0]
    return None


def gf_methods(fb, name):
    return [f for f in fb.fns(GF + '::' + name) if f.has_cfg and not f.is_lambda]


# ================================================================================================ fill loops

class FillShape:
    """Structural reading of one fill_* / add_points body."""

    def __init__(self, fb, fn, F):
        self.fn = fn
        self.err = None
        self.emits = [n for n in fn.all_nodes() if (impl_call(fn, F, n) or '').endswith('_add_location')]
        self.elem_roots = set()       # decl ids whose ->location() is "the current element's location"
        self.step_nodes = []          # iterator increments
        self.loop = None
        if len(fn.loops) != 1:
            self.err = 'expected exactly one loop, found %d' % len(fn.loops)
            return
        self.loop = fn.loops[0]
        self.header = loop_header_block(fn, self.loop)
        if self.header is None:
            self.err = 'cannot find the loop condition block'
            return
        if self.loop['cls'] == 'CXXForRangeStmt':
            # element variable: declared from *__begin; the range must be the function's (only) list parameter
            begin = rng = None
            for n in fn.all_nodes():
                if n.get('k') == 'decl':
                    for v in n['vars']:
                        if v['name'].startswith('__begin'):
                            begin = v['d']
                        if v['name'].startswith('__range'):
                            rng = v
            if begin is None or rng is None or local_or_param(fn, rng.get('init')) != (fn.params[0]['d'] if fn.params else None):
                self.err = 'range-for does not iterate over the list parameter'
                return
            for n in fn.all_nodes():
                if n.get('k') == 'decl' and fn.in_range(n['id'], self.loop['b'], self.loop['e']):
                    for v in n['vars']:
                        i = pn(fn, v.get('init'))
                        if i is not None and ((i.get('k') == 'unop' and i.get('op') == '*') or (i.get('k') == 'call' and i.get('op') == '*')):
                            src = i.get('sub', i.get('recv'))
                            if local_or_param(fn, src) == begin:
                                self.elem_roots.add(v['d'])
            self.step_nodes = [w[0] for w in writes(fn) if w[1] == ('var', begin) and w[2] == 'inc']
        else:
            # `for/while (A != B)` (or A < B): A is the cursor -- an iterator (parameter, or local started at <list>.begin()) or an
            # index (local started at 0, bound <list>.size()); B the matching end
            c = pn(fn, fn.blocks[self.header]['cond'])
            ops = []
            if c is not None and c.get('k') == 'binop':
                ops = [c['lhs'], c['rhs']]
            elif c is not None and c.get('k') == 'call' and c.get('op') in ('!=', '<'):
                ops = list(c.get('args', []))
                if c.get('recv') is not None:
                    ops = [c['recv']] + ops
            if c is None or c.get('op') not in ('!=', '<') or len(ops) != 2:
                self.err = 'loop condition is not a comparison of a cursor with its end'
                return
            cur = local_or_param(fn, ops[0])
            if cur is None:
                self.err = 'loop condition does not compare a variable with its end'
                return
            plist = [p['d'] for p in fn.params if 'NodeRefList' in p['tC'] or 'WayNodeList' in p['tC']]

            def list_call(nid, names):
                x = onode(fn, nid)
                hops = 0
                while x is not None and x.get('k') == 'construct' and len(x.get('args', [])) == 1 and hops < 3:
                    x = onode(fn, x['args'][0])
                    hops += 1
                return x is not None and x.get('k') == 'call' and short(x.get('q', '')) in names and x.get('recv') is not None \
                    and local_or_param(fn, x['recv']) in plist
            ws = [w for w in writes(fn) if w[1] == ('var', cur)]
            if any(w[2] != 'inc' for w in ws) or address_taken(fn, ('var', cur)):
                self.err = 'the loop cursor is modified other than by ++'
                return
            if param_index(fn, cur) is not None:
                end = local_or_param(fn, ops[1])
                if len(fn.params) != 2 or end is None or param_index(fn, end) is None or end == cur or any(w[1] == ('var', end) for w in writes(fn)):
                    self.err = 'loop condition is not `it != end` over the two iterator parameters'
                    return
                self.elem_roots.add(cur)
            else:
                dn, dv = decl_of(fn, cur)
                if dv is None or not isinstance(dv.get('init'), int):
                    self.err = 'the loop cursor has no initialiser'
                    return
                if fn.const_value(dv['init']) == 0 and list_call(ops[1], ('size',)):
                    self.index = cur
                elif list_call(dv['init'], ('begin', 'cbegin')) and list_call(ops[1], ('end', 'cend')):
                    self.elem_roots.add(cur)
                elif list_call(dv['init'], ('rbegin', 'crbegin')) and list_call(ops[1], ('rend', 'crend')):
                    self.elem_roots.add(cur)
                else:
                    self.err = 'the loop does not run from the beginning to the end of the list parameter'
                    return
                self.plist = plist
            self.step_nodes = [w[0] for w in ws]
        if not self.step_nodes:
            self.err = 'no cursor increment found'
            return
        self.step_ids = {n['id'] for n in self.step_nodes}
        self.body_entry = fn.blocks[self.header]['succs'][0]
        self.hdr_ids = set(fn.blocks[self.header]['elems'])
        self._bs = {}

    index = None
    plist = ()

    def before_step(self, nid):
        """the expression is evaluated before the cursor is advanced in its iteration (it still denotes the current element)"""
        if nid not in self._bs:
            ok = True
            for s_ in self.step_ids:
                if path_search(self.fn, s_, lambda e: e == nid, lambda e: e in self.hdr_ids) is not None:
                    ok = False
            self._bs[nid] = ok
        return self._bs[nid]

    def cur_loc(self, nid, _depth=0):
        """peeled expression is <current element>.location(), or a loop-local constant copy of it"""
        fn = self.fn
        n = pn(fn, nid)
        if n is None:
            return False
        if n.get('k') == 'var' and n.get('vk') == 'local' and _depth < 3:
            dn, dv = decl_of(fn, n['d'])
            if dv is not None and isinstance(dv.get('init'), int) and self.loop is not None and fn.in_range(dn['id'], self.loop['b'], self.loop['e']) \
                    and not any(w[1] == ('var', n['d']) for w in writes(fn)) and not address_taken(fn, ('var', n['d'])):
                return self.cur_loc(dv['init'], _depth + 1)
            return False
        if n.get('k') != 'call' or n.get('q') != NODEREF_LOCATION or n.get('recv') is None:
            return False
        if not self.before_step(n['id']):
            return False
        if self.index is not None:
            r = pn(fn, n['recv'])
            return r is not None and r.get('k') == 'call' and r.get('op') == '[]' and r.get('recv') is not None \
                and local_or_param(fn, r['recv']) in self.plist and len(r.get('args', [])) == 1 and local_or_param(fn, r['args'][0]) == self.index
        rv = fn.root_var(n['recv'])
        return rv is not None and rv[0] == 'var' and rv[1] in self.elem_roots


def fill_rules(fb, R):
    for name, (unique, emit_name, _kind) in FILLS.items():
        fns = gf_methods(fb, name)
        q = GF + '::' + name
        if not fns:
            R.broken('%s: no instantiated body found' % q)
            continue
        for fn in fns:
            F = Fac(fb, fn)
            if not F.ok:
                R.broken('%s: cannot identify back-end / projection members of %s' % (q, fn.clsT))
                continue
            S = FillShape(fb, fn, F)
            if S.err:
                R.broken('%s: %s' % (fn.full, S.err))
                continue
            _fill_one(fb, R, fn, F, S, name, unique, emit_name, q)


def _fill_one(fb, R, fn, F, S, name, unique, emit_name, q):
    emits = S.emits
    emit_ids = {n['id'] for n in emits}
    site = fn.site

    # ---------------------------------------------------------------- E1 count == emits (functions that return the count)
    if name != 'add_points':
        rets = [n for n in fn.all_nodes() if n.get('k') == 'return' and 'sub' in n]
        key = q + '#count==emits'
        cds = {local_or_param(fn, r['sub']) for r in rets if fn.const_value(r['sub']) is None}
        msg = None
        if not rets or None in cds or len(cds) > 1:
            msg = 'the function does not return one local counter variable (or a constant) on every path'
        cd = next(iter(cds)) if len(cds) == 1 else None
        incs, c0_at = set(), {}
        if msg is None and cd is not None:
            dn, dv = decl_of(fn, cd)
            ws = [w for w in writes(fn) if w[1] == ('var', cd)]
            c0 = fn.const_value(dv['init']) if dv is not None and isinstance(dv.get('init'), int) else None
            okw = all(w[2] == 'inc' or (w[2] == 'compound' and w[0].get('op') == '+=' and fn.const_value(w[3]) == 1) for w in ws) \
                and not address_taken(fn, ('var', cd))
            if c0 is None or not (0 <= c0 <= 2) or not okw:
                msg = 'the returned counter %s must start at a constant and only ever be incremented by one' % (dv['name'] if dv else '?')
            else:
                incs = {w[0]['id'] for w in ws}
                c0_at = {dn['id']: c0}
        if msg is None:
            # D = emits - counter value, E = emits; at `return counter` D must be exactly 0, at `return <constant k>` E must be exactly k
            D = delta_states(fn, lambda n: (1 if n['id'] in emit_ids else 0) - (1 if n['id'] in incs else 0) - c0_at.get(n['id'], 0))
            E = delta_states(fn, lambda n: 1 if n['id'] in emit_ids else 0)
            for r in rets:
                k_ = fn.const_value(r['sub'])
                st_ = (E if k_ is not None else D).get(r['id'])
                want = frozenset([k_ if k_ is not None else 0])
                if st_ != want:
                    msg = ('on some path the number of %s calls differs from the returned count (%s can be %s at `%s`, required %s; 3 means '
                           'unbounded): the count handed to %s_finish would not match the encoded points'
                           % (emit_name, 'emits' if k_ is not None else 'emits - counter', sorted(st_) if st_ else st_, fn.expr(r['id'])[:40], sorted(want),
                              FILLS[name][2]))
                    site = fn.loc(r['id'])
            if msg is None and not emits:
                msg = 'nothing is emitted'
        R.check(msg is None, 'E1-count-equals-emits', key, site, msg or '',
                detail='%d emit site(s), %d increment site(s), emits == returned count at every return' % (len(emits), len(incs)))
        site = fn.site

    # ---------------------------------------------------------------- E2 emitted value is the current element, right back-end method
    key = q + '#emit-arg'
    if not emits:
        R.bad('E2-emits-current-element', key, site, 'no call of the back end\'s %s found: nothing is emitted' % emit_name)
    sentinel = None      # decl id of the "last location" local, when the emit goes through one
    for e in emits:
        msg = None
        if short(e['q']) != emit_name:
            msg = '%s emits through %s, required is %s' % (name, short(e['q']), emit_name)
        x = proj_call_arg(fn, F, e['args'][0]) if len(e.get('args', [])) == 1 else None
        if msg is None and x is None:
            msg = 'the emitted value is not %s(<location>) of this factory' % F.proj
        if msg is None and not S.cur_loc(x):
            d = local_or_param(fn, x)
            dn, dv = decl_of(fn, d) if d is not None else (None, None)
            if dv is None:
                msg = 'the projected value is neither the current element\'s location() nor a local holding it'
            else:
                # definitions of the local: assignments and its initialiser (when it has one that is not a constant sentinel)
                defs = [(w[0]['id'], w[2], w[3]) for w in writes(fn) if w[1] == ('var', d)]
                init = dv.get('init') if isinstance(dv.get('init'), int) else None
                ini = pn(fn, init) if init is not None else None
                init_is_sentinel = ini is None or (ini.get('k') == 'construct' and all('cv' in (pn(fn, a_) or {}) for a_ in ini.get('args', [])))
                if not init_is_sentinel:
                    defs.append((dn['id'], 'assign', init))
                good = [w for w in defs if w[1] in ('opassign', 'assign') and S.cur_loc(w[2])]

                def same_iteration(defid):
                    in_loop_def = fn.in_range(defid, S.loop['b'], S.loop['e']) and S.header in fn.dominators().get(fn.positions()[defid][0], ())
                    in_loop_emit = fn.in_range(e['id'], S.loop['b'], S.loop['e'])
                    return in_loop_def or not in_loop_emit      # a definition before the loop serves only an emit before the loop
                if len(defs) != len(good) or not good or address_taken(fn, ('var', d)):
                    msg = 'local %s is written by something other than `%s = <current element>.location()`' % (dv['name'], dv['name'])
                elif not any(fn.elem_dominates(w[0], e['id']) and same_iteration(w[0]) for w in good):
                    msg = ('the emit projects local %s, but no assignment `%s = <current element>.location()` of the same iteration dominates it '
                           '(the previous element would be emitted)' % (dv['name'], dv['name']))
                else:
                    sentinel = d
        R.check(msg is None, 'E2-emits-current-element', key, fn.loc(e['id']), msg or '',
                detail='%s(%s(%s))' % (short(e['q']), F.proj, fn.expr(x) if x is not None else '?'))

    # ---------------------------------------------------------------- E3 which elements may be skipped
    key = q + '#skip-guard'
    dups = []  # (block id, index of the edge taken when the two locations are EQUAL, cond id, decl of the compared local)
    if unique:
        for blk in fn.blocks.values():
            c = blk.get('cond')
            if c is None or len(blk['succs']) != 2 or blk.get('termcls') == 'SwitchStmt' or not fn.in_range(c, S.loop['b'], S.loop['e']):
                continue
            # the test this block itself evaluates: for `a || b` / `a && b` the earlier operands have blocks of their own and the
            # block that carries the statement's terminator evaluates the last operand
            cn = pn(fn, c)
            neg = False
            while cn is not None:
                if cn.get('k') == 'unop' and cn.get('op') == '!':
                    neg = not neg
                    cn = pn(fn, cn['sub'])
                elif cn.get('k') == 'binop' and cn.get('op') in ('&&', '||') and blk.get('termcls') != 'BinaryOperator':
                    cn = pn(fn, cn['rhs'])
                else:
                    break
            if cn is None or cn.get('k') != 'call' or cn.get('op') not in ('!=', '==') or short(cn.get('q', '')) not in ('operator!=', 'operator=='):
                continue
            ops = list(cn.get('args', []))
            if cn.get('recv') is not None:
                ops = [cn['recv']] + ops
            if len(ops) != 2 or LOC not in (fn.nodes.get(peel(fn, ops[0]), {}).get('t') or ''):
                continue
            x, y = ops
            lx, ly = local_or_param(fn, x), local_or_param(fn, y)
            L = lx if (lx is not None and not S.cur_loc(x) and S.cur_loc(y)) else (ly if (ly is not None and not S.cur_loc(y) and S.cur_loc(x)) else None)
            if L is None:
                continue
            eq_edge = 1 if cn['op'] == '!=' else 0
            if neg:
                eq_edge = 1 - eq_edge
            dups.append((blk['id'], eq_edge, c, L))
        if not dups:
            R.bad('E3-skip-only-consecutive-duplicates', key, site,
                  '%s must drop consecutive duplicates: the loop has no comparison of the current location with the location emitted last' % name)
        elif len({d[3] for d in dups}) != 1:
            R.broken('%s: several duplicate tests against different locals' % fn.full)
            dups = []
        else:
            # the local must hold the location emitted last: all its writes are `L = <current>.location()` inside the loop and on
            # every path the number of such writes equals the number of emits when the iteration ends
            L = dups[0][3]
            lw = [w for w in writes(fn) if w[1] == ('var', L)]
            okw = bool(lw) and all(w[2] in ('opassign', 'assign') and S.cur_loc(w[3]) and fn.in_range(w[0]['id'], S.loop['b'], S.loop['e']) for w in lw) \
                and not address_taken(fn, ('var', L))
            if okw:
                lids = {w[0]['id'] for w in lw}
                ldn, ldv = decl_of(fn, L)
                if ldv is not None and isinstance(ldv.get('init'), int) and S.cur_loc(ldv['init']):
                    lids.add(ldn['id'])      # started from the first element (which is then emitted before the loop)
                st = delta_states(fn, lambda n: (1 if n['id'] in emit_ids else 0) - (1 if n['id'] in lids else 0))
                ends = [fn.blocks[S.header]['elems'][0]] + [n['id'] for n in fn.all_nodes() if n.get('k') == 'return']
                okw = all(st.get(e) == frozenset([0]) for e in ends if e in st)
            R.check(okw, 'E3-skip-only-consecutive-duplicates', q + '#compares-with-last-emitted', fn.loc(dups[0][2]),
                    'the duplicate test compares the current location with a local that does not hold exactly the location emitted last '
                    '(it must be assigned the current location on the paths that emit, and only there)')
            sentinel = L if okw else None
    dup_edges = {(d[0], d[1]) for d in dups}
    dup_blocks = {d[0] for d in dups}

    def edge_ok(b, idx, s):
        return (b, idx) not in dup_edges
    w = path_search(fn, S.body_entry, lambda x: (not isinstance(x, tuple)) and x in S.hdr_ids, lambda x: x in emit_ids, edge_ok, from_block_start=True)
    R.check(w is None, 'E3-skip-only-consecutive-duplicates', key, site,
            'an element can pass through the loop body without being emitted%s: %s'
            % (' although it differs from the previous one' if unique else ' (mode "all" must emit every node)', describe_path(fn, w)),
            detail='unique' if unique else 'all')
    # one step per iteration, no second emit per iteration
    for e in emits:
        w2 = path_search(fn, e['id'], lambda x: (not isinstance(x, tuple)) and x in emit_ids, lambda x: x in S.hdr_ids)
        R.check(w2 is None, 'E3-skip-only-consecutive-duplicates', q + '#one-emit-per-element', fn.loc(e['id']),
                'an element can be emitted twice within one iteration: %s' % describe_path(fn, w2))

    # ---------------------------------------------------------------- E4 first element
    if unique and dups and sentinel is not None:
        dn, dv = decl_of(fn, sentinel)
        init = pn(fn, dv.get('init')) if dv is not None and isinstance(dv.get('init'), int) else None
        # a sentinel built from nothing / from constants is itself a possible element value
        is_const_loc = init is not None and init.get('k') == 'construct' and init.get('q') == LOC + '::(ctor)' and \
            all((pn(fn, a) or {}).get('k') == 'lit' or 'cv' in (pn(fn, a) or {}) for a in init.get('args', []))
        # a first-element path: the emit can be reached in an iteration without going through the duplicate test at all
        # (`if (first || last != cur)`, `if (num_points == 0 || ...)`)
        bypass = None
        if S.body_entry not in dup_blocks:
            bypass = path_search(fn, S.body_entry, lambda x: (not isinstance(x, tuple)) and x in emit_ids, lambda x: False,
                                 lambda b, idx, s_: s_ not in dup_blocks, from_block_start=True)
        # ... or the comparison is only one operand of the deciding condition (`first || last != cur`, `!first && last == cur`)
        compound = False
        for d_ in dups:
            x = pn(fn, fn.blocks[d_[0]].get('cond'))
            while x is not None and x.get('k') == 'unop' and x.get('op') == '!':
                x = pn(fn, x['sub'])
            if x is not None and x.get('k') == 'binop' and x.get('op') in ('&&', '||'):
                compound = True
        is_default = is_const_loc and not init.get('args')
        # ... or (undefined sentinel only) an invalid current location cannot reach the comparison: it was projected / read through the
        # checked accessors before, or the comparison is guarded by a validity test of the current location
        validated = False
        if is_default:
            for d_ in dups:
                els_ = fn.blocks[d_[0]]['elems']
                ref_ = els_[-1] if els_ else d_[2]      # the comparison itself (last element of the deciding block)
                for n_ in fn.all_nodes():
                    if n_.get('k') != 'call' or not fn.in_range(n_['id'], S.loop['b'], S.loop['e']) or not fn.elem_dominates(n_['id'], ref_):
                        continue
                    if proj_call_arg(fn, F, n_['id']) is not None and S.cur_loc(proj_call_arg(fn, F, n_['id'])):
                        validated = True
                    if n_.get('q') in (LOC + '::lon', LOC + '::lat') and n_.get('recv') is not None and S.cur_loc(n_['recv']):
                        validated = True
                for (g, sense, _b) in guards_of(fn, ref_):
                    gn = pn(fn, g)
                    if gn is not None and gn.get('k') == 'call' and gn.get('recv') is not None and S.cur_loc(gn['recv']):
                        nm_ = short(gn.get('q', ''))
                        if (nm_ in ('valid', 'is_valid', 'is_defined', '(conv)', 'operator bool') and sense) or (nm_ == 'is_undefined' and not sense):
                            validated = True
        R.check(not is_const_loc or bypass is not None or compound or validated, 'E4-first-element-never-skipped',
                q + ('#sentinel' if (is_default or not is_const_loc) else '#sentinel-constant'), fn.loc(dn['id']) if dn else site,
                'the duplicate filter starts from a constant osmium::Location (%s; default = undefined) and every element, including the first, '
                'is compared with it: a first element with exactly that location is dropped silently -- for the undefined location instead of '
                'raising invalid_location (e.g. locations [undefined, A, B] yield the geometry A,B)'
                % (fn.expr(dv['init']) if dv is not None and isinstance(dv.get('init'), int) else '?'))


# ================================================================================================ constructors

def ctor_rules(fb, R):
    """C1: every constructor of GeometryFactory hands ALL its settings parameters to the back end (after the epsg of ITS projection
    member), moves its projection parameter into the projection member, and uses every parameter exactly once; the projection
    member is declared before the back end (it is read while the back end is initialised)."""
    q = GF + '::(ctor)'
    ctors = [f for f in fb.fns(q) if f.has_cfg]
    if not ctors:
        R.broken('no GeometryFactory constructor instantiated')
        return
    seen = set()
    for fn in ctors:
        F = Fac(fb, fn)
        if not F.ok:
            R.broken('%s: cannot identify back-end / projection members' % fn.full)
            continue
        rec = next((r for r in fb.records_named(GF) if r.full == fn.clsT), None)
        if rec is not None:
            fi = {f['name']: f['idx'] for f in rec.fields}
            R.check(fi[F.proj] < fi[F.impl], 'C1-ctor-forwards-settings', GF + '#projection-member-declared-before-back-end',
                    '%s:%d' % (rec.file, rec.line),
                    'member %s (the back end) is initialised from %s.epsg() but is declared before it: the projection is read uninitialised'
                    % (F.impl, F.proj))
        pproj = [p for p in fn.params if p['tC'].replace('const ', '').rstrip('& ').strip() == F.proj_t]
        settings = [p for p in fn.params if p not in pproj]
        # copy / move constructors of the factory itself are not settings constructors
        if len(fn.params) == 1 and fn.params[0]['tC'].replace('const ', '').rstrip('& ').strip().startswith(GF):
            continue
        shape = ('projection' if pproj else 'default-projection') + ('+settings' if settings else '')
        key = '%s#%s/%s' % (q, shape, short(F.impl_t))
        seen.add((shape, short(F.impl_t)))
        inits = {n.get('name'): n for n in fn.all_nodes() if n.get('k') == 'init' and 'name' in n}
        msg = None
        ii = inits.get(F.impl)
        c = pn(fn, ii['init']) if ii is not None and isinstance(ii.get('init'), int) else None
        if c is None or c.get('k') != 'construct' or not c.get('q', '').startswith(F.impl_t + '::'):
            msg = 'the back end member %s is not initialised by a constructor call' % F.impl
        else:
            # explicit arguments (defaulted ones are materialised by the compiler as CXXDefaultArgExpr)
            args = [a for a in c.get('args', []) if not fn.nodes.get(a, {}).get('defarg')]
            e = pn(fn, args[0]) if args else None
            # epsg() is a static member of the projection: called through the member or through the projection type, it is the same function
            if e is None or e.get('k') != 'call' or short(e.get('q', '')) != 'epsg' or not (
                    recv_field(fn, e) == F.proj or e.get('q') == F.proj_t + '::epsg'):
                msg = 'the first argument of the back end is not %s.epsg() of this factory\'s projection (found %s)' % (F.proj, fn.expr(args[0]) if args else 'nothing')
            else:
                got = [local_or_param(fn, a) for a in args[1:]]
                want = [p['d'] for p in settings]
                if got != want:
                    names = lambda ds: [next((p['name'] or '?') + ':' + p['tC'] for p in fn.params if p['d'] == d) if d is not None else '<expr>' for d in ds]
                    msg = ('the constructor takes the settings %s but passes %s on to the back end: settings given together with %s are silently '
                           'ignored / reordered' % (names(want), names(got) or 'none', 'a projection object' if pproj else 'the default projection'))
        if msg is None and pproj:
            pi = inits.get(F.proj)
            if pi is None or not isinstance(pi.get('init'), int) or local_or_param(fn, pn(fn, pi['init'])['args'][0] if pn(fn, pi['init']).get('k') == 'construct'
                                                                                   and pn(fn, pi['init']).get('args') else pi['init']) != pproj[0]['d']:
                msg = 'the projection parameter is not moved into the member %s' % F.proj
        if msg is None:
            # every parameter is used exactly once
            for prm in fn.params:
                uses = [n for n in fn.all_nodes() if n.get('k') == 'var' and n.get('d') == prm['d']]
                if len(uses) != 1:
                    msg = 'parameter %s (%s) is used %d times, required exactly once' % (prm['name'] or '?', prm['tC'], len(uses))
        R.check(msg is None, 'C1-ctor-forwards-settings', key, fn.site, 'GeometryFactory constructor: %s' % msg,
                detail='%s(%s)' % (F.impl, ', '.join(['epsg()'] + [p['tC'] for p in settings])))
    # the property needs both settings constructors to exist for every back end
    impls = {short(f.cls_targs[0]) for f in ctors if f.cls_targs}
    for impl in sorted(impls):
        for shape in ('default-projection+settings', 'projection+settings'):
            if (shape, impl) not in seen:
                R.bad('C1-ctor-forwards-settings', '%s#%s/%s' % (q, shape, impl), GF,
                      'no constructor of GeometryFactory<%s, ...> takes %s together with back-end settings (not instantiated by drivers/geom.cpp)'
                      % (impl, 'a projection object' if shape.startswith('projection') else 'the default projection'))


# ================================================================================================ wrappers

WRAPPERS = ['linestring_start', 'linestring_finish', 'polygon_start', 'polygon_finish']


def wrapper_rules(fb, R):
    for name in WRAPPERS:
        q = GF + '::' + name
        fns = gf_methods(fb, name)
        if not fns:
            R.bad('W1-wrapper-forwards', q + '#forwards', '%s' % q, 'wrapper %s not found / not instantiated' % q)
            continue
        for fn in fns:
            F = Fac(fb, fn)
            if not F.ok:
                R.broken('%s: cannot identify back-end member' % fn.full)
                continue
            calls = [n for n in fn.all_nodes() if impl_call(fn, F, n)]
            good = [n for n in calls if impl_call(fn, F, n) == name]
            ids = {n['id'] for n in good}
            ok = len(calls) == 1 and len(good) == 1
            msg = 'must call %s.%s exactly once and nothing else on the back end' % (F.impl, name)
            if ok:
                w = path_search(fn, fn.entry, exit_t, lambda e: e in ids, from_block_start=True)
                ok = w is None
            if ok:
                c = good[0]
                want = [p['d'] for p in fn.params]
                got = [local_or_param(fn, a) for a in c.get('args', [])]
                if want != got:
                    ok, msg = False, 'must pass its parameter(s) on unchanged'
            if ok and fn.retC != 'void':
                rets = [n for n in fn.all_nodes() if n.get('k') == 'return']
                if not rets or any(origin(fn, r.get('sub')) != good[0]['id'] for r in rets):
                    ok, msg = False, 'must return the result of the back-end call'
            R.check(ok, 'W1-wrapper-forwards', q + '#forwards', fn.site, '%s %s' % (q, msg))


# ================================================================================================ protocol automata

LINE_AUTOMATON = {
    # state -> {event: next state}
    'S0': {'start': 'A0'},
    'A0': {'fill': 'A1'},
    'A1': {'finish': 'END'},
    'END': {},
}
MP_AUTOMATON = {
    'S0': {'multipolygon_start': 'M0'},
    'M0': {'multipolygon_polygon_start': 'P0'},
    'P0': {'multipolygon_outer_ring_start': 'RO'},
    'RO': {'add': 'RO', 'multipolygon_outer_ring_finish': 'P1'},
    'P1': {'multipolygon_inner_ring_start': 'RI', 'multipolygon_polygon_finish': 'M1'},
    'RI': {'add': 'RI', 'multipolygon_inner_ring_finish': 'P1'},
    'M1': {'multipolygon_polygon_start': 'P0', 'multipolygon_finish': 'END'},
    'END': {},
}
MP_NO_RING_STATES = ('S0', 'M0')
MP_STATE_TEXT = {'S0': 'nothing started', 'M0': 'multipolygon started, no polygon yet', 'P0': 'polygon open, no ring yet',
                 'RO': 'outer ring open', 'RI': 'inner ring open', 'P1': 'polygon open with closed ring(s)',
                 'M1': 'polygon(s) closed, none open', 'END': 'multipolygon finished'}


class _Violation(Exception):
    def __init__(self, msg, nid, fn=None):
        Exception.__init__(self, msg)
        self.nid = nid
        self.fn = fn


FILL_V = ('fill',)      # abstract value: the count returned by the fill call of this path
FIN_V = ('fin',)        # abstract value: the geometry returned by the finish call of this path


class Proto:
    """Interprocedural abstract interpretation of a create_* function over (protocol state) x (abstract values of integer
    locals: constant / >= 1 / fill result / finish result).  Calls of other GeometryFactory members that are not protocol
    events themselves (extracted helpers) are explored from the current protocol state with their arguments bound, so
    moving a part of the function into a helper changes nothing.  Branches whose condition is decided by the abstract
    values are followed exactly (`num_polygons > 0`, `num_rings == 0`)."""

    def __init__(self, fb, F, cls_t, automaton, classify, on_event=None, drop=None, throw_ok=None, state_text=None):
        self.fb, self.F, self.cls_t = fb, F, cls_t
        self.automaton, self.classify = automaton, classify
        self.on_event = on_event
        self.drop = drop or (lambda ev, ps: False)
        self.throw_ok = throw_ok or (lambda ps: True)
        self.state_text = state_text or (lambda ps: ps)
        self.memo = {}
        self.budget = 40000

    # -------------------------------------------------------------- abstract values
    def value(self, fn, nid, env, cr):
        x = origin(fn, nid)
        n = fn.nodes.get(x) if x is not None else None
        if n is None:
            return TOP
        if n['id'] in cr:
            return cr[n['id']]
        if n.get('k') == 'var' and n.get('vk') in ('local', 'param'):
            return env.get(n['d'], TOP)
        c = fn.const_value(x)
        if c is not None:
            return ('c', c)
        return TOP

    def helper(self, fn, n):
        """Fn of a GeometryFactory member called on *this that is not itself a protocol event."""
        if n.get('k') != 'call' or not n.get('q', '').startswith(GF + '::') or n.get('recv') is None or not is_this(fn, n['recv']):
            return None
        cands = [g for g in self.fb.by_usr.get(n.get('u'), []) if g.has_cfg and g.clsT == self.cls_t]
        return cands[0] if cands else None

    # -------------------------------------------------------------- exploration
    def run(self, fn, ps, args, depth=0, top=False):
        """-> set of (protocol state at return, abstract return value)"""
        key = (fn.id, fn.full, ps, tuple(args))
        if not top and key in self.memo:
            return self.memo[key]
        if depth > 4:
            raise _Violation('helper calls nested too deeply to follow', None, fn)
        env0 = {p['d']: a for p, a in zip(fn.params, args) if a is not TOP}
        upd = _counter_updates(fn)
        outcomes = set()
        seen = set()
        work = [(fn.entry, (ps, frozenset(env0.items()), frozenset()))]
        while work:
            b, st = work.pop()
            if (b, st) in seen:
                continue
            seen.add((b, st))
            self.budget -= 1
            if self.budget < 0:
                raise _Violation('state space too large', None, fn)
            blk = fn.blocks[b]
            states = [st]
            for e in blk['elems']:
                nxt = []
                for s_ in states:
                    nxt.extend(self.step(fn, s_, fn.nodes[e], upd, depth, top, outcomes))
                states = nxt
                if not states:
                    break
            if not states:
                continue
            if b == fn.exit or is_abort_block(fn, b):
                continue
            succs = blk['succs']
            for s_ in states:
                if 'cond' in blk and len(succs) == 2 and blk.get('termcls') != 'SwitchStmt':
                    r = abs_cond(fn, blk['cond'], {d: v for d, v in s_[1] if v is None or v[0] in ('c', 'pos')})
                    idxs = [0, 1] if r is None else ([0] if r else [1])
                else:
                    idxs = range(len(succs))
                for i in idxs:
                    if succs[i] is not None:
                        if succs[i] == fn.exit and not top:
                            outcomes.add((s_[0], TOP))      # falls off the end of a void helper
                        work.append((succs[i], s_))
        if not top:
            self.memo[key] = outcomes
        return outcomes

    def step(self, fn, st, n, upd, depth, top, outcomes):
        ps, env, cr = st
        envd, crd = dict(env), dict(cr)
        nid = n['id']
        k = n.get('k')
        if k == 'decl':
            for v in n['vars']:
                if isinstance(v.get('init'), int):
                    envd[v['d']] = self.value(fn, v['init'], envd, crd)
        if nid in upd:
            d, v = upd[nid]
            if v == 'inc':
                envd[d] = POS
            elif v is not None and v[0] == 'expr':
                envd[d] = self.value(fn, v[1], envd, crd)
            else:
                envd[d] = v
        ev = self.classify(fn, n)
        results = None
        if ev is not None:
            if ev.startswith('foreign:'):
                raise _Violation('calls %s, which belongs to another geometry kind' % ev[8:], nid, fn)
            nxt = self.automaton[ps].get(ev)
            if nxt is None:
                if self.drop(ev, ps):
                    return []
                raise _Violation('%s while %s' % (ev, self.state_text(ps)), nid, fn)
            if self.on_event is not None:
                val = self.on_event(self, fn, n, ev, envd, crd)
                if val is not None:
                    crd[nid] = val
            ps = nxt
        else:
            h = self.helper(fn, n) if k == 'call' else None
            if h is not None:
                args = [self.value(fn, a, envd, crd) for a in n.get('args', [])]
                results = self.run(h, ps, args, depth + 1)
                if not results:
                    return []       # the helper never returns normally on this path (always throws)
        if k == 'return':
            val = self.value(fn, n['sub'], envd, crd) if 'sub' in n else TOP
            if top:
                self.at_top_return(fn, n, ps, val)
            else:
                outcomes.add((ps, val))
            return []
        if k == 'throw':
            if not n.get('rethrow') and not self.throw_ok(ps):
                raise _Violation('an exception is thrown while %s: valid input is rejected' % self.state_text(ps), nid, fn)
            return []
        if results is not None:
            out = []
            for (ps2, val) in results:
                c2 = dict(crd)
                if val is not TOP:
                    c2[nid] = val
                out.append((ps2, frozenset(envd.items()), frozenset(c2.items())))
            return out
        return [(ps, frozenset(envd.items()), frozenset(crd.items()))]

    def at_top_return(self, fn, n, ps, val):
        if ps != 'END':
            raise _Violation('return while %s: the geometry was not finished' % self.state_text(ps), n['id'], fn)
        if val != FIN_V:
            raise _Violation('the returned value is not the result of the finish call of this path', n['id'], fn)
        self.reached = True


def _geom_error_throw(n):
    return n.get('k') == 'throw' and not n.get('rethrow') and (GEOM_ERROR in (n.get('bases') or []) or (n.get('tt') or '').endswith('geometry_error'))


def protocol_rules(fb, R):
    # ---- linestring / polygon
    for kind in ('linestring', 'polygon'):
        name = 'create_' + kind
        q = GF + '::' + name
        fns = [f for f in gf_methods(fb, name) if f.params and f.params[0]['tC'].endswith('WayNodeList &')]
        if not fns:
            R.bad('T1-create-protocol', q + '#protocol', q, '%s(const WayNodeList&, ...) not found / not instantiated' % q)
            continue
        for fn in fns:
            F = Fac(fb, fn)
            if not F.ok:
                R.broken('%s: cannot identify back-end member' % fn.full)
                continue
            _line_protocol(fb, R, fn, F, kind, q)
        # the Way overload forwards to the list overload with the same un / dir
        ways = [f for f in gf_methods(fb, name) if f.params and f.params[0]['tC'].endswith('Way &')]
        for fn in ways:
            calls = [n for n in fn.all_nodes() if self_call(fn, n) == name]
            ok = len(calls) == 1
            if ok:
                c = calls[0]
                a = c.get('args', [])
                ok = len(a) == 3 and local_or_param(fn, a[1]) == fn.params[1]['d'] and local_or_param(fn, a[2]) == fn.params[2]['d']
                l = onode(fn, a[0]) if a else None
                ok = ok and l is not None and l.get('k') == 'call' and l.get('q') == 'osmium::Way::nodes' \
                    and local_or_param(fn, l.get('recv')) == fn.params[0]['d']
                rets = [n for n in fn.all_nodes() if n.get('k') == 'return']
                ok = ok and bool(rets) and all(origin(fn, r.get('sub')) == c['id'] for r in rets)
            R.check(ok, 'T1-create-protocol', q + '#way-overload-forwards', fn.site,
                    '%s(const Way&, un, dir) must return %s(way.nodes(), un, dir) with both options passed on unchanged' % (name, name))
        if not ways:
            R.bad('T1-create-protocol', q + '#way-overload-forwards', q, '%s(const Way&, ...) not found' % q)
    # ---- multipolygon
    q = GF + '::create_multipolygon'
    fns = gf_methods(fb, 'create_multipolygon')
    if not fns:
        R.bad('T1-create-protocol', q + '#protocol', q, '%s not found / not instantiated' % q)
    for fn in fns:
        F = Fac(fb, fn)
        if not F.ok:
            R.broken('%s: cannot identify back-end member' % fn.full)
            continue
        _mp_protocol(fb, R, fn, F, q)


def _counter_updates(fn):
    """{node id: (decl, new abstract value | 'inc')} for locals of integer type written in the body."""
    upd = {}
    for (n, key, kind, rhs) in writes(fn):
        if key[0] != 'var':
            continue
        if kind == 'inc' or (kind == 'compound' and n.get('op') == '+=' and (fn.const_value(rhs) or 0) >= 1):
            upd[n['id']] = (key[1], 'inc')
        elif kind == 'assign':
            v = fn.const_value(rhs)
            upd[n['id']] = (key[1], ('c', v) if v is not None else ('expr', rhs))
        else:
            upd[n['id']] = (key[1], TOP)
    return upd


def _line_protocol(fb, R, fn, F, kind, q):
    key = q + '#protocol'
    fill_names = {k for k, v in FILLS.items() if v[2] == kind}
    start_n, finish_n, add_n = kind + '_start', kind + '_finish', kind + '_add_location'

    def classify(f, n):
        if n.get('k') != 'call':
            return None
        nm = impl_call(f, F, n) or self_call(f, n)
        if nm is None:
            return None
        if nm == start_n:
            return 'start'
        if nm == finish_n:
            return 'finish'
        if nm in fill_names or nm == add_n:
            return 'fill'
        if nm in FILLS or (impl_call(f, F, n) and (nm.endswith(('_start', '_finish', '_add_location')) or nm.startswith('make_'))):
            return 'foreign:' + nm
        return None

    def on_event(P, f, n, ev, env, cr):
        if ev == 'fill':
            return FILL_V
        if ev == 'finish':
            a = n.get('args', [])
            v = P.value(f, a[0], env, cr) if len(a) == 1 else TOP
            if v != FILL_V:
                raise _Violation('the count passed to %s_finish is not the value returned by the fill call of this path (it is %s)'
                                 % (kind, f.expr(a[0]) if a else 'missing'), n['id'], f)
            return FIN_V
        return None
    P = Proto(fb, F, fn.clsT, LINE_AUTOMATON, classify, on_event,
              state_text=lambda ps: {'S0': 'nothing has been started', 'A0': '%s_start was called but no points were added' % kind,
                                     'A1': 'the points were added (required order: %s_start, one fill, %s_finish)' % (kind, kind),
                                     'END': 'the %s is already finished' % kind}[ps])
    P.reached = False
    try:
        P.run(fn, 'S0', [TOP] * len(fn.params), top=True)
        R.check(P.reached, 'T1-create-protocol', key, fn.site, 'no path returns a finished %s' % kind)
    except _Violation as v:
        g = v.fn or fn
        R.bad('T1-create-protocol', key, g.loc(v.nid) if v.nid is not None else g.site, '%s: %s' % (short(g.q), v))


def _mp_protocol(fb, R, fn, F, q):
    key = q + '#protocol'

    def classify(f, n):
        if n.get('k') != 'call':
            return None
        nm = impl_call(f, F, n)
        if nm is not None:
            return 'add' if nm == 'multipolygon_add_location' else nm
        nm = self_call(f, n)
        if nm == 'add_points':
            return 'add'
        if nm in FILLS:
            return 'foreign:' + nm
        return None

    def on_event(P, f, n, ev, env, cr):
        return FIN_V if ev == 'multipolygon_finish' else None
    P = Proto(fb, F, fn.clsT, MP_AUTOMATON, classify, on_event,
              # ASSUMPTION: an inner ring never precedes the first outer ring of an area
              drop=lambda ev, ps: ev == 'multipolygon_inner_ring_start' and ps == 'M0',
              throw_ok=lambda ps: ps in MP_NO_RING_STATES,
              state_text=lambda ps: MP_STATE_TEXT[ps] + ' (required: multipolygon_start, then per outer ring polygon_start, outer_ring_start, '
              'points, outer_ring_finish, per inner ring inner_ring_start, points, inner_ring_finish, then polygon_finish before the next '
              'polygon_start and before multipolygon_finish)')
    P.reached = False
    try:
        P.run(fn, 'S0', [TOP] * len(fn.params), top=True)
        R.check(P.reached, 'T1-create-protocol', key, fn.site,
                'no path reaches `return multipolygon_finish()` in the finished state: every area would be rejected')
    except _Violation as v:
        g = v.fn or fn
        R.bad('T1-create-protocol', key, g.loc(v.nid) if v.nid is not None else g.site, '%s: %s' % (short(g.q), v))


# ================================================================================================ dispatch table

def _enum_names(fb, q):
    e = fb.enum(q)
    if e is None:
        return None
    return {int(x['value']): x['name'] for x in e['enumerators']}


def _eval_bool(fn, nid, env):
    """Concrete truth of a condition over env {decl id: integer}; None when it depends on anything else."""
    n = pn(fn, nid)
    if n is None:
        return None
    k = n.get('k')
    if k == 'unop' and n.get('op') == '!':
        r = _eval_bool(fn, n['sub'], env)
        return None if r is None else (not r)
    if k == 'binop' and n.get('op') in ('&&', '||'):
        a, b = _eval_bool(fn, n['lhs'], env), _eval_bool(fn, n['rhs'], env)
        if n['op'] == '&&':
            if a is False or b is False:
                return False
            return True if (a is True and b is True) else None
        if a is True or b is True:
            return True
        return False if (a is False and b is False) else None
    if k == 'binop' and n.get('op') in ('==', '!=', '<', '<=', '>', '>='):
        vals = []
        for x in (n['lhs'], n['rhs']):
            d = local_or_param(fn, x)
            v = env.get(d) if d is not None and d in env else fn.const_value(x)
            vals.append(v)
        if None in vals:
            return None
        a, b = vals
        return {'==': a == b, '!=': a != b, '<': a < b, '<=': a <= b, '>': a > b, '>=': a >= b}[n['op']]
    if k == 'condop':
        c = _eval_bool(fn, n['cond'], env)
        if c is None:
            return None
        return _eval_bool(fn, n['then'] if c else n['else'], env)
    if k == 'var':
        d = local_or_param(fn, nid)
        if d in env:
            return bool(env[d])
    c = fn.const_value(nid)
    return None if c is None else bool(c)


def _reachable_calls(fn, env):
    """Call nodes in the blocks that can execute when the variables in env have the given values (branches that depend only
    on them are followed exactly, switch statements over them select their case; everything else is followed both ways)."""
    seen = set()
    work = [fn.entry]
    out = []
    while work:
        b = work.pop()
        if b in seen:
            continue
        seen.add(b)
        blk = fn.blocks[b]
        for e in blk['elems']:
            n = fn.nodes[e]
            if n.get('k') == 'call':
                out.append(n)
        if is_abort_block(fn, b) or any(fn.nodes[e].get('k') in ('throw', 'return') for e in blk['elems']):
            continue
        succs = blk['succs']
        if blk.get('termcls') == 'SwitchStmt' and 'cond' in blk:
            d = local_or_param(fn, blk['cond'])
            if d in env:
                hit = [s for s in succs if s is not None and 'case' in (fn.blocks[s].get('label') or {})
                       and fn.const_value(fn.blocks[s]['label']['case']) == env[d]]
                other = [s for s in succs if s is not None and 'case' not in (fn.blocks[s].get('label') or {})]
                work.extend(hit if hit else other)
                continue
            work.extend(s for s in succs if s is not None)
            continue
        if 'cond' in blk and len(succs) == 2:
            r = _eval_bool(fn, blk['cond'], env)
            idxs = (0, 1) if r is None else ((0,) if r else (1,))
            work.extend(succs[i] for i in idxs if succs[i] is not None)
            continue
        work.extend(s for s in succs if s is not None)
    return out


_BEGIN = {'begin': ('forward', 0), 'cbegin': ('forward', 0), 'end': ('forward', 1), 'cend': ('forward', 1),
          'rbegin': ('backward', 0), 'crbegin': ('backward', 0), 'rend': ('backward', 1), 'crend': ('backward', 1)}


def dispatch_rules(fb, R):
    un_names = _enum_names(fb, 'osmium::geom::use_nodes')
    dir_names = _enum_names(fb, 'osmium::geom::direction')
    if not un_names or not dir_names or set(un_names.values()) != {'unique', 'all'} or set(dir_names.values()) != {'forward', 'backward'}:
        R.broken('enums osmium::geom::use_nodes {unique, all} / direction {forward, backward} not found')
        return
    class _Broken(Exception):
        pass

    def roles(f):
        """(list param, use_nodes param, direction param) decl ids of a function, by parameter type."""
        pl = [p['d'] for p in f.params if 'NodeRefList' in p['tC'] or 'WayNodeList' in p['tC']]
        pu = [p['d'] for p in f.params if 'use_nodes' in p['tC']]
        pd = [p['d'] for p in f.params if p['tC'].replace('const ', '').strip().endswith('direction')]
        if len(pl) > 1 or len(pu) > 1 or len(pd) > 1:
            raise _Broken('%s: ambiguous parameter roles' % f.full)
        return (pl[0] if pl else None, pu[0] if pu else None, pd[0] if pd else None)

    def collect(f, kind, uval, dval, depth, out):
        """fill call sites that can execute in f (and the helpers it calls) when use_nodes == uval and direction == dval."""
        pl, pu, pd = roles(f)
        env = {}
        if pu is not None:
            env[pu] = uval
        if pd is not None:
            env[pd] = dval
        for n in _reachable_calls(f, env):
            nm = self_call(f, n)
            if nm is None:
                continue
            if nm in FILLS and FILLS[nm][2] == kind:
                out.append((f, n, nm, pl))
                continue
            if nm in FILLS or nm.startswith('create_') or nm.endswith(('_start', '_finish')):
                continue
            cands = [g for g in fb.by_usr.get(n.get('u'), []) if g.has_cfg and g.clsT == f.clsT]
            if not cands:
                continue
            h = cands[0]
            if depth >= 3:
                raise _Broken('%s: helper calls nested too deeply' % f.full)
            # options / list handed to the helper must be the caller's own, unchanged
            hl, hu, hd = roles(h)
            for (hp, mine, what) in ((hl, pl, 'list'), (hu, pu, 'use_nodes'), (hd, pd, 'direction')):
                if hp is None:
                    continue
                i = param_index(h, hp)
                a = n.get('args', [])
                if i is None or i >= len(a) or mine is None or local_or_param(f, a[i]) != mine:
                    raise _Broken('%s: helper %s does not receive the %s parameter unchanged' % (f.full, nm, what))
            collect(h, kind, uval, dval, depth + 1, out)

    for kind in ('linestring', 'polygon'):
        name = 'create_' + kind
        q = GF + '::' + name
        fns = [f for f in gf_methods(fb, name) if f.params and f.params[0]['tC'].endswith('WayNodeList &')]
        for fn in fns:
            try:
                pl0, pu0, pd0 = roles(fn)
                if pl0 is None or pu0 is None or pd0 is None:
                    raise _Broken('%s: expected (list, use_nodes, direction) parameters' % fn.full)
                found = {}
                for uval, u in un_names.items():
                    for dval, dr in dir_names.items():
                        sites_ = []
                        collect(fn, kind, uval, dval, 0, sites_)
                        found[(u, dr)] = sites_
            except _Broken as e:
                R.broken(str(e))
                continue
            for u in ('unique', 'all'):
                for dr in ('forward', 'backward'):
                    key = '%s#%s/%s' % (q, u, dr)
                    sites = found.get((u, dr), [])
                    if not sites:
                        R.bad('D1-direction-and-uniqueness-dispatch', key, fn.site,
                              'no fill call is reached for use_nodes::%s, direction::%s: such a request produces no points' % (u, dr))
                        continue
                    for (f, n, nm, pl) in sites:
                        msg = None
                        if FILLS[nm][0] != (u == 'unique'):
                            msg = 'use_nodes::%s reaches %s' % (u, nm)
                        a = n.get('args', [])
                        its = []
                        for x in a:
                            c = onode(f, x)
                            # reverse iterators are wrapped in a converting construction
                            hops = 0
                            while c is not None and c.get('k') == 'construct' and len(c.get('args', [])) == 1 and hops < 3:
                                c = onode(f, c['args'][0])
                                hops += 1
                            if c is None or c.get('k') != 'call' or short(c.get('q', '')) not in _BEGIN or c.get('recv') is None:
                                its.append(None)
                            else:
                                its.append((short(c['q']), local_or_param(f, c['recv'])))
                        if msg is None and (len(its) != 2 or None in its):
                            msg = 'arguments of %s are not begin/end iterators of the list' % nm
                        if msg is None:
                            (n0, r0), (n1, r1) = its
                            if pl is None or r0 != pl or r1 != pl:
                                msg = 'iterators are not taken from the list parameter'
                            elif _BEGIN[n0][0] != dr or _BEGIN[n1][0] != dr:
                                msg = 'direction::%s reaches %s(%s(), %s())' % (dr, nm, n0, n1)
                            elif _BEGIN[n0][1] != 0 or _BEGIN[n1][1] != 1:
                                msg = 'iterator pair (%s(), %s()) is not (begin, end)' % (n0, n1)
                        R.check(msg is None, 'D1-direction-and-uniqueness-dispatch', key, f.loc(n['id']), msg or '',
                                detail='%s(%s)' % (nm, ', '.join('%s()' % i[0] for i in its if i)))
    # D2
    for (name, inner) in (('crbegin', 'cend'), ('crend', 'cbegin')):
        q = 'osmium::NodeRefList::' + name
        fns = fb.fns(q)
        if not fns:
            R.bad('D2-reverse-iterators', '%s#wraps-%s' % (q, inner), q, '%s not found' % q)
        for fn in fns:
            rets = [n for n in fn.all_nodes() if n.get('k') == 'return']
            ok = bool(rets)
            for r in rets:
                x = pn(fn, r.get('sub'), explicit_noop=True)
                hops = 0
                while x is not None and x.get('k') in ('construct', 'cast') and hops < 4:
                    nxt = x['args'][0] if x.get('k') == 'construct' and len(x.get('args', [])) == 1 else x.get('sub')
                    x = pn(fn, nxt, explicit_noop=True) if nxt is not None else None
                    hops += 1
                ok = ok and x is not None and x.get('k') == 'call' and x.get('q') == 'osmium::NodeRefList::' + inner and is_this(fn, x.get('recv'))
            R.check(ok, 'D2-reverse-iterators', '%s#wraps-%s' % (q, inner), fn.site, '%s must return reverse_iterator(%s())' % (name, inner))


# ================================================================================================ degenerate thresholds

def _threshold_guard(fb, R, fn, target, counter_d, k, rule, key, what):
    """target (node id) executes iff counter >= k, decided over all counter values; failing edges throw geometry_error."""
    gs = [(c, s, b) for (c, s, b) in guards_of(fn, target) if fn.blocks[b].get('cond') == c]
    rel = []
    for (c, s, b) in gs:
        if any(local_or_param(fn, x) == counter_d for x in fn.subtree(c) if fn.nodes[x].get('k') == 'var'):
            rel.append((c, s, b))
    if not rel:
        R.bad(rule, key, fn.loc(target), '%s is not guarded by a test of the point counter: %s' % (fn.expr(target)[:60], what))
        return

    def atoms(f, n):
        if n.get('k') == 'var' and n.get('d') == counter_d:
            return ('n', OT.UINT64)
        return None
    try:
        progs = [(OT.compile_expression(fb, fn, c, atoms), s) for (c, s, _b) in rel]
    except OT.Inexact as e:
        R.broken('%s: guard of %s is not comparison-only: %s' % (fn.full, fn.expr(target)[:40], e))
        return
    consts = set([k, k - 1, 0])
    for p, _s in progs:
        consts |= set(p.consts)
    bad = None
    for w in OT.worlds({'n': OT.UINT64}, consts):
        reach = all(OT.run(p, w).as_bool() == bool(s) for (p, s) in progs)
        want = w.ge('n', k)
        if reach != want:
            bad = w
            break
    ok = R.check(bad is None, rule, key, fn.loc(rel[0][0]),
                 '%s: for counter %s the finish call is %s but must be %s' % (what, bad.witness() if bad else '', 'reached' if bad and not bad.ge('n', k) else 'not reached',
                                                                              'rejected' if bad and not bad.ge('n', k) else 'accepted'),
                 detail='guards %s decided over %d order types' % ([fn.expr(c) for (c, _s, _b) in rel], len(list(OT.worlds({'n': OT.UINT64}, consts)))))
    # failing edges throw geometry_error before anything else happens to the back end
    for (c, s, b) in rel:
        fail = fn.blocks[b]['succs'][1 if s else 0]
        if fail is None:
            continue
        thr = [n for n in fn.all_nodes() if _geom_error_throw(n)]
        tids = {n['id'] for n in thr}
        w = path_search(fn, fail, lambda e: exit_t(e) or ((not isinstance(e, tuple)) and fn.nodes[e].get('k') in ('return', 'call') and e not in tids
                                                           and fn.nodes[e].get('q', '').startswith(('osmium::geom::', GF))),
                        lambda e: e in tids, from_block_start=True)
        R.check(w is None and bool(thr), rule, key + '/throws', fn.loc(c),
                '%s: the rejecting edge of `%s` does not throw osmium::geometry_error on every path: %s' % (what, fn.expr(c), describe_path(fn, w)))
    return ok


def threshold_rules(fb, R):
    for kind, k in (('linestring', 2), ('polygon', 4)):
        name = 'create_' + kind
        q = GF + '::' + name
        key = '%s#min-points-%d' % (q, k)
        fns = [f for f in gf_methods(fb, name) if f.params and f.params[0]['tC'].endswith('WayNodeList &')]
        if not fns:
            R.bad('G1-degenerate-threshold', key, q, '%s not found' % q)
        for fn in fns:
            F = Fac(fb, fn)
            if not F.ok:
                continue
            fins = [n for n in fn.all_nodes() if (impl_call(fn, F, n) or self_call(fn, n)) == kind + '_finish']
            if not fins:
                R.bad('G1-degenerate-threshold', key, fn.site, 'no call of %s_finish' % kind)
            for f in fins:
                a = f.get('args', [])
                d = local_or_param(fn, a[0]) if len(a) == 1 else None
                if d is None:
                    R.bad('G1-degenerate-threshold', key, fn.loc(f['id']), 'the count passed to %s_finish is not a local counter' % kind)
                    continue
                _threshold_guard(fb, R, fn, f['id'], d, k, 'G1-degenerate-threshold', key,
                                 'a %s needs at least %d points' % (kind, k))
    # multipolygon: geometry_error iff ring counter == 0
    q = GF + '::create_multipolygon'
    key = q + '#no-rings'
    fns = gf_methods(fb, 'create_multipolygon')
    if not fns:
        R.bad('G1-degenerate-threshold', key, q, '%s not found' % q)
    for fn in fns:
        F = Fac(fb, fn)
        if not F.ok:
            continue
        fins = [n for n in fn.all_nodes() if impl_call(fn, F, n) == 'multipolygon_finish']
        # the counter the rejection is based on: an integer local that starts at 0 and is only ever incremented, tested on the way to a
        # geometry_error throw.  (That it counts rings -- no throw once a ring was emitted, no finish without one -- is T1's part.)
        incs = {}
        for (n, lk, kind, rhs_) in writes(fn):
            if lk[0] == 'var':
                if kind == 'compound' and n.get('op') == '+=' and (fn.const_value(rhs_) or 0) >= 1:
                    kind = 'inc'
                incs.setdefault(lk[1], []).append(kind)
        counter = None
        for t in [n for n in fn.all_nodes() if _geom_error_throw(n)]:
            for (c, s_, b_) in guards_of(fn, t['id']):
                for x in fn.subtree(c):
                    d = local_or_param(fn, x) if fn.nodes[x].get('k') == 'var' else None
                    dn, dv = decl_of(fn, d) if d is not None else (None, None)
                    if dv is not None and isinstance(dv.get('init'), int) and fn.const_value(dv['init']) == 0 and incs.get(d) \
                            and all(k_ == 'inc' for k_ in incs[d]):
                        counter = d
        if counter is None or not fins:
            R.bad('G1-degenerate-threshold', key, fn.site,
                  'create_multipolygon does not reject an area without rings: no geometry_error is thrown under a test of a ring counter')
            continue
        for f in fins:
            _threshold_guard(fb, R, fn, f['id'], counter, 1, 'G1-degenerate-threshold', key, 'an area without rings is invalid')


# ================================================================================================ projections / accessors

COORD = 'osmium::geom::Coordinates'
LOC_READERS = ('lon', 'lat', 'lon_without_check', 'lat_without_check', 'x', 'y')


def _deep_subtree(fn, nid, depth=0, seen=None):
    """subtree of nid, continued into the initialisers of single-definition locals it mentions (named sub-expressions)."""
    seen = set() if seen is None else seen
    out = []
    for x in fn.subtree(nid):
        if x in seen:
            continue
        seen.add(x)
        out.append(x)
        n = fn.nodes[x]
        if n.get('k') == 'var' and n.get('vk') == 'local' and depth < 6:
            o = origin(fn, x)
            if o is not None and o != x:
                out.extend(_deep_subtree(fn, o, depth + 1, seen))
    return out


def _loc_reads(fn, nid, pdecl):
    """names of osmium::Location accessors called on parameter pdecl inside the (deep) subtree of nid."""
    out = []
    for x in _deep_subtree(fn, nid):
        n = fn.nodes[x]
        if n.get('k') == 'call' and n.get('q', '').startswith(LOC + '::') and n.get('recv') is not None \
                and local_or_param(fn, n['recv']) == pdecl:
            out.append(short(n['q']))
    return out


def accessor_rules(fb, R):
    projs = set()
    for f in fb.functions:
        if f.cls == GF and f.cls_targs and len(f.cls_targs) >= 2:
            projs.add(f.cls_targs[1])
    if not projs:
        R.broken('no GeometryFactory instantiation found (projection types unknown)')
    for p in sorted(projs):
        q = p + '::operator()'
        key = q + '#x<-lon,y<-lat'
        fns = [f for f in fb.fns(q) if f.params and f.params[0]['tC'].replace('const ', '').rstrip(' &') == LOC]
        if not fns:
            R.bad('P1-checked-accessors', key, q, '%s(osmium::Location) not found' % q)
        for fn in fns:
            pd = fn.params[0]['d']
            rets = [n for n in fn.all_nodes() if n.get('k') == 'return']
            ok, msg = bool(rets), 'no return'
            for r in rets:
                c = onode(fn, r.get('sub'))
                while c is not None and c.get('k') == 'construct' and c.get('q') == COORD + '::(ctor)' and len(c.get('args', [])) == 1:
                    c = onode(fn, c['args'][0])
                if c is None or c.get('k') != 'construct' or c.get('q') != COORD + '::(ctor)' or len(c.get('args', [])) != 2:
                    ok, msg = False, 'does not return Coordinates{x, y}'
                    break
                rx, ry = _loc_reads(fn, c['args'][0], pd), _loc_reads(fn, c['args'][1], pd)
                if rx != ['lon'] or ry != ['lat']:
                    ok, msg = False, 'x must be computed from location.lon() only and y from location.lat() only (the checked accessors); found x<-%s, y<-%s' % (rx, ry)
            allreads = [short(n['q']) for n in fn.all_nodes() if n.get('k') == 'call' and n.get('q', '').startswith(LOC + '::')
                        and short(n['q']) in LOC_READERS]
            if ok and sorted(allreads) != ['lat', 'lon']:
                ok, msg = False, 'reads the location through %s' % allreads
            R.check(ok, 'P1-checked-accessors', key, fn.site, '%s: %s' % (q, msg))
    # Coordinates constructors
    q = COORD + '::(ctor)'
    rec = fb.record(COORD)
    fx, fy = (rec.fields[0]['name'], rec.fields[1]['name']) if rec is not None and len(rec.fields) >= 2 else ('x', 'y')
    seen = set()
    for fn in fb.fns(q):
        inits = {n['name']: n for n in fn.all_nodes() if n.get('k') == 'init' and 'name' in n}
        if len(fn.params) == 1 and LOC in fn.params[0]['tC']:
            pd = fn.params[0]['d']
            ok = fx in inits and fy in inits and _loc_reads(fn, inits[fx]['init'], pd) == ['lon'] and _loc_reads(fn, inits[fy]['init'], pd) == ['lat']
            R.check(ok, 'P1-checked-accessors', q + '#from-Location', fn.site,
                    'Coordinates(const Location&) must initialise x from location.lon() and y from location.lat() (checked accessors)')
            seen.add('loc')
        elif len(fn.params) == 2:
            ok = fx in inits and fy in inits and local_or_param(fn, inits[fx]['init']) == fn.params[0]['d'] \
                and local_or_param(fn, inits[fy]['init']) == fn.params[1]['d']
            R.check(ok, 'P1-checked-accessors', q + '#from-doubles', fn.site, 'Coordinates(cx, cy) must initialise x from cx and y from cy')
            seen.add('dbl')
    if 'loc' not in seen:
        R.bad('P1-checked-accessors', q + '#from-Location', COORD, 'constructor Coordinates(const Location&) not found')
    if 'dbl' not in seen:
        R.bad('P1-checked-accessors', q + '#from-doubles', COORD, 'constructor Coordinates(double, double) not found')
    # Location::lon / lat
    lrec = fb.record(LOC)
    for i, nm in enumerate(('lon', 'lat')):
        q = '%s::%s' % (LOC, nm)
        key = q + '#throws-if-invalid'
        fns = fb.fns(q)
        if not fns:
            R.bad('P1-checked-accessors', key, q, '%s not found' % q)
        for fn in fns:
            rets = [n for n in fn.all_nodes() if n.get('k') == 'return']
            ok, msg = bool(rets), 'no return'
            for r in rets:
                gs = guards_of(fn, r['id'])
                if not any(s and (pn(fn, c) or {}).get('q') == LOC + '::valid' for (c, s, _b) in gs):
                    ok, msg = False, 'a return is reachable without valid() having been true'
                fld = lrec.fields[i]['name'] if lrec is not None and len(lrec.fields) >= 2 else None
                fields = {fn.nodes[x]['name'] for x in fn.subtree(r['id']) if fn.nodes[x].get('k') == 'member' and fn.nodes[x].get('field')}
                if ok and fld is not None and fields != {fld}:
                    ok, msg = False, 'returns a value computed from %s, expected %s' % (sorted(fields), fld)
            thr = [n for n in fn.all_nodes() if n.get('k') == 'throw' and 'invalid_location' in (n.get('tt') or '')]
            if ok and not thr:
                ok, msg = False, 'does not throw osmium::invalid_location'
            if ok:
                tids = {n['id'] for n in thr}
                rids = {n['id'] for n in rets}
                w = path_search(fn, fn.entry, exit_t, lambda e: e in tids or e in rids, from_block_start=True)
                if w is not None:
                    ok, msg = False, 'a path leaves the function without returning the coordinate or throwing'
            R.check(ok, 'P1-checked-accessors', key, fn.site, '%s: %s' % (q, msg))


# ================================================================================================ back ends: abstract runs
#
# The three back ends are checked by COMPOSING their methods over protocol sequences in the model interpreter of
# c17_util (abstract strings / symbolic coordinates; helper calls are interpreted, so extracting a helper, naming a
# sub-expression, early return vs ?: do not matter) and decoding the result with an independent reference decoder.

WKB = 'osmium::geom::detail::WKBFactoryImpl'
WKT = 'osmium::geom::detail::WKTFactoryImpl'
GEOJSON = 'osmium::geom::detail::GeoJSONFactoryImpl'
BS = 'std::basic_string::'
OGC_CODE = {'point': 1, 'linestring': 2, 'polygon': 3, 'multipolygon': 6}
SRID_FLAG = 0x20000000
KINDS = ('point', 'linestring', 'polygon', 'multipolygon')
STARTED_KINDS = ('linestring', 'polygon', 'multipolygon')


class _Unknown(Exception):
    pass


class _GrammarError(Exception):
    def __init__(self, msg, cls='count'):
        Exception.__init__(self, msg)
        self.cls = cls


def _is_string_t(t):
    t = (t or '').replace('const ', '')
    return t.startswith(('std::string', 'std::basic_string<char'))


def _method(fb, cls, name):
    fns = [f for f in fb.fns('%s::%s' % (cls, name)) if f.has_cfg]
    return fns[0] if fns else None


def _show(tokens):
    out = []
    for t in tokens:
        if isinstance(t, tuple):
            if t[0] == 'PFX':
                out.append('<srid-prefix>')
            elif t[0] == 'P':
                out.append('%sx%s%sy%s%s' % (t[1] or '', t[4], t[2], t[4], t[3] or ''))
            elif t[0] == 'bin':
                v = t[3]
                out.append('<%s%d:%s>' % ('f' if t[2] == 'double' else 'u', t[1] * 8, v.name if isinstance(v, Sym) else v))
            elif t[0] == 'hex':
                out.append('hex(' + _show(t[1]) + ')')
            else:
                out.append(repr(t))
        else:
            out.append(t)
    return ''.join(out)


def _coord(tag):
    return Obj('osmium::geom::Coordinates', {'x': Sym(('x', tag)), 'y': Sym(('y', tag)), 'tag': tag})


def _initial_object(fb, cls, overrides):
    """Abstract instance of a back end: strings empty, integers 0, everything named in overrides as given."""
    rec = fb.record(cls)
    if rec is None:
        raise _Unknown('record %s not found' % cls)
    f = {}
    for fd in rec.fields:
        if fd['name'] in overrides:
            f[fd['name']] = overrides[fd['name']]
        elif _is_string_t(fd['tC']):
            f[fd['name']] = Str()
        else:
            f[fd['name']] = 0
    return Obj(cls, f)


def _sequences(kind):
    """(event list [(method, argument list)], expected nested tag structure) for every protocol sequence up to the bound."""
    out = []
    if kind == 'point':
        return [([('make_point', [_coord(1)])], 1)]
    if kind in ('linestring', 'polygon'):
        for k in (1, 2, 3):
            ev = [(kind + '_start', [])] + [(kind + '_add_location', [_coord(i + 1)]) for i in range(k)] + [(kind + '_finish', [k])]
            pts = [i + 1 for i in range(k)]
            out.append((ev, pts if kind == 'linestring' else [pts]))
        return out
    shapes = []
    for npoly in (1, 2):
        for inner_counts in itertools.product((0, 1, 2), repeat=npoly):
            for k in (1, 2):
                shapes.append((inner_counts, k))
    for inner_counts, k in shapes:
        ev = [('multipolygon_start', [])]
        expect = []
        tag = 0
        first = True
        for ni in inner_counts:
            if not first:
                ev.append(('multipolygon_polygon_finish', []))
            first = False
            ev.append(('multipolygon_polygon_start', []))
            poly = []
            for r in range(1 + ni):
                which = 'outer' if r == 0 else 'inner'
                ev.append(('multipolygon_%s_ring_start' % which, []))
                ring = []
                for _ in range(k):
                    tag += 1
                    ev.append(('multipolygon_add_location', [_coord(tag)]))
                    ring.append(tag)
                ev.append(('multipolygon_%s_ring_finish' % which, []))
                poly.append(ring)
            expect.append(poly)
        ev.append(('multipolygon_polygon_finish', []))
        ev.append(('multipolygon_finish', []))
        out.append((ev, expect))
    return out


def _run_events(model, fb, cls, obj, events):
    ret = None
    for (m, args) in events:
        fn = _method(fb, cls, m)
        if fn is None:
            raise _GrammarError('method %s::%s does not exist' % (short(cls), m))
        if len(fn.params) != len(args):
            raise _Unknown('%s::%s takes %d parameters, the protocol passes %d' % (short(cls), m, len(fn.params), len(args)))
        ret = model.call(fn, obj, list(args))
    return ret


def _ev_text(events):
    return ' '.join(m.replace('multipolygon_', 'mp_') for (m, _a) in events)


def _scenarios(kind, events):
    """(name, prelude events, fresh-object?)  prelude runs on the same object before the sequence proper."""
    yield ('fresh', [])
    if kind != 'point':
        yield ('second geometry on the same factory', list(events))
        yield ('after a geometry that was abandoned by an exception', list(events[:-1]))


def _abstract_check(fb, R, cls, make_obj, configs, decode, rules, site_of):
    """rules: {error class: (rule, key suffix, kinds)}.  Runs every kind x config x sequence x scenario and reports one instance per
    (rule, kind).  A failure that only shows after an abandoned geometry (the same sequence decodes correctly on a fresh
    object) is of class 'reset'."""
    for kind in KINDS:
        errors = {}      # error class -> message (first)
        nruns = 0
        broken = None
        for cfg in configs:
            for (events, expect) in _sequences(kind):
                for (scen, prelude) in _scenarios(kind, events):
                    model = Model(fb)
                    obj = make_obj(cfg)
                    ret = None
                    nruns += 1
                    try:
                        try:
                            if prelude:
                                _run_events(model, fb, cls, obj, prelude)
                            ret = _run_events(model, fb, cls, obj, events)
                            if not isinstance(ret, Str):
                                raise _GrammarError('the finishing method returns no string')
                            got = decode(ret.t, kind, cfg)
                            if got != expect:
                                raise _GrammarError('structure %r was fed in but the output encodes %r' % (expect, got))
                            moved = [f for f, v in obj.f.items() if isinstance(v, Str) and any(isinstance(t, tuple) and t[0] == 'MOVED-FROM' for t in v.t)]
                            if moved:
                                raise _GrammarError('member %s is left in a moved-from state: the next geometry of this factory reads an unspecified value'
                                                    % moved[0], 'config')
                            left = [f for f, v in obj.f.items() if isinstance(v, Str) and v.t and not any(isinstance(t, tuple) and t[0] == 'PFX' for t in v.t)]
                            if left and kind != 'point':
                                raise _GrammarError('finish leaves %r in %s' % (_show(obj.f[left[0]].t), left[0]))
                        except ModelError as e:
                            raise _GrammarError(str(e))
                        except ModelThrow as e:
                            raise _GrammarError('valid input is rejected: %s' % e)
                        except ModelAbort as e:
                            raise _GrammarError('assertion fails: %s' % e)
                    except _GrammarError as e:
                        c = 'reset' if scen.startswith('after a geometry') else e.cls
                        errors.setdefault(c, '%s; %s%s: events %s produce %s' % (
                            e, scen, (' [%s]' % cfg_text(cfg)) if cfg else '', _ev_text(events), _show(ret.t) if isinstance(ret, Str) else 'nothing'))
                        if scen == 'fresh':
                            break        # the other scenarios of this sequence add nothing once the plain run fails
                    except (ModelUnknown, _Unknown) as e:
                        broken = str(e)
                        break
                if broken:
                    break
            if broken:
                break
        if broken:
            R.broken('%s#%s: %s' % (cls, kind, broken))
            continue
        for c, (rule, suffix, kinds) in rules.items():
            if kind not in kinds:
                continue
            R.check(c not in errors, rule, '%s#%s%s' % (cls, kind, suffix), site_of(kind), errors.get(c, ''),
                    detail='%d abstract runs (sequences x configurations x scenarios) decoded' % nruns)


def cfg_text(cfg):
    return ', '.join('%s=%s' % kv for kv in sorted(cfg.items())) if cfg else ''


# ------------------------------------------------------------------------------------------------ WKB

def _wkb_decode(tokens, kind, cfg):
    if cfg.get('hex'):
        if len(tokens) != 1 or not (isinstance(tokens[0], tuple) and tokens[0][0] == 'hex'):
            raise _GrammarError('out_type::hex was requested but the result is not convert_to_hex(<data>)', 'hex')
        tokens = list(tokens[0][1])
    elif any(isinstance(t, tuple) and t[0] == 'hex' for t in tokens):
        raise _GrammarError('binary output was requested but the result is hex encoded', 'hex')
    pos = [0]

    def peek():
        return tokens[pos[0]] if pos[0] < len(tokens) else None

    def take(size, what, cls):
        t = peek()
        if not (isinstance(t, tuple) and t[0] == 'bin') or t[1] != size:
            raise _GrammarError('expected %s (%d bytes) at field %d, found %s in %s' % (what, size, pos[0], _show([t]) if t is not None else 'end of data', _show(tokens)), cls)
        pos[0] += 1
        return t

    def header(code):
        o = take(1, 'the byte order mark', 'header')
        if o[3] not in (0, 1):
            raise _GrammarError('byte order mark has the value %r' % (o[3],), 'header')
        t = take(4, 'the geometry type', 'header')
        want = code | (SRID_FLAG if cfg.get('ewkb') else 0)
        if t[3] != want:
            raise _GrammarError('geometry type field is %r, required %d%s' % (t[3], code, ' | SRID flag' if cfg.get('ewkb') else ''), 'header')
        if cfg.get('ewkb'):
            s = take(4, 'the srid', 'header')
            if s[3] != Sym('srid'):
                raise _GrammarError('the field after an EWKB type is %r, required the srid' % (s[3],), 'header')

    def count(what):
        t = take(4, 'the %s count' % what, 'count')
        if not isinstance(t[3], int) or isinstance(t[3], bool):
            raise _GrammarError('the %s count is %r' % (what, t[3]), 'count')
        return t[3]

    def is_double(t):
        return isinstance(t, tuple) and t[0] == 'bin' and t[2] == 'double'

    def point():
        a, b = peek(), (tokens[pos[0] + 1] if pos[0] + 1 < len(tokens) else None)
        if not (is_double(a) and is_double(b) and a[1] == 8 and b[1] == 8):
            raise _GrammarError('a point must be two 8 byte doubles, found %s' % _show([x for x in (a, b) if x is not None]), 'coord')
        pos[0] += 2
        va, vb = a[3], b[3]
        if not (isinstance(va, Sym) and isinstance(vb, Sym) and isinstance(va.name, tuple) and isinstance(vb.name, tuple)
                and va.name[0] == 'x' and vb.name[0] == 'y' and va.name[1] == vb.name[1]):
            raise _GrammarError('a point must be written as x then y of the same coordinates, found %s' % _show([a, b]), 'coord')
        return va.name[1]

    def points(what):
        n = count(what)
        got = []
        while is_double(peek()):
            got.append(point())
        if n != len(got):
            raise _GrammarError('the %s count field says %d but %d points follow' % (what, n, len(got)), 'count')
        return got

    def polygon():
        header(OGC_CODE['polygon'])
        n = count('ring')
        rings = []
        while True:
            t = peek()
            if isinstance(t, tuple) and t[0] == 'bin' and t[1] == 4 and t[2] != 'double':
                rings.append(points('point'))
            else:
                break
        if n != len(rings):
            raise _GrammarError('the ring count field says %d but %d rings follow' % (n, len(rings)), 'count')
        return rings

    if kind == 'point':
        header(OGC_CODE['point'])
        val = point()
    elif kind == 'linestring':
        header(OGC_CODE['linestring'])
        val = points('point')
    elif kind == 'polygon':
        val = polygon()
    else:
        header(OGC_CODE['multipolygon'])
        n = count('polygon')
        val = []
        while True:
            t = peek()
            if isinstance(t, tuple) and t[0] == 'bin' and t[1] == 1:
                val.append(polygon())
            else:
                break
        if n != len(val):
            raise _GrammarError('the polygon count field says %d but %d polygons follow' % (n, len(val)), 'count')
    if pos[0] != len(tokens):
        raise _GrammarError('%d unexpected fields after the geometry: %s' % (len(tokens) - pos[0], _show(tokens[pos[0]:])), 'count')
    return val


def _wkb_config_fields(fb):
    """names of the wkb_type / out_type / srid members (by type)."""
    rec = fb.record(WKB)
    out = {}
    for fd in rec.fields if rec else []:
        if fd['tC'].endswith('wkb_type'):
            out['ewkb'] = fd['name']
        elif fd['tC'].endswith('out_type'):
            out['hex'] = fd['name']
        elif fd['tC'] == 'int':
            out['srid'] = fd['name']
    return out


def wkb_rules(fb, R):
    rec = fb.record(WKB)
    if rec is None:
        R.broken('record %s not found' % WKB)
        return
    cf = _wkb_config_fields(fb)
    ew, hx = fb.enum('osmium::geom::wkb_type'), fb.enum('osmium::geom::out_type')
    if set(cf) != {'ewkb', 'hex', 'srid'} or ew is None or hx is None:
        R.broken('%s: configuration members (wkb_type, out_type, int srid) not found' % WKB)
        return
    ewv = {x['name']: int(x['value']) for x in ew['enumerators']}
    hxv = {x['name']: int(x['value']) for x in hx['enumerators']}
    if 'ewkb' not in ewv or 'wkb' not in ewv or 'hex' not in hxv or 'binary' not in hxv:
        R.broken('enumerators wkb_type::{wkb, ewkb} / out_type::{binary, hex} not found')
        return

    def make(cfg):
        return _initial_object(fb, WKB, {cf['srid']: Sym('srid'), cf['ewkb']: ewv['ewkb' if cfg['ewkb'] else 'wkb'],
                                         cf['hex']: hxv['hex' if cfg['hex'] else 'binary']})
    configs = [{'ewkb': e, 'hex': h} for e in (False, True) for h in (False, True)]

    def site(kind):
        fn = _method(fb, WKB, 'make_point' if kind == 'point' else kind + '_finish')
        return fn.site if fn else '%s:%d' % (rec.file, rec.line)
    _abstract_check(fb, R, WKB, make, configs, _wkb_decode, {
        'count': ('B1-wkb-counts-match-elements', '', KINDS),
        'header': ('B5-header-layout', '', KINDS),
        'coord': ('X1-axis-order', '', KINDS),
        'hex': ('B7-hex-iff-requested', '', KINDS),
        'reset': ('B6-start-resets-buffer', '', STARTED_KINDS),
        'config': ('M1-config-members-survive', '/abstract-run', KINDS),
    }, site)
    _wkb_set_size(fb, R)


def _wkb_set_size(fb, R):
    """the narrowing to uint32_t in set_size is guarded: exactly the sizes above UINT32_MAX are rejected with geometry_error."""
    fn = _method(fb, WKB, 'set_size')
    key = WKB + '::set_size'
    if fn is None or len(fn.params) != 2:
        R.bad('B4-set_size-range-guard', key + '#range-guard', WKB, 'set_size(offset, size) not found')
        return
    ps = fn.params[1]['d']
    narrow = [n for n in fn.all_nodes() if n.get('k') == 'cast' and (n.get('toC') or '').replace('const ', '') in ('unsigned int', 'int')
              and local_or_param(fn, n.get('sub')) == ps]
    if not narrow:
        R.broken('%s: the narrowing conversion of the size parameter was not found' % fn.full)
        return
    _decide_guard(fb, R, fn, narrow[0]['id'], ps, OT.UINT64, lambda w: w.le('n', 4294967295), 'B4-set_size-range-guard',
                  key + '#range-guard', 'exactly the sizes above UINT32_MAX must be rejected before narrowing to uint32_t', extra=(4294967295,))
    thr = [n for n in fn.all_nodes() if _geom_error_throw(n)]
    R.check(bool(thr), 'B4-set_size-range-guard', key + '#range-guard/throws', fn.site, 'set_size does not throw geometry_error for oversized counts')


# ------------------------------------------------------------------------------------------------ WKT / GeoJSON

TEXT_FORMATS = {
    WKT: dict(open='(', close=')', leaf=(None, ' ', None), point=('(', ' ', ')'),
              head={'point': 'POINT', 'linestring': 'LINESTRING', 'polygon': 'POLYGON', 'multipolygon': 'MULTIPOLYGON'}, tail='', prefix_ok=True),
    GEOJSON: dict(open='[', close=']', leaf=('[', ',', ']'), point=('[', ',', ']'),
                  head={'point': '{"type":"Point","coordinates":', 'linestring': '{"type":"LineString","coordinates":',
                        'polygon': '{"type":"Polygon","coordinates":', 'multipolygon': '{"type":"MultiPolygon","coordinates":'}, tail='}',
                  prefix_ok=False),
}
DEPTH = {'linestring': 1, 'polygon': 2, 'multipolygon': 3}


def _parse(tokens, fmt, kind):
    """Reference grammar: [prefix] head value tail ; value = point | nested list of depth DEPTH[kind] with ',' between siblings.
    Returns the nested list of point tags.  Raises _GrammarError."""
    pos = 0
    if tokens and isinstance(tokens[0], tuple) and tokens[0][0] == 'PFX':
        if not fmt['prefix_ok']:
            raise _GrammarError('unexpected SRID prefix')
        pos = 1
    head = fmt['head'][kind]
    got = ''.join(t for t in tokens[pos:pos + len(head)] if isinstance(t, str))
    if got != head:
        raise _GrammarError('geometry starts with %r, required %r' % (_show(tokens[pos:pos + len(head)]), head))
    pos += len(head)

    def leaf(shape):
        nonlocal pos
        if pos >= len(tokens) or not (isinstance(tokens[pos], tuple) and tokens[pos][0] == 'P'):
            raise _GrammarError('expected a coordinate pair at %r' % _show(tokens[pos:pos + 6]))
        t = tokens[pos]
        if (t[1], t[2], t[3]) != shape:
            raise _GrammarError('coordinate pair written as %r, required delimiters %r' % (_show([t]), shape))
        if t[5] != Sym('precision'):
            raise _GrammarError('coordinate pair %s is formatted with precision %r instead of the precision member' % (_show([t]), t[5]), 'precision')
        pos += 1
        return t[4]

    def lst(depth):
        nonlocal pos
        if pos >= len(tokens) or tokens[pos] != fmt['open']:
            raise _GrammarError('expected %r at ...%s' % (fmt['open'], _show(tokens[max(0, pos - 4):pos + 4])))
        pos += 1
        items = []
        while True:
            items.append(leaf(fmt['leaf']) if depth == 1 else lst(depth - 1))
            if pos < len(tokens) and tokens[pos] == ',':
                pos += 1
                continue
            break
        if pos >= len(tokens) or tokens[pos] != fmt['close']:
            raise _GrammarError('expected %r or a separator at ...%s' % (fmt['close'], _show(tokens[max(0, pos - 6):pos + 4])))
        pos += 1
        return items
    val = leaf(fmt['point']) if kind == 'point' else lst(DEPTH[kind])
    rest = ''.join(t if isinstance(t, str) else '?' for t in tokens[pos:])
    if rest != fmt['tail']:
        raise _GrammarError('geometry ends with %r, required %r' % (_show(tokens[pos:]), fmt['tail']))
    return val


def text_rules(fb, R):
    for cls, fmt in TEXT_FORMATS.items():
        rec = fb.record(cls)
        if rec is None:
            R.broken('record %s not found' % cls)
            continue
        ints = [f['name'] for f in rec.fields if f['tC'] == 'int']
        strs = [f['name'] for f in rec.fields if _is_string_t(f['tC'])]
        # the precision member: the int member a constructor fills from one of its parameters
        prec = None
        for c in fb.fns(cls + '::(ctor)'):
            for n in c.all_nodes():
                if n.get('k') == 'init' and n.get('name') in ints and local_or_param(c, n.get('init')) is not None \
                        and param_index(c, local_or_param(c, n['init'])) is not None:
                    prec = n['name']
            for (n, key, kind_, rhs) in writes(c):
                if key[0] == 'field' and key[1] in ints and kind_ == 'assign' and param_index(c, local_or_param(c, rhs) or -1) is not None:
                    prec = key[1]
        if prec is None:
            R.bad('S1-text-nesting-grammar', cls + '#precision-member', '%s:%d' % (rec.file, rec.line),
                  'no constructor stores its precision parameter in a member')
            continue
        # the srid prefix (WKT): a string member other than the accumulation buffer is given an opaque prefix token
        prefix_members = []
        if fmt['prefix_ok']:
            for c in fb.fns(cls + '::(ctor)'):
                for n in c.all_nodes():
                    if n.get('k') == 'call' and n.get('q', '').startswith(BS) and recv_field(c, n) in strs:
                        prefix_members.append(recv_field(c, n))

        def make(cfg, prec=prec, prefix_members=prefix_members, cls=cls):
            ov = {prec: Sym('precision')}
            for pm_ in set(prefix_members):
                ov[pm_] = Str([('PFX', pm_)] if cfg.get('srid_prefix') else [])
            return _initial_object(fb, cls, ov)
        configs = [{'srid_prefix': False}, {'srid_prefix': True}] if prefix_members else [{}]

        def decode(tokens, kind, cfg, fmt=fmt):
            has = bool(tokens) and isinstance(tokens[0], tuple) and tokens[0][0] == 'PFX'
            if bool(cfg.get('srid_prefix')) != has:
                raise _GrammarError('the SRID prefix is %s' % ('missing' if not has else 'written although none is configured'))
            return _parse(tokens, fmt, kind)

        def site(kind, cls=cls, rec=rec):
            fn = _method(fb, cls, 'make_point' if kind == 'point' else kind + '_start')
            return fn.site if fn else '%s:%d' % (rec.file, rec.line)
        _abstract_check(fb, R, cls, make, configs, decode, {
            'count': ('S1-text-nesting-grammar', '', KINDS),
            'precision': ('S1-text-nesting-grammar', '/precision-member', KINDS),
            'reset': ('B6-start-resets-buffer', '', STARTED_KINDS),
            'config': ('M1-config-members-survive', '/abstract-run', KINDS),
        }, site)


# ------------------------------------------------------------------------------------------------ configuration members, counters, shared state

MUTATING_STRING_CALLS = ('clear', 'operator=', 'assign', 'operator+=', 'append', 'push_back', 'pop_back', 'insert', 'erase', 'replace', 'resize', 'swap')


def _ctor_config_members(fb, cls):
    """members a constructor of the back end sets from its parameters / in its body: the factory's configuration"""
    out = set()
    for c in fb.fns(cls + '::(ctor)'):
        if len(c.params) == 1 and cls in c.params[0]['tC']:
            continue        # copy / move constructor
        for n in c.all_nodes():
            if n.get('k') == 'init' and 'name' in n and isinstance(n.get('init'), int) and \
                    any(c.nodes[x].get('k') == 'var' and c.nodes[x].get('vk') == 'param' for x in c.subtree(n['init'])):
                out.add(n['name'])
            if n.get('k') == 'call' and n.get('q', '').startswith(BS) and short(n['q']) in MUTATING_STRING_CALLS and recv_field(c, n):
                out.add(recv_field(c, n))
        for (n, key, kind, rhs) in writes(c):
            if key[0] == 'field':
                out.add(key[1])
    return out


def config_rules(fb, R):
    """M1: the configuration of a factory (members its constructor sets: srid prefix, precision, srid, wkb / out / wkt type) survives every
    geometry: outside constructors these members are never assigned, incremented, mutated through a member call, swapped, moved from
    (std::move / std::exchange) or bound to a non-const reference parameter.  Per-geometry state is what the protocol methods write."""
    for cls in (WKB, WKT, GEOJSON):
        rec = fb.record(cls)
        if rec is None:
            R.broken('record %s not found' % cls)
            continue
        cfg = _ctor_config_members(fb, cls)
        methods = [f for f in fb.functions if f.cls == cls and f.has_cfg and not f.is_lambda and f.kind not in ('ctor', 'dtor')]
        # a member that every top-level start method resets is per-geometry state, whatever the constructor does with it
        starts = [f for f in methods if f.name in ('linestring_start', 'polygon_start', 'multipolygon_start')]

        def resets(f, name):
            for (n, key, kind, rhs) in writes(f):
                if key == ('field', name) and kind in ('assign', 'opassign'):
                    return True
            return any(n.get('k') == 'call' and recv_field(f, n) == name and n.get('q', '').startswith(BS) and short(n['q']) in ('clear', 'operator=', 'assign')
                       for n in f.all_nodes())
        cfg = {m for m in cfg if not (starts and all(resets(f, m) for f in starts))}
        if not cfg:
            R.broken('%s: no configuration member found' % cls)
            continue
        for m in sorted(cfg):
            key = '%s::%s#survives-every-geometry' % (cls, m)
            bad = None
            for f in methods:
                pm = f.parent_map()
                for (n, k_, kind, rhs) in writes(f):
                    if k_ == ('field', m):
                        bad = bad or (f, n, 'is written (%s)' % kind)
                for n in f.all_nodes():
                    if n.get('k') != 'call':
                        continue
                    q_ = n.get('q', '')
                    if recv_field(f, n) == m and ((q_.startswith(BS) and short(q_) in MUTATING_STRING_CALLS) or (short(q_).startswith('operator') and n.get('op') in ('=', '+=', '-=', '++', '--'))):
                        bad = bad or (f, n, 'is modified by %s' % short(q_))
                    if q_ in ('std::move', 'std::exchange', 'std::swap') and any(this_field(f, a) == m for a in n.get('args', [])):
                        # std::move in a const method yields a const xvalue, which copies
                        if not (q_ == 'std::move' and f.const):
                            bad = bad or (f, n, 'is handed to %s' % q_)
                    if n.get('u') and any(this_field(f, a) == m for a in n.get('args', [])):
                        for g in fb.by_usr.get(n['u'], []):
                            for a, prm in zip(n.get('args', []), g.params):
                                t_ = prm['tC'].rstrip()
                                if this_field(f, a) == m and t_.endswith('&') and not t_.endswith('&&') and not t_.startswith('const '):
                                    bad = bad or (f, n, 'is bound to the non-const reference parameter %s of %s' % (prm['name'], g.q))
            R.check(bad is None, 'M1-config-members-survive', key, bad[0].loc(bad[1]['id']) if bad else '%s:%d' % (rec.file, rec.line),
                    'configuration member %s of %s %s in %s: every later geometry of the same factory is built with a different setting%s'
                    % (m, short(cls), bad[2] if bad else '', short(bad[0].q) if bad else '', ' (a moved-from string is empty / unspecified)' if bad and 'std::' in bad[2] else ''),
                    detail='set by the constructor, untouched by %d methods' % len(methods))


def counter_width_rules(fb, R):
    """B8: the value handed to set_size (which writes it into a 4 byte count field) comes from a variable at least as wide as that field:
    a narrower counter member wraps (65536 points -> 0) long before the field does."""
    ss = _method(fb, WKB, 'set_size')
    width = 4
    if ss is not None:
        for n in ss.all_nodes():
            if n.get('k') == 'call' and n.get('q') in ('std::copy_n', 'memcpy', 'std::memcpy') and len(n.get('args', [])) == 3:
                c = ss.const_value(n['args'][1] if n['q'] == 'std::copy_n' else n['args'][2])
                if c:
                    width = c
    rec = fb.record(WKB)
    ftype = {f['name']: f['tC'] for f in rec.fields} if rec else {}
    from ..c17_util import _SIZES
    methods = [f for f in fb.functions if f.cls == WKB and f.has_cfg and not f.is_lambda]
    byusr = {}
    for f in methods:
        byusr.setdefault(f.usr, f)

    def sites(f, binding, depth=0):
        """[(function, call node, count expression as (function, node id))] set_size calls that f reaches, directly or through helpers of
        the class; a count that is a helper's parameter is traced to the argument of the call that passed it."""
        out = []
        for n in f.all_nodes():
            if n.get('k') != 'call':
                continue
            if n.get('q') == WKB + '::set_size' and len(n.get('args', [])) == 2:
                cnt = (f, n['args'][1])
                d = local_or_param(f, n['args'][1])
                if d is not None and d in binding:
                    cnt = binding[d]
                out.append((f, n, cnt))
            elif n.get('u') in byusr and n.get('q') != WKB + '::set_size' and depth < 3 and n.get('recv') is not None and is_this(f, n['recv']):
                g = byusr[n['u']]
                if g is f or g.name in ('header',):
                    continue
                b2 = {}
                for prm, a in zip(g.params, n.get('args', [])):
                    da = local_or_param(f, a)
                    b2[prm['d']] = binding[da] if (da is not None and da in binding) else (f, a)
                out.extend(sites(g, b2, depth + 1))
        return out
    n_sites = 0
    rec_methods = {m['name']: m.get('access') for m in (rec.methods if rec else [])}
    for f in methods:
        if f.kind in ('ctor', 'dtor') or rec_methods.get(f.name) != 'public':
            continue
        key = '%s::%s#count-type-covers-count-field' % (WKB, f.name)
        for (sf, n, (cf, cnt)) in sites(f, {}):
            n_sites += 1
            if cf.const_value(cnt) is not None:
                R.ok('B8-counter-width-covers-count-field', key, sf.loc(n['id']), detail='constant %d' % cf.const_value(cnt))
                continue
            fld = this_field(cf, cnt)
            d = local_or_param(cf, cnt)
            t = None
            what = cf.expr(cnt)
            if fld is not None:
                t = ftype.get(fld)
            elif d is not None:
                t = next((p['tC'] for p in cf.params if p['d'] == d), None)
                if t is None:
                    dn, dv = decl_of(cf, d)
                    t = dv['tC'] if dv else None
            tt = (t or '').replace('const ', '').strip()
            sz = _SIZES.get(tt)
            if sz is None:
                R.broken('%s: type %r of the count %s handed to set_size not understood' % (sf.full, t, what))
                continue
            R.check(sz >= width and tt not in ('bool',), 'B8-counter-width-covers-count-field', key, sf.loc(n['id']),
                    'the count `%s` written into the %d byte count field by %s has the %d byte type %s: it wraps at %d elements while the field could '
                    'hold them' % (what, width, f.name, sz, tt, 1 << (8 * sz)), detail='%s : %s' % (what, tt))
    if n_sites == 0:
        R.broken('%s: no public method reaches a call of set_size' % WKB)


def _is_const_t(t):
    t = (t or '').strip()
    return (t.startswith('const ') and not t.endswith(('*', '&'))) or t.endswith(' const') or t.endswith('*const')


def shared_state_rules(fb, R):
    """Z1: nothing in the call closure of the GeometryFactory / back-end methods keeps state between calls that another factory (another
    thread) shares: no function-local `static` that can be written (non-const type, or written / handed out writable in its function),
    no write to a namespace-scope or static-member variable."""
    roots = [f for f in fb.functions if f.has_cfg and (f.cls == GF or f.cls in (WKB, WKT, GEOJSON) or f.q in ('osmium::double2string',))]
    if not roots:
        R.broken('no GeometryFactory method instantiated')
        return
    seen = {}
    work = [(f, None) for f in roots]
    while work:
        f, parent = work.pop()
        if id(f) in seen:
            continue
        seen[id(f)] = (f, parent)
        for n in f.all_nodes():
            if n.get('k') in ('call', 'construct') and n.get('u'):
                for g in fb.by_usr.get(n['u'], []):
                    if g.has_cfg and id(g) not in seen and g.q.startswith('osmium::'):
                        work.append((g, f))
    bad = None
    nstat = 0
    for (f, _p) in seen.values():
        ws = writes(f)
        for n in f.all_nodes():
            if n.get('k') == 'decl':
                for v in n['vars']:
                    if not v.get('static'):
                        continue
                    nstat += 1
                    t = v['tC']
                    if _is_const_t(t):
                        continue
                    # pointer to const that is itself never re-seated: a named constant
                    ptr_to_const = t.replace(' ', '').endswith('*') and t.strip().startswith('const ')
                    touched = any(w[1] == ('var', v['d']) for w in ws) or address_taken(f, ('var', v['d']))
                    if ptr_to_const and not touched:
                        continue
                    bad = bad or (f, n, 'function-local `static %s %s`' % (v['t'], v['name']))
            if n.get('k') in ('var', 'member') and (n.get('vk') in ('global', 'static_member') or n.get('staticvar')) and not _is_const_t(n.get('t')) \
                    and n.get('q', '').startswith('osmium::') and n.get('vk') != 'function':
                pm = f.parent_map()
                x = n['id']
                hops = 0
                while x in pm and hops < 8:
                    p = f.nodes[pm[x]]
                    hops += 1
                    if p.get('k') in ('wrap', 'index') or (p.get('k') == 'member' and p.get('field')):
                        x = p['id']
                        continue
                    if (p.get('k') == 'assign' and x in f.subtree(p['lhs'])) or (p.get('k') == 'unop' and p.get('op') in ('++', '--', '&')):
                        bad = bad or (f, n, 'write to the variable %s' % n.get('q'))
                    break
    key = GF + '#call-closure-shares-no-mutable-state'
    R.check(bad is None, 'Z1-no-shared-mutable-state', key, bad[0].loc(bad[1]['id']) if bad else roots[0].site,
            '%s in %s, which every geometry export reaches: two factories used by two threads overwrite each other\'s data (e.g. the digits of a '
            'number being formatted)' % (bad[2] if bad else '', bad[0].q if bad else ''),
            detail='%d bodies in the closure, %d function-local statics, all constant' % (len(seen), nstat))


# ------------------------------------------------------------------------------------------------ Coordinates::append_to_string

def coordinates_rules(fb, R):
    q = COORD + '::append_to_string'
    hooks = {
        COORD + '::valid': lambda fr, nid, n, args: True,
        'osmium::double2string': lambda fr, nid, n, args: _d2s(fr, nid, n, args),
    }
    seen = set()
    for fn in fb.fns(q):
        if len(fn.params) not in (3, 5):
            continue
        nparam = len(fn.params)
        key = q + ('#x-infix-y' if nparam == 3 else '#prefix-body-suffix')
        seen.add(nparam)
        s = Str()
        c = Obj(COORD, {'x': Sym('x'), 'y': Sym('y')})
        model = Model(fb, hooks=hooks, atomic_points=False)
        try:
            if nparam == 3:
                model.call(fn, c, [s, ord(' '), Sym('precision')])
                want = [('num', Sym('x'), Sym('precision')), ' ', ('num', Sym('y'), Sym('precision'))]
            else:
                model.call(fn, c, [s, ord('<'), ord(' '), ord('>'), Sym('precision')])
                want = ['<', ('num', Sym('x'), Sym('precision')), ' ', ('num', Sym('y'), Sym('precision')), '>']
        except (ModelUnknown, _Unknown) as e:
            R.broken('%s: %s' % (q, e))
            continue
        except (ModelError, ModelThrow, ModelAbort) as e:
            R.bad('X1-axis-order', key, fn.site, 'append_to_string fails on valid coordinates: %s' % e)
            continue
        R.check(s.t == want, 'X1-axis-order', key, fn.site,
                'append_to_string writes %s, required %s (x, infix, y with the given precision%s)' % (s.t, want, ', inside prefix / suffix' if nparam == 5 else ''))
    if 3 not in seen:
        R.bad('X1-axis-order', q + '#x-infix-y', COORD, 'append_to_string(s, infix, precision) not found')
    if 5 not in seen:
        R.bad('X1-axis-order', q + '#prefix-body-suffix', COORD, 'append_to_string(s, prefix, infix, suffix, precision) not found')


def _d2s(fr, nid, n, args):
    vals = [fr.ev(a) for a in args]
    if len(vals) != 3 or not isinstance(vals[0], Str):
        fr.unknown(nid, 'double2string call')
    vals[0].t.append(('num', vals[1], vals[2]))
    return None


def _decide_guard(fb, R, fn, target, sym_decl, dom, want, rule, key, what, extra=()):
    """`target` executes exactly in the worlds where want(world) holds; the guards may mention only the symbol `n` (sym_decl)."""
    rel = [(c, s, b) for (c, s, b) in guards_of(fn, target) if fn.blocks[b].get('cond') == c
           and any(local_or_param(fn, x) == sym_decl for x in fn.subtree(c) if fn.nodes[x].get('k') == 'var')]

    def atoms(f, n):
        if n.get('k') == 'var' and n.get('d') == sym_decl:
            return ('n', dom)
        return None
    try:
        progs = [(OT.compile_expression(fb, fn, c, atoms), s) for (c, s, _b) in rel]
    except OT.Inexact as e:
        R.broken('%s: guard of %s is not comparison-only: %s' % (fn.full, fn.expr(target)[:40], e))
        return None
    consts = {0} | set(extra)
    for p, _s in progs:
        consts |= set(p.consts)
    for c in list(consts):
        consts |= {c - 1, c + 1} if dom[0] <= c - 1 and c + 1 <= dom[1] else set()
    bad = None
    nw = 0
    for w in OT.worlds({'n': dom}, consts):
        nw += 1
        reach = all(OT.run(p, w).as_bool() == bool(s) for (p, s) in progs)
        if reach != bool(want(w)) and bad is None:
            bad = (w, reach)
    R.check(bad is None, rule, key, fn.loc(rel[0][0]) if rel else fn.loc(target),
            '%s: for %s the guarded operation is %s' % (what, bad[0].witness() if bad else '', 'executed' if bad and bad[1] else 'not executed'),
            detail='guards %s decided over %d order types' % ([fn.expr(c) for (c, _s, _b) in rel], nw))
    return rel


# ================================================================================================ hex, snprintf

def _eval_int(fn, nid, env):
    """Evaluate an integer expression over env {decl: value} with C semantics for the operators used by convert_to_hex."""
    n = fn.nodes.get(nid)
    if n is None:
        raise _Unknown('missing node')
    k = n.get('k')
    if k in ('wrap', 'icast'):
        v = _eval_int(fn, n['sub'], env)
        t = n.get('t', '')
        if t == 'unsigned int':
            return v & 0xffffffff
        return v
    if k == 'cast':
        v = _eval_int(fn, n['sub'], env)
        if n.get('toC') == 'unsigned int':
            return v & 0xffffffff
        if n.get('toC') == 'unsigned char':
            return v & 0xff
        raise _Unknown('cast to %s' % n.get('toC'))
    if k == 'lit' and 'cv' in n:
        return int(n['cv'])
    if k == 'var' and n.get('d') in env:
        return env[n['d']]
    if k == 'var' and n.get('vk') == 'local':
        # a named sub-expression: a local with exactly one definition, its initialiser
        dn, dv = decl_of(fn, n['d'])
        if dv is not None and isinstance(dv.get('init'), int) and not any(w[1] == ('var', n['d']) for w in writes(fn)) \
                and not address_taken(fn, ('var', n['d'])):
            v = _eval_int(fn, dv['init'], env)
            t = (dv.get('tC') or '').replace('const ', '')
            if t == 'unsigned int':
                v &= 0xffffffff
            elif t == 'unsigned char':
                v &= 0xff
            return v
    if k == 'binop' and n.get('op') in ('>>', '&', '<<', '|', '+', '-', '%', '/'):
        a, b = _eval_int(fn, n['lhs'], env), _eval_int(fn, n['rhs'], env)
        return {'>>': lambda: a >> b, '&': lambda: a & b, '<<': lambda: (a << b) & 0xffffffff, '|': lambda: a | b, '+': lambda: a + b,
                '-': lambda: a - b, '%': lambda: a % b, '/': lambda: a // b}[n['op']]()
    raise _Unknown('expression %s' % fn.expr(nid))


def hex_rules(fb, R):
    q = 'osmium::geom::detail::convert_to_hex'
    key = q + '#nibbles'
    fns = fb.fns(q)
    if not fns:
        R.bad('H1-hex-encoding', key, q, '%s not found' % q)
    for fn in fns:
        msg = None
        tables = {}
        for n in fn.all_nodes():
            if n.get('k') == 'decl':
                for v in n['vars']:
                    s = string_of(fn, v.get('init')) if isinstance(v.get('init'), int) else None
                    if s is not None:
                        tables[v['d']] = s
        rets = [n for n in fn.all_nodes() if n.get('k') == 'return']
        outd = {local_or_param(fn, r.get('sub')) for r in rets}
        appends = [n for n in fn.all_nodes() if n.get('k') == 'call' and n.get('q') in (BS + 'operator+=', BS + 'push_back') and n.get('recv') is not None
                   and local_or_param(fn, n['recv']) in outd]
        appends.sort(key=lambda n: n['id'])
        if len(fn.loops) != 1 or fn.loops[0]['cls'] != 'CXXForRangeStmt' or len(outd) != 1:
            msg = 'expected one range-for over the input and one result string'
        elif len(appends) != 2 or not fn.elem_dominates(appends[0]['id'], appends[1]['id']):
            msg = 'expected exactly two appends per input byte'
        else:
            rng = [v for n in fn.all_nodes() if n.get('k') == 'decl' for v in n['vars'] if v['name'].startswith('__range')]
            if not rng or local_or_param(fn, rng[0].get('init')) != fn.params[0]['d']:
                msg = 'the loop does not run over the parameter'
            # the loop element: the variable initialised from *<the range-for iterator>
            begins = {v['d'] for n in fn.all_nodes() if n.get('k') == 'decl' for v in n['vars'] if v['name'].startswith('__begin')}
            elem = []
            for n in fn.all_nodes():
                if n.get('k') == 'decl' and fn.in_range(n['id'], fn.loops[0]['b'], fn.loops[0]['e']):
                    for v in n['vars']:
                        i = pn(fn, v.get('init')) if isinstance(v.get('init'), int) else None
                        if i is not None and ((i.get('k') == 'unop' and i.get('op') == '*') or (i.get('k') == 'call' and i.get('op') == '*')) \
                                and local_or_param(fn, i.get('sub', i.get('recv'))) in begins:
                            elem.append(v)
            if msg is None and len(elem) != 1:
                msg = 'cannot identify the loop element'
            if msg is None:
                ed = elem[0]['d']
                want = [lambda c: (c & 0xff) >> 4, lambda c: c & 0xf]
                for ap, w in zip(appends, want):
                    ix = pn(fn, ap['args'][0])
                    if ix is None or ix.get('k') != 'index' or local_or_param(fn, ix.get('base')) not in tables:
                        msg = 'appended value is not an element of the digit table'
                        break
                    tab = tables[local_or_param(fn, ix['base'])]
                    if len(tab) != 16 or any(int(ch, 16) != i for i, ch in enumerate(tab) if ch in '0123456789abcdefABCDEF') or any(ch not in '0123456789abcdefABCDEF' for ch in tab):
                        msg = 'digit table %r is not the 16 hexadecimal digits in order' % tab
                        break
                    try:
                        for c in range(-128, 256):
                            if _eval_int(fn, ix['idx'], {ed: c}) != w(c):
                                msg = 'for byte value %d the %s digit index is %d, required %d' % (c & 0xff, 'first' if w is want[0] else 'second',
                                                                                                 _eval_int(fn, ix['idx'], {ed: c}), w(c))
                                break
                    except _Unknown as e:
                        R.broken('%s: index expression not understood: %s' % (q, e))
                        return
                    if msg:
                        break
        R.check(msg is None, 'H1-hex-encoding', key, fn.site, 'convert_to_hex: %s' % msg, detail='both digit indices evaluated for all byte values')


SNPRINTF = ('snprintf', 'std::snprintf', '_snprintf')


def _fixed_char_array(fn, nid):
    """(decl id, extent) when the expression denotes a local array of char (char[N] / std::array<char, N>.data()), else (None, None)."""
    n = onode(fn, nid)
    if n is not None and n.get('k') == 'call' and short(n.get('q', '')) in ('data', 'begin') and n.get('recv') is not None:
        n = onode(fn, n['recv'])
    if n is None or n.get('k') != 'var' or n.get('vk') != 'local':
        return None, None
    dn, dv = decl_of(fn, n['d'])
    t = (dv or {}).get('tC', '').replace('const ', '')
    ext = None
    if t.startswith('char[') and t.endswith(']'):
        ext = t[5:-1]
    elif t.startswith('std::array<char,') and t.endswith('>'):
        ext = t[len('std::array<char,'):-1].strip()
    try:
        return n['d'], int(ext)
    except (TypeError, ValueError):
        return None, None


def _mentions(fn, nid, d):
    return any(fn.nodes[x].get('k') == 'var' and fn.nodes[x].get('d') == d for x in fn.subtree(nid))


# interval sets: tuple of disjoint (lo, hi) pairs, None = unbounded
_IV_ALL = ((None, None),)


def _iv_norm(ivs):
    ivs = [iv for iv in ivs if iv[0] is None or iv[1] is None or iv[0] <= iv[1]]
    ivs.sort(key=lambda iv: (iv[0] is not None, iv[0] if iv[0] is not None else 0))
    out = []
    for lo, hi in ivs:
        if out and (out[-1][1] is None or lo is None or lo <= out[-1][1] + 1):
            plo, phi = out[-1]
            out[-1] = (plo, None if (phi is None or hi is None) else max(phi, hi))
        else:
            out.append((lo, hi))
    return tuple(out)


def _iv_union(a, b):
    return _iv_norm(list(a) + list(b))


def _iv_meet(a, lo, hi):
    out = []
    for (l, h) in a:
        nl = l if lo is None else (lo if l is None else max(l, lo))
        nh = h if hi is None else (hi if h is None else min(h, hi))
        out.append((nl, nh))
    return _iv_norm(out)


def _iv_within(a, need):
    return all(l is not None and h is not None and l >= need[0] and h <= need[1] for (l, h) in a)


def _iv_text(a):
    if a is None:
        return 'anything'
    return ' or '.join('[%s, %s]' % ('-inf' if l is None else l, '+inf' if h is None else h) for (l, h) in a) or 'nothing'


def _snprintf_result_set(fmt):
    """Library convention (C11 7.21.6.5): snprintf returns the number of characters the complete output has, or a negative value on an
    encoding error.  A format that contains a numeric / character conversion produces at least one character."""
    import re
    if fmt is not None and re.search(r'%[-+ #0]*(\*|\d+)?(\.(\*|\d+))?(hh|h|l|ll|L|j|z|t)?[diouxXfFeEgGaAc]', fmt):
        return ((None, -1), (1, None))
    return _IV_ALL


def _affine_offset(fn, nid, d):
    """c if the expression is <variable d> + c (c integer constant, possibly 0 or negative), else None."""
    n = pn(fn, nid, explicit_noop=True)
    if n is None:
        return None
    if n.get('k') == 'var' and n.get('d') == d:
        return 0
    if n.get('k') == 'binop' and n.get('op') in ('+', '-'):
        l, r = _affine_offset(fn, n['lhs'], d), fn.const_value(n['rhs'])
        if l is not None and r is not None:
            return l + r if n['op'] == '+' else l - r
        if n['op'] == '+':
            l, r = fn.const_value(n['lhs']), _affine_offset(fn, n['rhs'], d)
            if l is not None and r is not None:
                return l + r
    return None


def _iv_refine(fn, cond, sense, st, d):
    """value set of variable d on the edge where `cond` evaluated to `sense`."""
    n = pn(fn, cond)
    if n is None:
        return st
    k = n.get('k')
    if k == 'unop' and n.get('op') == '!':
        return _iv_refine(fn, n['sub'], not sense, st, d)
    if k == 'binop' and n.get('op') in ('&&', '||'):
        a = _iv_refine(fn, n['lhs'], sense, st, d)
        b = _iv_refine(fn, n['rhs'], sense, st, d)
        both = (n['op'] == '&&') == bool(sense)      # (a && b) true / (a || b) false: both operands have that value
        if both:
            return tuple(iv for x in a for iv in _iv_meet(b, x[0], x[1]))
        return _iv_union(a, b)
    if k == 'binop' and n.get('op') in ('<', '<=', '>', '>=', '==', '!='):
        op = n['op']
        lo_, ro_ = _affine_offset(fn, n['lhs'], d), _affine_offset(fn, n['rhs'], d)
        lc, rc = fn.const_value(n['lhs']), fn.const_value(n['rhs'])
        if lo_ is not None and rc is not None:
            c = rc - lo_
        elif ro_ is not None and lc is not None:
            c = lc - ro_
            op = {'<': '>', '<=': '>=', '>': '<', '>=': '<=', '==': '==', '!=': '!='}[op]
        else:
            return st
        if not sense:
            op = {'<': '>=', '<=': '>', '>': '<=', '>=': '<', '==': '!=', '!=': '=='}[op]
        if op == '<':
            return _iv_meet(st, None, c - 1)
        if op == '<=':
            return _iv_meet(st, None, c)
        if op == '>':
            return _iv_meet(st, c + 1, None)
        if op == '>=':
            return _iv_meet(st, c, None)
        if op == '==':
            return _iv_meet(st, c, c)
        return _iv_union(_iv_meet(st, None, c - 1), _iv_meet(st, c + 1, None))
    return st


def _len_ranges(fn, d, call_id, initial):
    """{element id: interval set of variable d before the element}.  Definitions understood: the snprintf call (initial), assignment
    of a constant, decrement (the value does not grow: the range becomes the hull from its lowest to its highest value -- where
    trimming stops is a matter of the text, see N2).  Anything else => None (not modelled)."""
    defs = {}
    dn, dv = decl_of(fn, d)
    if dv is not None and isinstance(dv.get('init'), int):
        defs[dn['id']] = ('set', initial) if peel(fn, dv['init']) == call_id else None
        if defs[dn['id']] is None:
            c0 = fn.const_value(dv['init'])
            if c0 is None:
                return None
            defs[dn['id']] = ('set', ((c0, c0),))
    for (n, lk, kind, rhs) in writes(fn):
        if lk != ('var', d):
            continue
        if kind == 'assign' and rhs is not None and peel(fn, rhs) == call_id:
            defs[n['id']] = ('set', initial)
        elif kind == 'assign' and rhs is not None and fn.const_value(rhs) is not None:
            c0 = fn.const_value(rhs)
            defs[n['id']] = ('set', ((c0, c0),))
        elif kind == 'dec':
            defs[n['id']] = ('dec',)
        else:
            return None
    if address_taken(fn, ('var', d)):
        return None
    before = {}
    inb = {fn.entry: _IV_ALL}
    work = [fn.entry]
    rounds = 0
    while work:
        rounds += 1
        if rounds > 5000:
            return None
        b = work.pop()
        st = inb[b]
        blk = fn.blocks[b]
        for e in blk['elems']:
            before[e] = _iv_union(before[e], st) if e in before else st
            df = defs.get(e)
            if df is not None:
                if df[0] == 'set':
                    st = df[1]
                elif st:
                    los = [l for (l, _h) in st]
                    his = [h for (_l, h) in st]
                    st = ((None if None in los else min(los), None if None in his else max(his)),)
        if is_abort_block(fn, b):
            continue
        succs = blk['succs']
        for i, s_ in enumerate(succs):
            if s_ is None:
                continue
            out = st
            if 'cond' in blk and len(succs) == 2 and blk.get('termcls') != 'SwitchStmt':
                out = _iv_refine(fn, blk['cond'], i == 0, st, d)
            new_ = _iv_union(inb[s_], out) if s_ in inb else out
            if s_ not in inb or new_ != inb[s_]:
                inb[s_] = new_
                work.append(s_)
    return before


def snprintf_rules(fb, R):
    q = 'osmium::double2string'
    key = q + '#snprintf-result'
    fns = [f for f in fb.fns(q) if any(n.get('k') == 'call' and (n.get('q') or n.get('name')) in SNPRINTF for n in f.all_nodes())]
    if not fns:
        R.bad('N1-snprintf-length-bounded', key, q, 'no double2string body that calls snprintf was found')
    for fn in fns:
        calls = [n for n in fn.all_nodes() if n.get('k') == 'call' and (n.get('q') or n.get('name')) in SNPRINTF]
        nfixed = 0
        for c in calls:
            a = c.get('args', [])
            bd, arr = _fixed_char_array(fn, a[0]) if a else (None, None)
            if bd is None:
                continue        # formats into a dynamically sized destination: nothing to decide here
            nfixed += 1
            size = fn.const_value(a[1]) if len(a) > 1 else None
            if size is None:
                R.broken('%s: size argument of snprintf is not a constant' % fn.full)
                continue
            # the size handed to snprintf is the extent of the destination array: larger overflows, smaller wastes usable characters
            R.check(size == arr, 'N1-snprintf-length-bounded', q + '#size-arg-equals-buffer-extent', fn.loc(c['id']),
                    'snprintf is told the buffer has %d bytes but the array has %d: %s' % (
                        size, arr, 'it can write past the end' if size > arr else
                        'numbers of %d..%d characters, which fit, are truncated (e.g. a Web Mercator x of lon -180 at precision %d)' % (size, arr - 1, size - 10)))
            # the result variable: initialised from / assigned the call
            ld = None
            for n in fn.all_nodes():
                if n.get('k') == 'decl':
                    for v in n['vars']:
                        if isinstance(v.get('init'), int) and peel(fn, v['init']) == c['id']:
                            ld = v['d']
            for (n, lk, kind, rhs) in writes(fn):
                if lk[0] == 'var' and kind == 'assign' and rhs is not None and peel(fn, rhs) == c['id']:
                    ld = lk[1]
            if ld is None:
                R.bad('N1-snprintf-length-bounded', key, fn.loc(c['id']), 'the result of snprintf (number of characters needed) is discarded')
                continue
            # value range of the result variable at every program point: interval-set dataflow over the CFG, started from the library
            # convention of snprintf for this format, refined on branch edges by the comparisons of the variable with constants,
            # joined (union) where paths meet -- so a test-and-clamp (`if (len < 0 || len >= N) len = N - 1;`) is understood as well as
            # a test that guards the use
            fmt = string_of(fn, a[2]) if len(a) > 2 else None
            rng = _len_ranges(fn, ld, c['id'], _snprintf_result_set(fmt))
            if rng is None:
                R.broken('%s: the snprintf result variable is modified in a way the range analysis does not model' % fn.full)
                continue
            uses = []
            badu = None
            for n in fn.all_nodes():
                need = None
                if n.get('k') == 'index' and _mentions(fn, n['idx'], ld):
                    rv = fn.root_var(n['base'])
                    if rv is not None and rv[0] == 'var' and rv[1] == bd:
                        off = _affine_offset(fn, n['idx'], ld)
                        if off is None:
                            R.broken('%s: index expression %s is not <result> + constant' % (fn.full, fn.expr(n['idx'])))
                            continue
                        need = (0 - off, arr - 1 - off)       # the variable itself must lie in this range
                if n.get('k') == 'binop' and n.get('op') in ('+', '-') and need is None:
                    # pointer into the array: buffer + <result> (+ constant); one past the end is a valid pointer value
                    for (pa, ia) in ((n['lhs'], n['rhs']), (n['rhs'], n['lhs'])):
                        rv = fn.root_var(pa)
                        pt = (fn.nodes.get(peel(fn, pa), {}).get('t') or '')
                        if rv is not None and rv[0] == 'var' and rv[1] == bd and local_or_param(fn, pa) == bd and _mentions(fn, ia, ld) \
                                and (n['op'] == '+' or pa == n['lhs']) and ('[' in pt or '*' in pt):
                            off = _affine_offset(fn, ia, ld)
                            if off is None:
                                R.broken('%s: pointer offset %s is not <result> + constant' % (fn.full, fn.expr(ia)))
                                continue
                            sgn = 1 if n['op'] == '+' else -1
                            need = ((0 - off), (arr - off)) if sgn == 1 else None
                if n.get('k') == 'call' and n.get('args') and n['id'] != c['id']:
                    cnt = [x for x in n['args'] if local_or_param(fn, x) == ld]
                    srcs = list(n['args']) + ([n['recv']] if n.get('recv') is not None else [])
                    if cnt and any((fn.root_var(x) or (None, None))[1] == bd for x in srcs):
                        need = (0, arr)                        # a byte count taken from the array
                if need is None:
                    continue
                uses.append(n)
                st_ = rng.get(n['id'])
                if st_ is None or not _iv_within(st_, need):
                    if badu is None:
                        badu = (n, st_, need)
            R.check(badu is None, 'N1-snprintf-length-bounded', key, fn.loc(badu[0]['id']) if badu else fn.loc(c['id']),
                    'the value returned by snprintf is used as index / byte count of the %d byte buffer in `%s` where it can be %s (it must lie in '
                    '[%s, %s]): a number that does not fit is truncated and the buffer is read outside its bounds'
                    % (arr, fn.expr(badu[0]['id'])[:60] if badu else '', _iv_text(badu[1]) if badu else '', badu[2][0] if badu else '', badu[2][1] if badu else ''),
                    detail='%d uses of the snprintf result with the fixed buffer, value range inside the buffer at each (convention: result of a '
                           'numeric conversion is < 0 or >= 1)' % len(uses))
        if calls and not nfixed:
            R.ok('N1-snprintf-length-bounded', key, fn.site, detail='snprintf formats into dynamically sized storage only')
            R.ok('N1-snprintf-length-bounded', q + '#size-arg-equals-buffer-extent', fn.site, detail='no fixed-size destination')


def trim_rules(fb, R):
    q = 'osmium::double2string'
    key = q + '#zero-trim-only-after-decimal-point'
    fns = [f for f in fb.fns(q) if f.loops]
    if not fns:
        R.bad('N2-zero-trim-needs-fraction', key, q, 'no double2string body with a trimming loop was found')
    for fn in fns:
        prec = next((p['d'] for p in fn.params if p['tC'] == 'int'), None)
        found = False
        for lp in fn.loops:
            hb = loop_header_block(fn, lp)
            if hb is None:
                continue
            c = fn.blocks[hb]['cond']
            cn = pn(fn, c)
            # condition compares a buffer character with '0'
            conj = []

            def split(x):
                n = pn(fn, x)
                if n is not None and n.get('k') == 'binop' and n.get('op') == '&&':
                    split(n['lhs'])
                    split(n['rhs'])
                else:
                    conj.append(x)
            split(c)
            zero_cmp = [x for x in conj if (pn(fn, x) or {}).get('k') == 'binop' and pn(fn, x).get('op') == '==' and
                        {char_of(fn, pn(fn, x)['lhs']), char_of(fn, pn(fn, x)['rhs'])} & {'0'} and
                        any(fn.nodes[y].get('k') == 'index' or (fn.nodes[y].get('k') == 'unop' and fn.nodes[y].get('op') == '*') for y in fn.subtree(x))]
            if not zero_cmp:
                continue
            found = True
            others = [x for x in conj if x not in zero_cmp] + [g for (g, s_, _b) in guards_of(fn, c) if not fn.in_range(g, lp['b'], lp['e'])]

            def mentions_fraction(x):
                for y in fn.subtree(x):
                    ny = fn.nodes[y]
                    if ny.get('k') == 'var' and ny.get('d') == prec:
                        return True
                    if char_of(fn, y) == '.' and ny.get('k') == 'lit':
                        return True
                return False
            R.check(any(mentions_fraction(x) for x in others), 'N2-zero-trim-needs-fraction', key, fn.loc(c),
                    'trailing \'0\' characters are stripped without any test that the text has a fractional part (precision > 0 / a \'.\' was '
                    'written): with precision 0 the integer digits are stripped, double2string(s, 10.0, 0) yields "1", 0.0 reads buffer[-1]')
        if not found:
            R.broken('%s: trailing-zero trimming loop not recognised' % fn.full)


def backend_rules(fb, R):
    accessor_rules(fb, R)
    wkb_rules(fb, R)
    text_rules(fb, R)
    config_rules(fb, R)
    counter_width_rules(fb, R)
    shared_state_rules(fb, R)
    coordinates_rules(fb, R)
    hex_rules(fb, R)
    snprintf_rules(fb, R)
    trim_rules(fb, R)


# ================================================================================================ run
def factory_rules(fb, R):
    ctor_rules(fb, R)
    fill_rules(fb, R)
    wrapper_rules(fb, R)
    protocol_rules(fb, R)
    dispatch_rules(fb, R)
    threshold_rules(fb, R)


def run(ctx):
    R = ctx.R
    configs = ['ndebug14'] if ctx.tier == 'quick' else ['ndebug14', 'debug14', 'ndebug17', 'debug17']
    for cfg in configs:
        fb = ctx.facts(['geom'], cfg)
        factory_rules(fb, R)
        backend_rules(fb, R)
    # instance floors, each confirmed by reading the tree (see the module docstring for what an instance is)
    R.expect('C1-ctor-forwards-settings', 13)             # 3 back ends x {default, default+settings, projection, projection+settings} + member order
    R.expect('E1-count-equals-emits', 4)                  # the four fill_* functions
    R.expect('E2-emits-current-element', 5)               # + add_points
    R.expect('E3-skip-only-consecutive-duplicates', 13)   # 5 skip-guard + 5 one-emit-per-element + 3 compares-with-last-emitted
    R.expect('E4-first-element-never-skipped', 3)         # the three duplicate filters
    R.expect('W1-wrapper-forwards', 4)
    R.expect('T1-create-protocol', 5)                     # 3 protocols + 2 Way overloads
    R.expect('D1-direction-and-uniqueness-dispatch', 8)   # 2 geometries x 2 x 2
    R.expect('D2-reverse-iterators', 2)
    R.expect('G1-degenerate-threshold', 6)                # 3 thresholds + 3 "rejecting edge throws"
    R.expect('P1-checked-accessors', 6)                   # 2 projections, 2 Coordinates ctors, lon, lat
    R.expect('X1-axis-order', 6)                          # 4 WKB geometry kinds + 2 append_to_string overloads
    R.expect('B1-wkb-counts-match-elements', 4)           # point, linestring, polygon, multipolygon
    R.expect('B4-set_size-range-guard', 2)
    R.expect('B5-header-layout', 4)
    R.expect('B6-start-resets-buffer', 9)                 # 3 back ends x 3 geometry kinds that have a start method
    R.expect('B7-hex-iff-requested', 4)
    R.expect('M1-config-members-survive', 19)             # 7 configuration members + 12 abstract-run instances (3 back ends x 4 kinds)
    R.expect('B8-counter-width-covers-count-field', 7)    # the 7 methods that call set_size
    R.expect('Z1-no-shared-mutable-state', 1)
    R.expect('S1-text-nesting-grammar', 16)               # 2 formats x 4 geometry kinds x (grammar, precision member)
    R.expect('H1-hex-encoding', 1)
    R.expect('N1-snprintf-length-bounded', 2)
    R.expect('N2-zero-trim-needs-fraction', 1)


def _st_factory(fb, R):
    factory_rules(fb, R)


def _st_backend(fb, R):
    backend_rules(fb, R)


SELFTESTS = [(r, 'c17_geom.cpp', _st_factory) for r in (
    'C1-ctor-forwards-settings', 'E1-count-equals-emits', 'E2-emits-current-element', 'E3-skip-only-consecutive-duplicates', 'E4-first-element-never-skipped',
    'W1-wrapper-forwards', 'T1-create-protocol',
    'D1-direction-and-uniqueness-dispatch', 'D2-reverse-iterators', 'G1-degenerate-threshold')] + [(r, 'c17_geom.cpp', _st_backend) for r in (
        'P1-checked-accessors', 'X1-axis-order', 'B1-wkb-counts-match-elements', 'B4-set_size-range-guard', 'B5-header-layout',
        'B6-start-resets-buffer', 'B7-hex-iff-requested', 'S1-text-nesting-grammar', 'M1-config-members-survive',
        'B8-counter-width-covers-count-field', 'Z1-no-shared-mutable-state',
        'H1-hex-encoding', 'N1-snprintf-length-bounded', 'N2-zero-trim-needs-fraction')]
