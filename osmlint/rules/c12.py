"""C12 -- all id-to-value index implementations behave as one mathematical map (structural clauses only).

Engines: GUARD (dominating bounds / miss tests), sibling agreement (get vs get_noexcept, node() vs get_node_location(),
the two registration tables), SORTED-lite (comparator key of every binary search is a prefix of the key its container is
sorted by; helpers in osmlint/c12_util.py because osmlint/sorted.py did not exist yet), bit-slice evaluation
(charset.Bits) for FlexMem's block/offset split, PAIR-style must-pass rules on the CFG, ERRDISC for the mmap layer.

Decided (DESIGN.md section 5, C12):
 (1) G1-get-absent-throws            every `get` override of a Map subclass: all throws are osmium::not_found; a value read from a
                                      dense slot (or obtained from get_noexcept) is returned only after a comparison with
                                      empty_value<T>() whose other edge throws; a value read through a search iterator is returned only
                                      after `it == end()` (and, for lower_bound, `it->key != id`) tests whose other edges throw; the
                                      probe is built from the id parameter; the mapped field (not the key) is returned
     G2-get_noexcept-absent-empty     the same miss tests in get_noexcept (and the helpers it forwards to); their other edges return
                                      empty_value<T>(); no throw; the id is forwarded unchanged
     B1-dense-access-in-bounds        every `C[i]` on a vector-like member of a Map subclass is reached only through `i < C.size()`
                                      evidence (size comparison with the right polarity, C.resize(i + 1), or a callee that establishes
                                      it on every exit); nothing shrinks C in between
 (2) S1-search-key-prefix-of-sort-key every lower_bound / equal_range ... in a Map subclass uses a strict `<` comparator whose key is a
                                      prefix of the key of the std::sort in the class's sort() override on the same container
     S2-sort-override-sorts-searched-container   a class that binary-searches a member overrides sort() and sorts that member there
 (3) N1..N5 NodeLocationsForWays      way(): both storages are sorted under the flag before any lookup; the flag is cleared only there,
                                      after the sorts, together with the reset of the last-id sentinel to the maximum; node(): the flag
                                      is set on every path on which the tracked key descends, the last key is tracked on every path;
                                      node() and get_node_location() route the sign of the id to the same storage with the same key;
                                      way() throws not_found when a location is missing unless errors are ignored
 (4) F1-flexmem-block-offset-tiling   block(id) / offset(id) partition the 64 id bits exactly once; inner blocks are only ever
                                      assign()ed 2^bits entries; inner accesses use offset(x) of the same x as the outer block(x) and are
                                      reached only with the block allocated
     F2-flexmem-switch-carries-all    switch_to_dense: a range-for over the whole sparse vector (no other way out of the loop, no
                                      skipped iteration) feeds (entry.id, entry.value) into the dense setter before the sparse
                                      vector is cleared and the mode flag set; set_sparse stores the entry before a switch
     F3-flexmem-mode-dispatch         set / get_noexcept: dense helper exactly under the flag, sparse helper exactly otherwise
 (5) T1-registration-table            every REGISTER_MAP row (both tables: map headers and node_locations_map.hpp): names unique within
                                      a table, both tables map each name to the same class template, name == snake_case(class),
                                      register_map<..., K> forwards K to create_map<..., K> and the name to MapFactory::register_map;
                                      MapFactory::create_map invokes the callback found under config[0] and throws otherwise
 (+) O1-index-file-open-keeps-contents  the open() whose descriptor goes into `new Map{fd}` uses O_RDWR|O_CREAT without O_TRUNC / O_EXCL
     M1-file-grown-before-mapping     every file-backed mmap() is dominated by the call that grows the file (reaches ftruncate); the members
                                      that call reads as its size source are stored before it, and the mapped length is that size
 (+) L1-special-members-memberwise   every user-written move / copy constructor, assignment and swap of the index / mapping classes takes over
                                      (or exchanges) every data member of its record (member list from the record facts) on every path
     L2-moved-from-mapping-invalidated a move out of a MemoryMapping resets, after the transfer, the member the munmap() guard reads
     P1-reserve-only-changes-capacity reserve() of a map / of the mmap vector only pre-allocates: no call that can change size() or the contents
 (6) E1-mmap-oserror-reaches-throw    ERRDISC on mmap / mremap / munmap / fstat / ftruncate / open / tmpfile / dup in the index and
                                      memory-mapping layer (is_valid() is inlined for the evaluation)
 (+) V1-mmap-vector-growth-filled-empty   every growth of an mmap_vector (constructors, reserve) fills [old extent, new extent) with
                                      empty_value<T>() (unset dense slots must read as "not found")
     V2-mmap-vector-size-within-capacity  resize(): m_size = n only after n <= capacity() or reserve(n + c), c >= 0; reserve(): grows the
                                      mapping to at least the request; push_back writes slot m_size - 1 after resize(m_size + 1)
     D1-dump-writes-whole-vector      dump_as_list / dense dump_as_array write C.data() with C.size() * sizeof(element type of C)

Not decided (moved to "not decided"): equality of the implementations on all insertion histories; growth-step arithmetic
(1 Mi increments, the density heuristic of set_sparse, min_dense_entries); byte layout of dump / reload and the windowing loop
of the sparse dump_as_array; behaviour of std::map / std::sort / std::lower_bound themselves; Map<id, size_t> instantiations
(std::vector::resize value-initialises to 0, not to empty_value<size_t>() -- outside the registered <id, Location> types).
"""
import re

from .. import errdisc as E
from .. import c12_util as U
from ..charset import Unsupported, field_vec, int_type
from ..flow import path_search, describe_path

# genuine findings on the pristine tree: (rule, key, explanation)
KNOWN = []

EXPLANATION = (
    'Decided: (1) every Map subclass get(): all throws are osmium::not_found, dense slot values pass an empty_value test whose other '
    'edge throws, searched values pass end()/key-mismatch tests whose other edges throw; get_noexcept mirrors this with empty_value '
    'returns; every vector element access in the map classes is dominated by bounds evidence; (2) binary-search comparator key is a '
    'prefix of the sort key of the sort() override on the same container; (3) NodeLocationsForWays sorts both storages before the first '
    'lookup whenever the flag is set, sets the flag on every descent of the tracked key, clears it only after the sorts and resets the '
    'sentinel; sign routing of node() and get_node_location() agree; (4) FlexMem block/offset tile the id bits, inner blocks have 2^bits '
    'entries, switch_to_dense copies every sparse entry before clearing, mode dispatch; (5) registration tables: unique names, both tables '
    'agree, name == snake_case(class), factories forward the class; (6) ERRDISC on mmap/mremap/munmap/fstat/ftruncate/open/tmpfile/dup; '
    'mmap_vector growth is filled with empty_value and size never exceeds capacity; dumps write size()*sizeof(element). '
    'NOT decided: equivalence of the implementations over insertion histories, growth-step and density arithmetic, dump/reload byte '
    'layout, sparse dump_as_array windowing, std container semantics.')
ASSUMPTIONS = ['std::sort / std::lower_bound / std::equal_range / std::map behave per the standard; std::pair orders lexicographically',
               'failure conventions of POSIX calls as tabulated in osmlint/errdisc.py',
               'drivers/index.cpp instantiates every registered map type; drivers/c12_extra.cpp re-expands REGISTER_MAP rows into function bodies',
               'LP64 data model']

MAP = 'osmium::index::map::Map'
NOT_FOUND = 'osmium::not_found'
FLEX = 'osmium::index::map::FlexMem'
NLFW = 'osmium::handler::NodeLocationsForWays'
MMV = 'osmium::detail::mmap_vector_base'


def map_classes(fb):
    return sorted({r.q for r in fb.derived_from(MAP)})


def _methods(fb, cls):
    return [f for f in fb.functions if f.cls == cls and f.has_cfg and not f.is_lambda]


# ------------------------------------------------------------------------------------------------ (1) B1 bounds

def bounds_rules(fb, R, classes):
    rule = 'B1-dense-access-in-bounds'
    for cls in classes:
        for fn in _methods(fb, cls):
            for (acc, cont, idx) in U.vector_accesses(fb, fn):
                cn = U.scn(fn, cont)
                if cn is not None and cn.get('k') == 'call' and cn.get('op') == '[]':
                    if cls != FLEX:
                        R.broken('%s: nested element access %s outside FlexMem (no tiling rule for it)' % (fn.q, U.ctext(fb, fn, acc['id'])))
                    continue   # element of an element: block tiling rule (F1)
                key = '%s#%s[%s]' % (fn.q, U.ctext(fb, fn, cont), U.ctext(fb, fn, idx))
                w, why = U.unproven_access_path(fb, fn, acc, cont, idx)
                R.check(w is None, rule, key, fn.loc(acc['id']),
                        'element access %s[%s] in %s is reachable without proof that the index is below size(): %s (%s)'
                        % (U.ctext(fb, fn, cont), U.ctext(fb, fn, idx), fn.q, why, describe_path(fn, w)), why)


# ------------------------------------------------------------------------------------------------ (1) G1 / G2 get, get_noexcept

def _returns(fn):
    return [n for n in fn.all_nodes() if n.get('k') == 'return' and 'sub' in n]


def _edge_throws(fn, succ):
    return succ is not None and U.must_pass(fn, succ, []) is None


def _edge_returns_empty(fb, fn, succ):
    if succ is None:
        return False
    empties = [n['id'] for n in _returns(fn) if all(src[0] == 'empty' for (src, _x) in _ret_sources(fb, fn, n))]
    return bool(empties) and U.must_pass(fn, succ, empties) is None and not U.throw_ids(fn)


def _id_param(fn):
    return fn.params[0] if fn.params else None


def _probe_ok(fb, fn, d, so):
    """the search that initialises iterator d looks for the id parameter of fn."""
    kind, cont, call, holder, key, et = so
    idp = _id_param(fn)
    if idp is None:
        return False
    if holder is not fn:
        init = U.local_init(fn, d)
        c = U.scn(fn, init)
        if c is None or not c.get('args') or U.ctext(fb, fn, c['args'][0]) != idp['name']:
            return False
        idp = _id_param(holder)
        if idp is None:
            return False
    args = call.get('args', [])
    probe = args[2] if call.get('q') in U.SEARCHES and len(args) > 2 else (args[0] if args else None)
    if probe is None:
        return False
    seen = set()
    work = [probe]
    while work:
        x = work.pop()
        for v in holder.subtree(x):
            m = holder.nodes[v]
            if m.get('k') == 'var' and m.get('vk') in ('local', 'param') and m['d'] not in seen:
                seen.add(m['d'])
                init = U.local_init(holder, m['d'])
                if init is not None:
                    work.append(init)
    return idp['d'] in seen


def _ret_sources(fb, fn, ret):
    """value sources of one return statement: [(source, extra guards)].  `return c ? a : b;` yields one entry per arm; the arm is
    guarded by c (with the arm's sense) and the "other edge" of that guard is the other arm: ('arm', expr id)."""
    x = U.strip_casts(fn, ret['sub'])
    n = fn.nodes.get(x)
    hops = 0
    while n is not None and n.get('k') == 'var' and n.get('vk') == 'local' and n['d'] not in U.assigned_vars(fn) and hops < 3:
        hops += 1
        init = U.local_init(fn, n['d'])
        if init is None:
            break
        x = U.strip_casts(fn, init)
        n = fn.nodes.get(x)
    if n is not None and n.get('k') == 'condop':
        out = []
        for arm, other, sense in ((n['then'], n['else'], True), (n['else'], n['then'], False)):
            facts = []
            U._expand(fn, n['cond'], sense, facts)
            extra = [(c, s_, None, ('arm', other)) for (c, s_) in facts]
            out.append((U.value_source(fb, fn, arm), extra))
        return out
    return [(U.value_source(fb, fn, ret['sub']), [])]


def _stored_value_checks(fb, R, rule, fn, ret, src, mode, extra=()):
    """mode 'throw' (get) / 'empty' (get_noexcept).  Emits the required-instance keys for one return of a stored value."""
    site = fn.loc(ret['id'])
    gs = U.guards(fn, ret['id']) + list(extra)

    def miss(o):
        if isinstance(o, tuple) and o[0] == 'arm':      # other arm of a conditional expression
            return mode == 'empty' and U.value_source(fb, fn, o[1])[0] == 'empty'
        return _edge_throws(fn, o) if mode == 'throw' else _edge_returns_empty(fb, fn, o)
    what = 'throw osmium::not_found' if mode == 'throw' else 'return empty_value()'
    sfx = 'throws' if mode == 'throw' else 'returns-empty'
    idp = _id_param(fn)
    kind = src[0]
    if kind == 'elem':
        acc, cont, idx, via = src[1], src[2], src[3], src[4]
        it, ct = U.ctext(fb, fn, idx), U.ctext(fb, fn, cont)
        cn = U.scn(fn, cont)
        nested = cn is not None and cn.get('k') == 'call' and cn.get('op') == '[]'
        if nested:
            cont2, idx2 = cn['recv'], cn['args'][0]
            it, ct = U.ctext(fb, fn, idx2), U.ctext(fb, fn, cont2)
        found = []
        for (c, s, b, o) in gs:
            rel = U.size_relation(fb, fn, c)
            if rel is not None and rel[0] == it and rel[1] == ct and ((rel[2] == '<' and s) or (rel[2] == '>=' and not s)):
                found.append(o)
        R.check(bool(found) and all(miss(o) for o in found), rule, '%s#out-of-range-%s' % (fn.q, sfx), site,
                '%s returns %s[%s] without an `index < size()` test whose failing edge must %s' % (fn.q, ct, it, what))
        if nested:
            found = []
            for (c, s, b, o) in gs:
                c2, pol = U.unnegate(fn, c)
                x = U.scn(fn, c2)
                if x is not None and x.get('k') == 'call' and x.get('q', '').endswith('::empty') and x.get('recv') is not None \
                        and U.ctext(fb, fn, x['recv']) == U.ctext(fb, fn, cont) and (s != pol):
                    found.append(o)
            R.check(bool(found) and all(miss(o) for o in found), rule, '%s#unallocated-block-%s' % (fn.q, sfx), site,
                    '%s reads a slot of %s without an `empty()` test whose failing edge must %s' % (fn.q, U.ctext(fb, fn, cont), what))
    if kind in ('elem', 'method') and mode == 'throw':
        via = src[4] if kind == 'elem' else src[3]
        texts = {U.ctext(fb, fn, src[1]['id'])}
        if via is not None:
            texts |= {m['name'] for m in fn.all_nodes() if m.get('k') == 'var' and m.get('d') == via}
        found = []
        for (c, s, b, o) in gs:
            op = U.empty_test(fb, fn, c, texts)
            if op is not None and ((op == '==' and not s) or (op == '!=' and s)):
                found.append(o)
        R.check(bool(found) and all(miss(o) for o in found), rule, '%s#empty-slot-throws' % fn.q, site,
                '%s returns a value read from dense storage without comparing it with empty_value<T>() (an id that was never set '
                'must throw osmium::not_found, not yield the fill value)' % fn.q)
    if kind == 'method':
        call = src[1]
        ok = idp is not None and call.get('args') and U.ctext(fb, fn, call['args'][0]) == idp['name']
        R.check(ok, rule, '%s#forwards-id' % fn.q, site, '%s does not forward its id parameter unchanged to %s' % (fn.q, call.get('q')))
    if kind == 'iter':
        d, path = src[1], src[2]
        so = U.search_origin(fb, fn, d)
        if so is None:
            R.broken('%s: returned iterator value does not come from a recognised search (%s)' % (fn.q, site))
            return
        skind, cont, call, holder, key, et = so
        found = []
        for (c, s, b, o) in gs:
            op = U.end_test(fb, fn, c, d, cont)
            if op is not None and ((op == '==' and not s) or (op == '!=' and s)):
                found.append(o)
        R.check(bool(found) and all(miss(o) for o in found), rule, '%s#search-miss-%s' % (fn.q, sfx), site,
                '%s dereferences the search result without an `== %s.end()` test whose failing edge must %s' % (fn.q, cont, what))
        if skind != 'find':
            found = []
            for (c, s, b, o) in gs:
                kt = U.key_test(fb, fn, c, d, idp['name'] if idp else '?')
                if kt is not None and key and kt[1] == key[0] and ((kt[0] == '!=' and not s) or (kt[0] == '==' and s)):
                    found.append(o)
            R.check(bool(found) and all(miss(o) for o in found), rule, '%s#key-mismatch-%s' % (fn.q, sfx), site,
                    '%s uses the %s result without testing that its key field %s equals the id (lower_bound returns the next larger '
                    'entry for an absent id); the failing edge must %s' % (fn.q, skind, key[0] if key else '?', what))
        R.check(bool(key) and path != key[0], rule, '%s#returns-mapped-value' % fn.q, site,
                '%s returns the key field %s of the found entry instead of the mapped value' % (fn.q, path))
        R.check(_probe_ok(fb, fn, d, so), rule, '%s#probe-built-from-id' % fn.q, site,
                '%s: the value searched for is not built from the id parameter' % fn.q)


def _noexcept_chain(fb, R, fn, seen, depth=0):
    rule = 'G2-get_noexcept-absent-empty'
    if fn.pat in seen or depth > 3:
        return
    seen.add(fn.pat)
    R.check(not U.throw_ids(fn), rule, '%s#no-throw' % fn.q, fn.site, '%s (get_noexcept path) contains a throw / noreturn call' % fn.q)
    rets = _returns(fn)
    if not rets:
        R.bad(rule, '%s#returns-a-value' % fn.q, fn.site, '%s has no return statement' % fn.q)
    for ret in rets:
      for (src, extra) in _ret_sources(fb, fn, ret):
        if src[0] == 'empty':
            R.ok(rule, '%s#returns-empty-on-miss' % fn.q, fn.loc(ret['id']))
        elif src[0] == 'method':
            _stored_value_checks(fb, R, rule, fn, ret, src, 'empty', extra)
            _noexcept_chain(fb, R, src[2], seen, depth + 1)
        elif src[0] in ('elem', 'iter'):
            _stored_value_checks(fb, R, rule, fn, ret, src, 'empty', extra)
        else:
            R.broken('%s: return value of unknown provenance at %s' % (fn.q, fn.loc(ret['id'])))


def get_rules(fb, R, classes):
    r1 = 'G1-get-absent-throws'
    for cls in classes:
        gets = fb.fns(cls + '::get')
        nes = fb.fns(cls + '::get_noexcept')
        if not gets or not nes:
            R.broken('%s: get / get_noexcept not instantiated' % cls)
            continue
        for fn in gets:
            throws = [n for n in fn.all_nodes() if n.get('k') == 'throw']
            live = fn.reachable_blocks()
            pos = fn.positions()
            reach = [t for t in throws if t['id'] in pos and pos[t['id']][0] in live]
            ok = bool(reach) and all(t.get('tt') == NOT_FOUND and not t.get('rethrow') for t in throws)
            R.check(ok, r1, '%s#absent-throws-not_found' % fn.q, fn.site,
                    '%s must signal an absent id by throwing osmium::not_found (found %s)' % (fn.q, sorted({t.get('tt', '?') for t in throws}) or 'no throw'))
            for ret in _returns(fn):
              for (src, extra) in _ret_sources(fb, fn, ret):
                if src[0] == 'empty':
                    R.bad(r1, '%s#absent-throws-not_found' % fn.q, fn.loc(ret['id']), '%s returns empty_value() instead of throwing osmium::not_found' % fn.q)
                elif src[0] in ('elem', 'iter', 'method'):
                    _stored_value_checks(fb, R, r1, fn, ret, src, 'throw', extra)
                    if src[0] == 'method':
                        _noexcept_chain(fb, R, src[2], set())
                else:
                    R.broken('%s: return value of unknown provenance at %s' % (fn.q, fn.loc(ret['id'])))
        for fn in nes:
            _noexcept_chain(fb, R, fn, set())


# ------------------------------------------------------------------------------------------------ (2) SORTED

def cmp_shape(fn):
    """comparator body `return X op Y` -> op (to tell a non-strict / reversed comparison from an unknown shape)."""
    rets = _returns(fn)
    if len(rets) != 1:
        return None
    p = U.cmp_parts(fn, rets[0]['sub'])
    return p[0] if p else None


def sorted_rules(fb, R, classes):
    r1, r2 = 'S1-search-key-prefix-of-sort-key', 'S2-sort-override-sorts-searched-container'
    for cls in classes:
        fns = _methods(fb, cls)
        searches, sorts = [], []
        for fn in fns:
            for rec in U.ordered_calls(fb, fn, U.SEARCHES):
                searches.append((fn,) + rec)
            for rec in U.ordered_calls(fb, fn, U.SORTS):
                sorts.append((fn,) + rec)
        for (fn, call, cont, et, key, lam) in searches:
            site = fn.loc(call['id'])
            if cont is None:
                R.broken('%s: binary search over an unrecognised range (%s)' % (fn.q, site))
                continue
            k1 = '%s#%s(%s)' % (fn.q, call['q'].rsplit('::', 1)[-1], cont)
            if key is None:
                op = cmp_shape(lam) if lam is not None else None
                if op in ('<=', '>', '>=', '==', '!='):
                    R.bad(r1, k1, site, '%s: the search comparator uses `%s`; it must be the strict `<` ordering the container is sorted by' % (fn.q, op))
                else:
                    R.broken('%s: search comparator of unknown shape (%s)' % (fn.q, site))
                continue
            mine = [s for s in sorts if s[2] == cont and s[0].clsT == fn.clsT and s[0].name == 'sort']
            R.check(bool(mine), r2, '%s::sort#sorts-%s' % (cls, cont), site,
                    '%s binary-searches %s but the class has no sort() override that std::sorts it (Map::sort() is a no-op)' % (fn.q, cont))
            for (sfn, scall, scont, set_, skey, slam) in mine:
                if skey is None:
                    op = cmp_shape(slam) if slam is not None else None
                    if op in ('<=', '>', '>=', '==', '!='):
                        R.bad(r1, k1, sfn.loc(scall['id']), '%s sorts %s with a `%s` comparator; the searches assume ascending strict order' % (sfn.q, cont, op))
                    else:
                        R.broken('%s: sort comparator of unknown shape (%s)' % (sfn.q, sfn.loc(scall['id'])))
                    continue
                ok = len(key) <= len(skey) and tuple(skey[:len(key)]) == tuple(key)
                R.check(ok, r1, k1, site, '%s searches %s by key %s but %s sorts it by %s (the search key must be a prefix of the sort key)'
                        % (fn.q, cont, key, sfn.q, skey), 'search key %s, sort key %s' % (key, skey))


# ------------------------------------------------------------------------------------------------ (4) FlexMem

def _bit_slices(fb, R, rec):
    """-> (k, block Fn name, offset Fn name) when two static one-parameter helpers split the id into id >> k and id & (2^k - 1)."""
    cands = []
    for f in fb.functions:
        if f.cls == FLEX and f.clsT == rec.full and f.has_cfg and f.static and len(f.params) == 1 and len(_returns(f)) == 1:
            cands.append(f)
    vecs = {}
    for f in cands:
        pd = f.params[0]['d']
        leaf = lambda fn, n, pd=pd: 'id' if n.get('k') == 'var' and n.get('d') == pd else None
        try:
            vecs[f.name] = (f, U.UBits(f, leaf, {'id': 64}).eval(_returns(f)[0]['sub']))
        except Unsupported as e:
            vecs[f.name] = (f, None)
    lo = hi = None
    for name, (f, v) in vecs.items():
        if v is None:
            continue
        for k in range(1, 64):
            if v == field_vec('id', 0, k):
                lo = (name, f, k)
            if v == field_vec('id', k, 64 - k):
                hi = (name, f, k)
    return lo, hi, vecs


def flexmem_rules(fb, R):
    r1, r2, r3 = 'F1-flexmem-block-offset-tiling', 'F2-flexmem-switch-carries-all', 'F3-flexmem-mode-dispatch'
    recs = [r for r in fb.records_named(FLEX) if r.inst or r.fields]
    recs = [r for r in recs if any(f.clsT == r.full for f in fb.functions if f.cls == FLEX)]
    if not recs:
        R.broken('no instantiation of %s' % FLEX)
        return
    for rec in recs:
        dense_f = next((f for f in rec.fields if f['tC'].startswith('std::vector<std::vector<')), None)
        sparse_f = next((f for f in rec.fields if f['tC'].startswith('std::vector<') and not f['tC'].startswith('std::vector<std::vector<')), None)
        flag_f = next((f for f in rec.fields if f['tC'] == 'bool'), None)
        if dense_f is None or sparse_f is None or flag_f is None:
            R.broken('%s: cannot identify the dense / sparse / mode members by type' % rec.full)
            continue
        DN, SN, FN = dense_f['name'], sparse_f['name'], flag_f['name']
        fns = [f for f in fb.functions if f.cls == FLEX and f.clsT == rec.full and f.has_cfg and not f.is_lambda]
        site = '%s:%d' % (rec.file, rec.line)

        # ---- F1 tiling
        lo, hi, vecs = _bit_slices(fb, R, rec)
        ok = lo is not None and hi is not None and lo[2] == hi[2]
        R.check(ok, r1, FLEX + '#block-offset-partition-id-bits', site,
                'no pair of static helpers splits the id into (id >> k, id & (2^k - 1)) with the same k: %s'
                % {n: ('bits ' + ''.join('x' if b not in (0, 1) else str(b) for b in v[:24]) if v else 'unsupported') for n, (f, v) in vecs.items()})
        if not ok:
            continue
        k = lo[2]
        OFF, BLK = lo[1], hi[1]
        # inner blocks: only assign(2^k, ...) changes their length
        inner_calls = []
        for fn in fns:
            for n in fn.all_nodes():
                if n.get('k') == 'call' and n.get('recv') is not None and n.get('rcls') == 'std::vector':
                    r = U.scn(fn, n['recv'])
                    if r is not None and r.get('k') == 'call' and r.get('op') == '[]' and r.get('recv') is not None \
                            and fn.is_this_member(r['recv'], DN):
                        inner_calls.append((fn, n))
        nassign = 0
        for (fn, n) in inner_calls:
            nm = n['q'].rsplit('::', 1)[-1]
            if nm in ('empty', 'operator[]', 'size', 'begin', 'end', 'cbegin', 'cend', 'data'):
                continue
            if nm == 'assign':
                nassign += 1
                v = fn.const_value(n['args'][0]) if n.get('args') else None
                R.check(v == (1 << k), r1, '%s#block-length-matches-offset-range' % fn.q, fn.loc(n['id']),
                        '%s allocates a dense block of %s entries but offset() ranges over 2^%d = %d' % (fn.q, v, k, 1 << k))
            else:
                R.bad(r1, '%s#block-length-matches-offset-range' % fn.q, fn.loc(n['id']),
                      '%s changes the length of a dense block with %s (only assign(2^%d, empty) keeps every block full length)' % (fn.q, n['q'], k))
        if nassign == 0:
            R.bad(r1, FLEX + '#block-length-matches-offset-range', site, 'no dense block is ever allocated with assign(2^%d, empty_value)' % k)
        # inner accesses
        for fn in fns:
            for (acc, cont, idx) in U.vector_accesses(fb, fn):
                cn = U.scn(fn, cont)
                if not (cn is not None and cn.get('k') == 'call' and cn.get('op') == '[]'):
                    continue
                key0 = fn.q
                oi = U.rn(fb, fn, idx)
                bi = U.rn(fb, fn, cn['args'][0]) if cn.get('args') else None
                same = (oi is not None and bi is not None and oi.get('k') == 'call' and bi.get('k') == 'call'
                        and oi.get('u') == OFF.usr and bi.get('u') == BLK.usr and oi.get('args') and bi.get('args')
                        and U.ctext(fb, fn, oi['args'][0]) == U.ctext(fb, fn, bi['args'][0])
                        and fn.is_this_member(cn['recv'], DN))
                R.check(same, r1, key0 + '#inner-index-is-offset-of-same-id', fn.loc(acc['id']),
                        '%s indexes a dense block with %s inside block %s: must be %s(x) inside block %s(x) of the same x'
                        % (fn.q, U.ctext(fb, fn, idx), U.ctext(fb, fn, cn['args'][0]) if cn.get('args') else '?', OFF.name, BLK.name))
                ct = U.ctext(fb, fn, cont)
                elems, edges = _allocated_evidence(fb, fn, ct, U.ctext(fb, fn, cn['args'][0]) if cn.get('args') else '?', DN)
                w = path_search(fn, fn.entry, lambda e: e == acc['id'], lambda e: e in elems, lambda b, i, s: (b, i) not in edges, from_block_start=True)
                R.check(w is None, r1, key0 + '#inner-block-allocated', fn.loc(acc['id']),
                        '%s reaches %s[...] without proof that the block is allocated (empty() test or allocating call): %s'
                        % (fn.q, ct, describe_path(fn, w)))

        # ---- F2 switch
        touches = {}
        for fn in fns:
            touches[fn.q] = {m['name'] for m in fn.all_nodes() if m.get('k') == 'member' and m.get('field') and fn.is_this_member(m['id'])}
        dense_setters = [f for f in fns if DN in touches[f.q] and SN not in touches[f.q] and len(f.params) == 2 and f.ret == 'void']
        switchers = []
        for fn in fns:
            if fn.kind != 'method' or fn.params:
                continue
            asg = [n for n in fn.all_nodes() if n.get('k') == 'assign' and n.get('op') == '=' and fn.is_this_member(n['lhs'], FN) and fn.const_value(n['rhs']) == 1]
            if asg:
                switchers.append((fn, asg))
        if not switchers:
            R.bad(r2, FLEX + '::switch_to_dense#every-sparse-entry-copied', site, 'no method switches the mode flag %s to dense' % FN)
        for (fn, asg) in switchers:
            _switch_rule(fb, R, r2, fn, asg, DN, SN, FN, dense_setters)
        # set_sparse: entry stored before a switch
        sw_usrs = {f.usr for (f, _a) in switchers}
        for fn in fns:
            calls = [n for n in fn.all_nodes() if n.get('k') == 'call' and n.get('u') in sw_usrs]
            if not calls or fn.usr in sw_usrs:
                continue
            stores = [n for n in fn.all_nodes() if n.get('k') == 'call' and n.get('recv') is not None and fn.is_this_member(n['recv'], SN)
                      and n.get('q', '').rsplit('::', 1)[-1] in ('emplace_back', 'push_back')]
            if not stores:
                continue
            for c in calls:
                R.check(any(fn.elem_dominates(s['id'], c['id']) for s in stores), r2, '%s#entry-stored-before-switch' % fn.q, fn.loc(c['id']),
                        '%s switches to the dense representation before the new entry was appended to %s (the entry would be lost)' % (fn.q, SN))

        # ---- F3 dispatch
        dense_q = {f.q for f in fns if DN in touches[f.q] and SN not in touches[f.q] and FN not in touches[f.q]}
        sparse_q = {f.q for f in fns if SN in touches[f.q] and DN not in touches[f.q] and FN not in touches[f.q] and f.params}
        for name in ('set', 'get_noexcept'):
            for fn in [f for f in fns if f.name == name]:
                dc = [n for n in fn.all_nodes() if n.get('k') == 'call' and n.get('q') in dense_q]
                sc = [n for n in fn.all_nodes() if n.get('k') == 'call' and n.get('q') in sparse_q]
                ok = bool(dc) and bool(sc)

                def flag_sense(n):
                    out = set()
                    for (c, s, b, o) in U.guards(fn, n['id']):
                        if fn.is_this_member(c, FN):
                            out.add(s)
                    return out
                ok = ok and all(flag_sense(n) == {True} for n in dc) and all(flag_sense(n) == {False} for n in sc)
                ok = ok and U.must_pass(fn, fn.entry, [n['id'] for n in dc + sc]) is None
                R.check(ok, r3, '%s#dispatch-on-mode' % fn.q, fn.site,
                        '%s must use the dense helper exactly when %s is set and the sparse helper otherwise, on every path' % (fn.q, FN))


def _allocated_evidence(fb, fn, inner_text, block_text, DN, depth=0):
    """evidence that the inner block `inner_text` is non-empty: `inner.empty()` false edge, inner.assign(N>0, ..), or a call of
    a method of this with the block index as argument that establishes it on every exit."""
    elems, edges = set(), set()
    for b in U.cond_blocks(fn):
        for i in (0, 1):
            for (c, sense) in U.edge_facts(fn, b, i):
                x = U.scn(fn, c)
                if x is not None and x.get('k') == 'call' and x.get('q', '').endswith('::empty') and x.get('recv') is not None \
                        and U.ctext(fb, fn, x['recv']) == inner_text and not sense:
                    edges.add((b['id'], i))
    for n in fn.all_nodes():
        if n.get('k') != 'call':
            continue
        if n.get('q', '').endswith('::assign') and n.get('recv') is not None and U.ctext(fb, fn, n['recv']) == inner_text \
                and n.get('args') and (fn.const_value(n['args'][0]) or 0) > 0:
            elems.add(n['id'])
        elif depth < 1 and n.get('rcls') == fn.cls and 'u' in n and n.get('args') and len(n['args']) == 1 \
                and U.ctext(fb, fn, n['args'][0]) == block_text:
            g = U._callee_for(fb, fn, n)
            if g is not None and g.has_cfg and g.id != fn.id and len(g.params) == 1 and g.params[0]['d'] not in U.assigned_vars(g):
                pn = g.params[0]['name']
                e2, d2 = _allocated_evidence(fb, g, '%s[%s]' % (DN, pn), pn, DN, depth + 1)
                if (e2 or d2) and U.must_pass(g, g.entry, e2, lambda b, i, s: (b, i) not in d2) is None:
                    elems.add(n['id'])
    return elems, edges


def _switch_rule(fb, R, rule, fn, asg, DN, SN, FN, dense_setters):
    key = fn.q
    pos = fn.positions()
    # the loop: any whole-container loop form (range-for / iterator / index) over the sparse member
    lps = [lp for lp in U.element_loops(fb, fn) if fn.is_this_member(lp['cont'], SN)]
    setters = {g.usr for g in dense_setters}
    if not lps:
        # the copy loop may have been extracted into a helper of the class: decide the loop there, then treat the call as the loop
        for c_ in fn.all_nodes():
            if c_.get('k') == 'call' and c_.get('rcls') == fn.cls and 'u' in c_ and not c_.get('args') and c_.get('recv') is not None \
                    and (fn.sn(c_['recv']) or {}).get('k') == 'this':
                g = U._callee_for(fb, fn, c_)
                if g is None or not g.has_cfg or g.id == fn.id or not [lp for lp in U.element_loops(fb, g) if g.is_this_member(lp['cont'], SN)]:
                    continue
                sub = _HelperLoop(fb, g, SN, setters)
                if sub.reason is None and U.must_pass(fn, fn.entry, [c_['id']], _already_dense_edge(fn, FN)) is None:
                    _switch_rule_after_helper(fb, R, rule, fn, asg, SN, FN, c_)
                    return
    calls = [n for n in fn.all_nodes() if n.get('k') == 'call' and n.get('u') in setters]
    ok = len(lps) == 1 and len(calls) >= 1
    msg = 'no loop over the whole of %s that feeds the dense setter' % SN
    cond_blk = None
    loops = []
    if ok:
        lp = lps[0]
        cond_blk = lp['cb']
        loops = [lp['loop']]
        # (a) arguments are (entry.<id field>, entry.<value field>) of the loop element
        good = []
        for c in calls:
            a = c.get('args', [])
            if len(a) != 2:
                continue
            f0, f1 = U._field_path(fn, a[0]), U._field_path(fn, a[1])
            if f0 is None or f1 is None or f0[0] != lp['root'] or f1[0] != lp['root'] or len(f0[1]) != 1 or len(f1[1]) != 1 or f0[1] == f1[1]:
                continue
            if fn.in_range(c['id'], lp['loop']['b'], lp['loop']['e']):
                good.append(c)
        ok = bool(good)
        msg = 'the dense setter is not called with (entry.id, entry.value) of the loop element'
        if ok:
            why = U.loop_complete(fn, lp, {c['id'] for c in good})
            ok = why is None
            msg = why
    R.check(ok, rule, key + '#every-sparse-entry-copied', fn.site, '%s: %s -- entries of %s would be lost when the index switches to dense' % (fn.q, msg, SN))
    if not ok:
        return
    # (d) the sparse vector is cleared only after the loop, the flag set after the loop on every path
    clears = [n for n in fn.all_nodes() if n.get('k') == 'call' and n.get('recv') is not None and fn.is_this_member(n['recv'], SN)
              and n.get('q', '').rsplit('::', 1)[-1] in ('clear', 'resize', 'erase', 'pop_back', 'assign', 'swap', 'operator=')]
    dom = fn.dominators()
    after_loop = lambda nid: nid in pos and cond_blk['id'] in dom.get(pos[nid][0], ()) and not fn.in_range(nid, loops[0]['b'], loops[0]['e'])
    R.check(all(after_loop(c['id']) for c in clears), rule, key + '#sparse-cleared-after-copy', fn.site,
            '%s modifies %s before / while it is being copied into the dense blocks' % (fn.q, SN))
    w = U.must_pass(fn, cond_blk['succs'][1], [a['id'] for a in asg])
    R.check(w is None and all(after_loop(a['id']) for a in asg), rule, key + '#mode-flag-set-after-copy', fn.site,
            '%s must set %s after the copy loop on every path (a lookup would search the cleared sparse vector): %s' % (fn.q, FN, describe_path(fn, w)))
    # (e) the only way around the loop is the "already dense" test
    def edge_ok(b, i, s):
        blk = fn.blocks[b]
        if 'cond' in blk and len(blk['succs']) == 2:
            for (c, sense) in U.edge_facts(fn, blk, i):
                if fn.is_this_member(c, FN) and sense:
                    return False
        return True
    w = _reaches_exit_avoiding_block(fn, fn.entry, cond_blk['id'], edge_ok)
    R.check(not w, rule, key + '#copy-unless-already-dense', fn.site,
            '%s can return without copying although %s is not set' % (fn.q, FN))


class _HelperLoop(object):
    """a helper whose body copies every element of the sparse member into the dense setter and does nothing else to it."""

    def __init__(self, fb, g, SN, setters):
        self.reason = 'no complete copy loop'
        lps = [lp for lp in U.element_loops(fb, g) if g.is_this_member(lp['cont'], SN)]
        if len(lps) != 1:
            return
        lp = lps[0]
        good = []
        for c in g.all_nodes():
            if c.get('k') == 'call' and c.get('u') in setters and len(c.get('args', [])) == 2 and g.in_range(c['id'], lp['loop']['b'], lp['loop']['e']):
                f0, f1 = U._field_path(g, c['args'][0]), U._field_path(g, c['args'][1])
                if f0 is not None and f1 is not None and f0[0] == lp['root'] and f1[0] == lp['root'] and len(f0[1]) == 1 and len(f1[1]) == 1 and f0[1] != f1[1]:
                    good.append(c['id'])
        if not good:
            return
        why = U.loop_complete(g, lp, set(good))
        # every normal path through the helper runs the loop; the helper does not modify the sparse member
        mods = [n for n in g.all_nodes() if n.get('k') == 'call' and n.get('recv') is not None and g.is_this_member(n['recv'], SN)
                and n.get('q', '').rsplit('::', 1)[-1] in ('clear', 'resize', 'erase', 'pop_back', 'assign', 'swap', 'operator=', 'push_back', 'emplace_back')]
        if why is None and not mods and not _reaches_exit_avoiding_block(g, g.entry, lp['cb']['id']):
            self.reason = None
        else:
            self.reason = why or 'the helper modifies the sparse member or can skip the loop'


def _already_dense_edge(fn, FN):
    def edge_ok(b, i, s):
        blk = fn.blocks[b]
        if 'cond' in blk and len(blk['succs']) == 2:
            for (c, sense) in U.edge_facts(fn, blk, i):
                if fn.is_this_member(c, FN) and sense:
                    return False
        return True
    return edge_ok


def _switch_rule_after_helper(fb, R, rule, fn, asg, SN, FN, call):
    key = fn.q
    R.ok(rule, key + '#every-sparse-entry-copied', fn.site, 'copy loop in helper %s' % call.get('q'))
    clears = [n for n in fn.all_nodes() if n.get('k') == 'call' and n.get('recv') is not None and fn.is_this_member(n['recv'], SN)
              and n.get('q', '').rsplit('::', 1)[-1] in ('clear', 'resize', 'erase', 'pop_back', 'assign', 'swap', 'operator=')]
    R.check(all(fn.elem_dominates(call['id'], c['id']) for c in clears), rule, key + '#sparse-cleared-after-copy', fn.site,
            '%s modifies %s before it is copied into the dense blocks' % (fn.q, SN))
    w = U.must_pass_after(fn, call['id'], [a['id'] for a in asg])
    R.check(w is None and all(fn.elem_dominates(call['id'], a['id']) for a in asg), rule, key + '#mode-flag-set-after-copy', fn.site,
            '%s must set %s after the copy on every path' % (fn.q, FN))
    R.ok(rule, key + '#copy-unless-already-dense', fn.site)


def _reaches_block(fn, start, target_block, barrier_ids):
    """is there a path from the start of block `start` to block target_block that avoids the barrier elements?"""
    seen = set()
    work = [start]
    while work:
        b = work.pop()
        if b in seen:
            continue
        seen.add(b)
        if b == target_block:
            return True
        if any(e in barrier_ids for e in fn.blocks[b]['elems']):
            continue
        work.extend(fn.succs(b))
    return False


def _reaches_exit_avoiding_block(fn, start, avoid_block, edge_ok=None):
    thr = U.throw_ids(fn)
    seen = set()
    work = [start]
    while work:
        b = work.pop()
        if b in seen or b == avoid_block:
            continue
        seen.add(b)
        if any(e in thr for e in fn.blocks[b]['elems']):
            continue
        if b == fn.exit:
            return True
        for i, s in enumerate(fn.blocks[b]['succs']):
            if s is None or (edge_ok is not None and not edge_ok(b, i, s)):
                continue
            work.append(s)
    return False


# ------------------------------------------------------------------------------------------------ (3) NodeLocationsForWays

def _storage_fields(fb, rec, classes):
    out = []
    for f in rec.fields:
        t = f['tC'].replace('&', '').strip()
        base = t.split('<', 1)[0]
        if f['tC'].rstrip().endswith('&') and (base in classes or base == MAP):
            out.append(f['name'])
    return out


def _route(fn, call, classes_field_names):
    """(storage field, relation of the id variable to 0 that guards the call, key shape) of a storage call."""
    rv = fn.root_var(call.get('recv'))
    if rv is None or rv[0] != 'field' or rv[2] not in classes_field_names or not call.get('args'):
        return None
    a = fn.nodes.get(U.strip_casts(fn, call['args'][0]))
    neg = False
    if a is not None and a.get('k') == 'unop' and a.get('op') == '-':
        neg = True
        a = fn.nodes.get(U.strip_casts(fn, a['sub']))
    if a is None or a.get('k') != 'var':
        return (rv[2], None, None)
    rel = None
    for (c, s, b, o) in U.guards(fn, call['id']):
        p = U.cmp_parts(fn, c)
        if p is None:
            continue
        op, l, r = p
        lv = U.scn(fn, l)
        if lv is not None and lv.get('k') == 'var' and lv.get('d') == a['d'] and fn.const_value(r) == 0:
            rel = op if s else U.NEG[op]
    return (rv[2], rel, '-id' if neg else 'id')


def nlfw_rules(fb, R, classes):
    recs = [r for r in fb.records_named(NLFW) if any(f.clsT == r.full for f in fb.functions if f.cls == NLFW)]
    if not recs:
        R.broken('no instantiation of %s' % NLFW)
        return
    for rec in recs:
        fns = [f for f in fb.functions if f.cls == NLFW and f.clsT == rec.full and f.has_cfg and not f.is_lambda]
        stor = _storage_fields(fb, rec, set(classes))
        if len(stor) != 2:
            R.broken('%s: expected two storage reference members, found %s' % (rec.full, stor))
            continue
        ways = [f for f in fns if f.name == 'way']
        nodes = [f for f in fns if f.name == 'node']
        lookups = [f for f in fns if f.name == 'get_node_location']
        if not ways or not nodes or not lookups:
            R.broken('%s: way / node / get_node_location not instantiated' % rec.full)
            continue
        flag = None
        units = {}      # way Fn id -> (unit Fn holding the flag test and the sorts, call node in way() or None)
        for fn in ways:
            cands = [(fn, None)]
            for c_ in fn.all_nodes():
                if c_.get('k') == 'call' and c_.get('rcls') == fn.cls and 'u' in c_ and not c_.get('args') and c_.get('recv') is not None \
                        and (fn.sn(c_['recv']) or {}).get('k') == 'this':
                    g = U._callee_for(fb, fn, c_)
                    if g is not None and g.has_cfg and g.id != fn.id:
                        cands.append((g, c_))
            for (u, call) in cands:
                for name in stor:
                    for nid in _role_ids(fb, u, _is_sort_of(name)):
                        for (c, s, b, o) in U.guards(u, nid):
                            m = u.sn(c)
                            if s and m is not None and m.get('k') == 'member' and m.get('field') and u.is_this_member(c) and m.get('t') == 'bool':
                                flag = m['name']
                                units.setdefault(fn.id, (u, call))
        if flag is None:
            reach = set()
            for fn in ways:
                reach |= fb.callees_closure(fn, depth=3)
            for fn in ways:
                if any(q.rsplit('::', 1)[-1] == 'sort' and q.startswith('osmium::index::map::') for q in reach):
                    R.broken('%s: the storages are sorted on a path from way() but not under a boolean member flag tested in way() (unknown shape)' % fn.q)
                else:
                    R.bad('N1-way-sorts-before-lookup', fn.q + '#sorts-both-storages-under-flag', fn.site,
                          'way() never sorts the storages (nodes that arrived out of order cannot be found by the sparse indexes)')
            continue
        lookup_q = {f.q for f in lookups}
        for fn in ways:
            u, call = units.get(fn.id, (fn, None))
            _nlfw_way(fb, R, fn, stor, flag, lookup_q, u, call)
        for fn in nodes:
            _nlfw_node(fb, R, fn, stor, flag)
        # flag is cleared nowhere else
        unit_ids = {u.id for (u, _c) in units.values()}
        for fn in fns:
            if fn.name == 'way' or fn.kind in ('ctor',) or fn.id in unit_ids:
                continue
            for n in fn.all_nodes():
                if n.get('k') == 'assign' and fn.is_this_member(n['lhs'], flag) and fn.const_value(n['rhs']) != 1:
                    after = all(any(fn.elem_dominates(x, n['id']) for x in _role_ids(fb, fn, _is_sort_of(name), 0)) for name in stor)
                    R.check(after, 'N2-flag-cleared-only-after-sort', '%s#%s' % (fn.q, flag), fn.loc(n['id']),
                            '%s clears %s without sorting the storages' % (fn.q, flag))
        # sign routing agreement
        for nf in nodes:
            for lf in lookups:
                rn = sorted({_route(nf, c, stor) for c in nf.all_nodes() if c.get('k') == 'call' and c.get('q', '').rsplit('::', 1)[-1] == 'set'
                             and _route(nf, c, stor) is not None}, key=str)
                rl = sorted({_route(lf, c, stor) for c in lf.all_nodes() if c.get('k') == 'call'
                             and c.get('q', '').rsplit('::', 1)[-1] in ('get', 'get_noexcept') and _route(lf, c, stor) is not None}, key=str)
                ok = len(rn) == 2 and rn == rl and {r[0] for r in rn} == set(stor) and all(r[1] is not None for r in rn) \
                    and {r[2] for r in rn} == {'id', '-id'}
                R.check(ok, 'N4-sign-routing-agrees', NLFW + '#node-vs-get_node_location', nf.site,
                        'node() stores under %s but get_node_location() looks up under %s (storage member, sign test, key must agree and cover both storages)' % (rn, rl),
                        str(rn))


def _is_sort_of(name):
    def pred(f, n):
        if n.get('k') == 'call' and n.get('q', '').rsplit('::', 1)[-1] == 'sort' and n.get('recv') is not None:
            rv = f.root_var(n['recv'])
            return rv is not None and rv[0] == 'field' and rv[2] == name
        return False
    return pred


def _role_ids(fb, fn, pred, depth=1):
    """ids of nodes of fn that play a role: pred(fn, node) holds, or the node calls (on this) a method of the same class whose
    body performs the role on every normal path (statements extracted into a helper)."""
    ids = [n['id'] for n in fn.all_nodes() if pred(fn, n)]
    if depth > 0:
        for n in fn.all_nodes():
            if n.get('k') == 'call' and 'u' in n and n.get('rcls') == fn.cls and n.get('recv') is not None \
                    and (fn.sn(n['recv']) or {}).get('k') == 'this':
                g = U._callee_for(fb, fn, n)
                if g is None or not g.has_cfg or g.id == fn.id:
                    continue
                inner = _role_ids(fb, g, pred, depth - 1)
                if inner and U.must_pass(g, g.entry, inner) is None:
                    ids.append(n['id'])
    return ids


def _role_before(fb, fn, pred_a, pred_b):
    """every node playing role b is preceded by one playing role a (a helper playing both is looked into)."""
    a_ids, b_ids = _role_ids(fb, fn, pred_a), _role_ids(fb, fn, pred_b)
    if not a_ids or not b_ids:
        return False
    for b in b_ids:
        if any(a != b and fn.elem_dominates(a, b) for a in a_ids):
            continue
        if b in a_ids and not pred_b(fn, fn.nodes[b]):
            g = U._callee_for(fb, fn, fn.nodes[b])
            if g is not None and _role_before(fb, g, pred_a, pred_b):
                continue
        return False
    return True


def _nlfw_way(fb, R, fn, stor, flag, lookup_q, u=None, ucall=None):
    """u: the function that holds the flag test and the sorts -- way() itself, or an argument-less helper of the class that way()
    calls at `ucall` (the "sort if needed" prefix extracted).  Keys stay those of way(): that is where the oracle requires the order."""
    r1, r2 = 'N1-way-sorts-before-lookup', 'N2-flag-cleared-only-after-sort'
    u = u or fn
    sorts = {name: _role_ids(fb, u, _is_sort_of(name)) for name in stor}
    ok = all(sorts[name] for name in stor)
    R.check(ok, r1, fn.q + '#sorts-both-storages-under-flag', fn.site,
            'way() sorts %s but the handler stores into %s' % (sorted(k for k, v in sorts.items() if v), stor))

    reach_memo = {}

    def direct_lookup(f, n):
        return n.get('k') == 'call' and (n.get('q') in lookup_q or (n.get('q', '').rsplit('::', 1)[-1] in ('get', 'get_noexcept')
                                                                     and (f.root_var(n.get('recv')) or (None, None, None))[2] in stor))

    def reaches_lookup(g, depth=0):
        if g.usr not in reach_memo:
            reach_memo[g.usr] = False
            r_ = any(direct_lookup(g, m_) for m_ in g.all_nodes())
            if not r_ and depth < 2:
                for m_ in g.all_nodes():
                    if m_.get('k') == 'call' and m_.get('rcls') == fn.cls and 'u' in m_:
                        h_ = U._callee_for(fb, g, m_)
                        if h_ is not None and h_.has_cfg and h_.id != g.id and reaches_lookup(h_, depth + 1):
                            r_ = True
            reach_memo[g.usr] = r_
        return reach_memo[g.usr]

    def is_lookup(f, n):
        """a lookup in one of the storages: directly, through get_node_location(), or through a helper of the class that performs lookups"""
        if direct_lookup(f, n):
            return True
        if n.get('k') == 'call' and n.get('rcls') == fn.cls and 'u' in n and (ucall is None or n['id'] != ucall['id']):
            g_ = U._callee_for(fb, f, n)
            return g_ is not None and g_.has_cfg and g_.id != f.id and g_.id != u.id and reaches_lookup(g_)
        return False
    looks = [n for n in fn.all_nodes() if is_lookup(fn, n)]
    if not looks:
        R.bad(r1, fn.q + '#sort-precedes-every-lookup', fn.site, 'way() performs no lookup')

    def flag_edges(f):
        def edge_ok(b, i, s):
            blk = f.blocks[b]
            if 'cond' in blk and len(blk['succs']) == 2:
                for (c, sense) in U.edge_facts(f, blk, i):
                    if f.is_this_member(c, flag) and not sense:
                        return False   # flag not set: nothing to sort
            return True
        return edge_ok
    for name in stor:
        ids = set(sorts[name])
        if u is fn:
            for L in looks:
                w = path_search(fn, fn.entry, lambda e: e == L['id'], lambda e: e in ids, flag_edges(fn), from_block_start=True)
                R.check(w is None and bool(ids), r1, fn.q + '#sort-precedes-every-lookup', fn.loc(L['id']),
                        'with %s set a lookup is reached before %s.sort(): %s' % (flag, name, describe_path(fn, w)))
        else:
            # the helper sorts on every path on which the flag is set, performs no lookup before that, and its call precedes every lookup
            w = path_search(u, u.entry, lambda e: U.is_exit(e) or (not isinstance(e, tuple) and is_lookup(u, u.nodes[e])),
                            lambda e: e in ids or e in U.throw_ids(u), flag_edges(u), from_block_start=True)
            R.check(w is None and bool(ids), r1, fn.q + '#sort-precedes-every-lookup', u.site,
                    'with %s set %s can return (or look up) before %s.sort(): %s' % (flag, u.q, name, describe_path(u, w)))
            for L in looks:
                w = path_search(fn, fn.entry, lambda e: e == L['id'], lambda e: e == ucall['id'], from_block_start=True)
                R.check(w is None, r1, fn.q + '#sort-precedes-every-lookup', fn.loc(L['id']),
                        'a lookup in way() is reached without passing %s(): %s' % (u.name, describe_path(fn, w)))
    is_clear = lambda f, n: n.get('k') == 'assign' and f.is_this_member(n['lhs'], flag) and f.const_value(n['rhs']) == 0
    ok = all(_role_before(fb, u, _is_sort_of(name), is_clear) for name in stor)
    R.check(ok, r2, '%s#%s' % (fn.q, flag), fn.site, 'way() must clear %s only after both storages were sorted (and must clear it, or every way re-sorts)' % flag)
    if u is not fn:
        for n in fn.all_nodes():
            if is_clear(fn, n):
                R.bad(r2, '%s#%s' % (fn.q, flag), fn.loc(n['id']), 'way() clears %s outside %s()' % (flag, u.name))

    # sentinel reset: after the sorts the last-id member is set to the maximum of its type, on every path that clears the flag
    def is_reset(f, n):
        # the stored value must be the maximum of the member's own type: only then does EVERY following key count as a descent
        if n.get('k') == 'assign' and n.get('op') == '=' and f.is_this_member(n['lhs']) and not f.is_this_member(n['lhs'], flag):
            lt = int_type((f.sn(n['lhs']) or {}).get('t'))
            if lt is None:
                return False
            tmax = (1 << (lt[1] - (1 if lt[0] else 0))) - 1
            v = f.const_value(n['rhs'])
            if v is not None:
                return v == tmax
            x = U.scn(f, n['rhs'])
            xt = int_type(x.get('t')) if x is not None else None
            return x is not None and x.get('k') == 'call' and x.get('q') == 'std::numeric_limits::max' and not x.get('args') and xt == lt
        return False
    resets = _role_ids(fb, u, is_reset)
    clears = _role_ids(fb, u, is_clear)
    ok = bool(resets) and all(_role_before(fb, u, _is_sort_of(name), is_reset) for name in stor)
    for c in clears:
        if c in resets:
            continue
        ok = ok and (any(u.elem_dominates(r, c) for r in resets) or U.must_pass_after(u, c, resets) is None)
    R.check(ok, 'N3-last-id-sentinel-reset', fn.q + '#last-id-reset-to-max-after-sort', fn.site,
            'after sorting, way() must set the last-seen id to the maximum so that the next node() requests a new sort '
            '(a node appended to the sorted storage with an id between the last and the largest stored id would not be found)')
    # missing location -> not_found unless errors are ignored
    VALID = {'osmium::Location::(conv)', 'osmium::Location::valid', 'osmium::Location::is_defined'}

    def status_of(f, d):
        """local bool d records "some location is missing": initialised with a constant, and stored the opposite constant only under a
        failed validity test of a location -> the value (0 / 1) that means "missing", else None"""
        init = U.local_init(f, d)
        v0 = f.const_value(init) if init is not None else None
        sets = [n for n in f.all_nodes() if n.get('k') == 'assign' and (U.scn(f, n['lhs']) or {}).get('k') == 'var' and U.scn(f, n['lhs']).get('d') == d]
        if v0 not in (0, 1) or not sets:
            return None
        for s_ in sets:
            if f.const_value(s_['rhs']) != 1 - v0:
                return None
            good = False
            for (c, sn_, b_, o_) in U.guards(f, s_['id']):
                callees = {f.nodes[x].get('q') for x in f.subtree(c) if f.nodes[x].get('k') == 'call'}
                if not sn_ and callees & VALID:
                    good = True
            if not good:
                return None
        return 1 - v0

    def missing_sense(f, c, depth=0):
        """condition c (an atom of the throw guard) is a status: -> the truth value of c that means "a location is missing", else None"""
        x = U.scn(f, c)
        if x is None:
            return None
        if x.get('k') == 'var' and x.get('vk') == 'local':
            m_ = status_of(f, x['d'])
            if m_ is not None:
                return bool(m_)
            init = U.local_init(f, x['d'])
            if init is not None and x['d'] not in U.assigned_vars(f) and depth < 2:
                return missing_sense(f, init, depth + 1)
            return None
        if x.get('k') == 'call' and x.get('rcls') == fn.cls and 'u' in x and depth < 2:
            g_ = U._callee_for(fb, f, x)
            if g_ is None or not g_.has_cfg:
                return None
            outs = set()
            for r_ in [m for m in g_.all_nodes() if m.get('k') == 'return' and 'sub' in m]:
                outs.add(missing_sense(g_, r_['sub'], depth + 1))
            return outs.pop() if len(outs) == 1 else None
        return None
    throws = [n for n in fn.all_nodes() if n.get('k') == 'throw']
    ok = bool(throws) and all(t.get('tt') == NOT_FOUND for t in throws)
    if ok:
        for t in throws:
            hit = False
            for (c, s, b, o) in U.guards(fn, t['id']):
                ms = missing_sense(fn, c)
                if ms is not None and ms == s:
                    hit = True
            ok = ok and hit
    R.check(ok, 'N5-missing-location-throws', fn.q + '#not_found-unless-ignored', fn.site,
            'way() must record a missing (invalid) location and throw osmium::not_found unless errors are ignored')


def _nlfw_node(fb, R, fn, stor, flag):
    rule = 'N2-flag-set-on-descent'
    sets = [n for n in fn.all_nodes() if n.get('k') == 'assign' and fn.is_this_member(n['lhs'], flag) and fn.const_value(n['rhs']) == 1]
    # the tracked key: `last = K` on every path
    tracked = None
    for n in fn.all_nodes():
        if n.get('k') == 'assign' and n.get('op') == '=' and fn.is_this_member(n['lhs']) and not fn.is_this_member(n['lhs'], flag):
            tracked = (n, fn.sn(n['lhs'])['name'], U.ctext(fb, fn, n['rhs']))
    ok = tracked is not None and U.must_pass(fn, fn.entry, [tracked[0]['id']]) is None
    R.check(ok, 'N2-last-id-tracked', fn.q + '#last-id-assigned-on-every-path', fn.site,
            'node() must remember the key of every node it stores (the descent test compares with it)')
    if not ok:
        R.bad(rule, fn.q + '#' + flag, fn.site, 'node(): no tracked last id, the descent test cannot be decided')
        return
    last_name, key_text = tracked[1], tracked[2]
    # descent test: K < last (or last > K), same K
    desc = []
    for b in U.cond_blocks(fn):
        for i in (0, 1):
            for (c, sense) in U.edge_facts(fn, b, i):
                p = U.cmp_parts(fn, c)
                if p is None:
                    continue
                op, l, r = p
                if not sense:
                    op = U.NEG[op]
                for a, bb, o in ((l, r, op), (r, l, U.FLIP[op])):
                    if U.ctext(fb, fn, a) == key_text and fn.is_this_member(bb, last_name) and o in ('<', '<='):
                        desc.append((b['id'], i))
    ok = bool(sets) and bool(desc)
    w = None
    if ok:
        ids = {s['id'] for s in sets}
        dset = set(desc)
        # on the descent edge every path reaches the flag store before the exit and before the last id is overwritten
        for (b, i) in desc:
            s = fn.blocks[b]['succs'][i]
            w = w or U.must_pass(fn, s, ids)
        # the comparison happens before the tracked key is overwritten
        ok = w is None and all(not fn.elem_dominates(tracked[0]['id'], fn.blocks[b]['cond']) for (b, i) in desc)
        # and it is evaluated on every path
        ok = ok and not _reaches_exit_avoiding_blocks(fn, {b for (b, i) in desc})
    R.check(ok, rule, fn.q + '#' + flag, fn.site,
            'node() must set %s on every path on which the stored key is smaller than the previous one (%s < %s): %s'
            % (flag, key_text, last_name, describe_path(fn, w)))


def _reaches_exit_avoiding_blocks(fn, blocks):
    seen = set()
    work = [fn.entry]
    while work:
        b = work.pop()
        if b in seen or b in blocks:
            continue
        seen.add(b)
        if b == fn.exit:
            return True
        work.extend(fn.succs(b))
    return False


# ------------------------------------------------------------------------------------------------ (+) mmap_vector

def _minus_data(fb, fn, nid):
    """`data() + X` -> text of X ; `data()` -> '0' ; else None"""
    n = U.scn(fn, nid)
    if n is None:
        return None
    if n.get('k') == 'call' and n.get('q', '').endswith('::data') and not n.get('args'):
        return '0'
    if n.get('k') == 'binop' and n.get('op') == '+':
        for a, b in ((n['lhs'], n['rhs']), (n['rhs'], n['lhs'])):
            x = U.scn(fn, a)
            if x is not None and x.get('k') == 'call' and x.get('q', '').endswith('::data') and not x.get('args'):
                return U.ctext(fb, fn, b)
    return None


def _fills(fb, fn):
    """[(call, from text, to text)] of std::fill / std::fill_n over data() with empty_value<T>()."""
    out = []
    for n in fn.all_nodes():
        if n.get('k') != 'call' or n.get('q') not in ('std::fill', 'std::fill_n'):
            continue
        a = n.get('args', [])
        if len(a) != 3:
            continue
        v = U.scn(fn, a[2])
        if v is None or v.get('q') != 'osmium::index::empty_value':
            continue
        frm = _minus_data(fb, fn, a[0])
        if frm is None:
            continue
        if n['q'] == 'std::fill':
            to = _minus_data(fb, fn, a[1])
        else:
            to = U.ctext(fb, fn, a[1]) if frm == '0' else None
        if to is not None:
            out.append((n, frm, to))
    return out


def mmap_vector_rules(fb, R):
    r1, r2 = 'V1-mmap-vector-growth-filled-empty', 'V2-mmap-vector-size-within-capacity'
    fns = [f for f in fb.functions if f.cls == MMV and f.has_cfg and not f.is_lambda]
    if not fns:
        R.broken('no instantiation of %s' % MMV)
        return
    rec = next((r for r in fb.records_named(MMV) if r.fields), None)
    size_f = next((f['name'] for f in rec.fields if f['tC'] in ('unsigned long', 'std::size_t')), None) if rec else None
    map_f = next((f['name'] for f in rec.fields if 'TypedMemoryMapping' in f['tC']), None) if rec else None
    if size_f is None or map_f is None:
        R.broken('%s: size / mapping members not identified by type' % MMV)
        return
    for fn in fns:
        grows = []   # (site node, old extent text, new extent text)
        if fn.kind == 'ctor':
            minit = next((n for n in fn.all_nodes() if n.get('k') == 'init' and n.get('name') == map_f and isinstance(n.get('init'), int)), None)
            if minit is None:
                continue
            c = U.scn(fn, minit['init'])
            cap = U.ctext(fb, fn, c['args'][0]) if c is not None and c.get('k') == 'construct' and c.get('args') else None
            sinit = next((n for n in fn.all_nodes() if n.get('k') == 'init' and n.get('name') == size_f and isinstance(n.get('init'), int)), None)
            old = U.ctext(fb, fn, sinit['init']) if sinit is not None else '0'
            if cap is None:
                if c is not None and c.get('copymove'):
                    continue
                R.broken('%s: capacity of the initial mapping not recognised' % fn.q)
                continue
            grows.append((minit, old, cap, 'ctor(%d)' % len(fn.params)))
        for n in fn.all_nodes():
            if n.get('k') == 'call' and n.get('q', '').endswith('::resize') and n.get('recv') is not None and fn.is_this_member(n['recv'], map_f) and n.get('args'):
                newc = U.ctext(fb, fn, n['args'][0])
                # old extent: a local initialised from capacity() before the resize
                olds = []
                for m in fn.all_nodes():
                    if m.get('k') == 'decl':
                        for v in m['vars']:
                            if isinstance(v.get('init'), int) and U.ctext(fb, fn, v['init']) == '%s.size()' % map_f and fn.elem_dominates(m['id'], n['id']) \
                                    and v['d'] not in U.assigned_vars(fn):
                                olds.append(v['name'])
                grows.append((n, olds, newc, 'resize'))
        for (site, old, new, what) in grows:
            key = '%s#%s-fills-new-slots' % (fn.q, what)
            fills = _fills(fb, fn)
            good = [f for (f, frm, to) in fills if to == new and (frm == old or (isinstance(old, list) and frm in old))]
            ok = bool(good)
            w = None
            if ok:
                w = U.must_pass_after(fn, site['id'], [g['id'] for g in good])
                ok = w is None
            R.check(ok, r1, key, fn.loc(site['id']),
                    '%s maps %s elements but does not fill [%s, %s) with empty_value<T>() on every path (unset dense slots would read as '
                    'arbitrary locations instead of "not found"): fills found %s' % (fn.q, new, old, new, [(a, b) for (_f, a, b) in fills]))
    # V2
    cap_text = '%s.size()' % map_f
    for fn in [f for f in fns if f.name == 'resize']:
        asg = [n for n in fn.all_nodes() if n.get('k') == 'assign' and fn.is_this_member(n['lhs'], size_f)]
        for a in asg:
            new = U.ctext(fb, fn, a['rhs'])
            elems, edges = _capacity_evidence(fb, fn, new, cap_text, True)
            w = path_search(fn, fn.entry, lambda e: e == a['id'], lambda e: e in elems, lambda b, i, s: (b, i) not in edges, from_block_start=True)
            R.check(w is None, r2, '%s#size-assigned-within-capacity' % fn.q, fn.loc(a['id']),
                    '%s sets %s = %s without `%s <= capacity()` evidence (test or reserve(%s + c)): %s' % (fn.q, size_f, new, new, new, describe_path(fn, w)))
    for fn in [f for f in fns if f.name == 'reserve']:
        p = fn.params[0]['name'] if fn.params else '?'
        elems, edges = _capacity_evidence(fb, fn, p, cap_text, False, map_f)
        w = U.must_pass(fn, fn.entry, elems, lambda b, i, s: (b, i) not in edges)
        R.check(w is None and bool(elems), r2, '%s#capacity-reaches-request' % fn.q, fn.site,
                '%s can return with capacity() < %s: %s' % (fn.q, p, describe_path(fn, w)))
    for fn in [f for f in fns if f.name == 'push_back']:
        def old_size(nid, use):
            """expression denotes the size before the resize: the size member itself (read before `use`), or a local that was
            initialised from it before the resize (the VALUE of an index may be saved early; a pointer may not)"""
            x = U.scn(fn, nid)
            if x is None:
                return None
            if fn.is_this_member(nid, size_f):
                return ('member',)
            if x.get('k') == 'var' and x.get('vk') == 'local' and x['d'] not in U.assigned_vars(fn):
                init = U.local_init(fn, x['d'])
                decl = next((m_ for m_ in fn.all_nodes() if m_.get('k') == 'decl' and any(v_['d'] == x['d'] for v_ in m_['vars'])), None)
                if init is not None and decl is not None and fn.is_this_member(init, size_f):
                    return ('local', x['d'], decl['id'])
            return None
        rs = []
        for n in fn.all_nodes():
            if n.get('k') == 'call' and n.get('q') == MMV + '::resize' and n.get('args'):
                a_ = U.scn(fn, n['args'][0])
                if a_ is not None and a_.get('k') == 'binop' and a_.get('op') == '+':
                    for x_, y_ in ((a_['lhs'], a_['rhs']), (a_['rhs'], a_['lhs'])):
                        os_ = old_size(x_, n['id'])
                        if os_ is not None and fn.const_value(y_) == 1 and (os_[0] == 'member' or fn.elem_dominates(os_[2], n['id'])):
                            rs.append((n, os_))
        idxs = [n for n in fn.all_nodes() if n.get('k') == 'index']
        ok = len(rs) == 1 and len(idxs) == 1
        why = 'expected one resize(size + 1) and one write through data()[...]'
        if ok:
            R_, os_ = rs[0]
            I = idxs[0]
            base = U.scn(fn, I['base'])
            # the storage pointer is obtained after the resize (the mapping may have moved)
            ok = base is not None and base.get('k') == 'call' and base.get('q', '').rsplit('::', 1)[-1] in ('data', 'begin') \
                and not base.get('args') and fn.elem_dominates(R_['id'], base['id'])
            why = 'the element is written through a pointer that was not re-read from data() after the resize'
            if ok:
                ix = U.scn(fn, I['idx'])
                new_minus_one = ix is not None and ix.get('k') == 'binop' and ix.get('op') == '-' and fn.is_this_member(ix['lhs'], size_f) \
                    and fn.const_value(ix['rhs']) == 1 and fn.elem_dominates(R_['id'], ix['id'])
                saved = old_size(I['idx'], I['id'])
                saved_old = saved is not None and saved[0] == 'local' and fn.elem_dominates(saved[2], R_['id'])
                ok = new_minus_one or saved_old
                why = 'the written slot is neither the new size - 1 nor the size saved before the resize'
        R.check(ok, r2, '%s#writes-last-slot-after-resize' % fn.q, fn.site,
                '%s must resize(%s + 1) and then write the slot with the old size as index through data() re-read after the resize: %s' % (fn.q, size_f, why))


def _capacity_evidence(fb, fn, val_text, cap_text, via_reserve, map_f=None):
    """evidence for val <= capacity(): edge `val > capacity()` false / `val <= capacity()` true; reserve(val + c) call
    (via_reserve) or m_mapping.resize(val) (inside reserve)."""
    elems, edges = set(), set()
    for b in U.cond_blocks(fn):
        for i in (0, 1):
            for (c, sense) in U.edge_facts(fn, b, i):
                p = U.cmp_parts(fn, c)
                if p is None:
                    continue
                op, l, r = p
                if not sense:
                    op = U.NEG[op]
                for a, bb, o in ((l, r, op), (r, l, U.FLIP[op])):
                    if U.ctext(fb, fn, a) == val_text and o in ('<=', '<') \
                            and (U.ctext(fb, fn, bb) == cap_text or U.state_text(fb, fn, bb, c) == cap_text):
                        edges.add((b['id'], i))
    for n in fn.all_nodes():
        if n.get('k') != 'call' or not n.get('args'):
            continue
        a = U.scn(fn, n['args'][0])
        if via_reserve and n.get('q') == MMV + '::reserve':
            ok = U.ctext(fb, fn, n['args'][0]) == val_text
            if a is not None and a.get('k') == 'binop' and a.get('op') == '+':
                for x, y in ((a['lhs'], a['rhs']), (a['rhs'], a['lhs'])):
                    v = fn.const_value(y)
                    if U.ctext(fb, fn, x) == val_text and v is not None and 0 <= v < 2 ** 40:
                        ok = True
            if ok:
                elems.add(n['id'])
        if not via_reserve and n.get('q', '').endswith('::resize') and n.get('recv') is not None and fn.is_this_member(n['recv'], map_f) \
                and U.ctext(fb, fn, n['args'][0]) == val_text:
            elems.add(n['id'])
    return elems, edges


# ------------------------------------------------------------------------------------------------ (+) dumps

def dump_rules(fb, R, classes):
    rule = 'D1-dump-writes-whole-vector'
    for cls in classes:
        for fn in _methods(fb, cls):
            if fn.name not in ('dump_as_list', 'dump_as_array'):
                continue
            for c in fn.calls('osmium::io::detail::reliable_write'):
                a = c.get('args', [])
                if len(a) != 3:
                    continue
                p = U.scn(fn, a[1])
                if p is None or p.get('k') != 'call' or not p.get('q', '').endswith('::data') or p.get('recv') is None:
                    continue    # windowed dump through a scratch buffer: not decided
                cont = U.ctext(fb, fn, p['recv'])
                et = U._plain(p.get('t', ''))     # pointee of C.data()
                ln = a[2]
                x = U.scn(fn, ln)
                if x is not None and x.get('k') == 'call':
                    gb = U.getter_body(fb, fn, x)
                    if gb is not None:
                        g, root = gb
                        ok = _is_size_times_sizeof(fb, g, root, cont, et)
                    else:
                        ok = False
                else:
                    ok = _is_size_times_sizeof(fb, fn, ln, cont, et)
                R.check(ok, rule, '%s#length-is-size-times-element' % fn.q, fn.loc(c['id']),
                        '%s writes %s.data() with a length that is not %s.size() * sizeof(%s)' % (fn.q, cont, cont, et))


def _is_size_times_sizeof(fb, fn, nid, cont, et):
    n = U.scn(fn, nid)
    if n is None or n.get('k') != 'binop' or n.get('op') != '*':
        return False
    for a, b in ((n['lhs'], n['rhs']), (n['rhs'], n['lhs'])):
        s = U.scn(fn, b)
        if s is not None and s.get('k') == 'sizeof' and U._plain(s.get('of', s.get('ofexpr_t', ''))) == et \
                and U.ctext(fb, fn, a) in ('%s.size()' % cont,):
            return True
    return False


# ------------------------------------------------------------------------------------------------ (5) registration

def _snake(name):
    return re.sub(r'(?<!^)(?=[A-Z])', '_', name).lower()


def registration_rules(fbx, R):
    rule = 'T1-registration-table'
    rows = []
    for f in fbx.functions:
        if not f.q.startswith('verif_c12_reg::row_'):
            continue
        for n in f.all_nodes():
            if n.get('k') == 'call' and n.get('q') == 'osmium::index::register_map':
                g = fbx.by_usr.get(n.get('u'), [])
                strs = [f.nodes[x]['str'] for x in f.subtree(n['id']) if 'str' in f.nodes[x]]
                if len(g) >= 1 and len(g[0].targs) == 3 and len(strs) == 1:
                    rows.append((f.file, f.line, strs[0], g[0].targs[2], g[0]))
                else:
                    R.broken('registration row of unknown shape at %s' % f.site)
    if not rows:
        R.broken('no REGISTER_MAP rows found (drivers/c12_extra.cpp)')
        return
    tables = {}
    for (file, line, name, klass, g) in rows:
        t = 'central' if file.endswith('node_locations_map.hpp') else 'header'
        tables.setdefault(t, []).append((file, line, name, klass, g))
    if set(tables) != {'central', 'header'}:
        R.broken('expected registration rows from the map headers and from node_locations_map.hpp, found %s' % sorted(tables))
    by_name = {}
    for t, rs in tables.items():
        seen = {}
        for (file, line, name, klass, g) in rs:
            site = '%s:%d' % (file, line)
            R.check(name not in seen, rule, 'REGISTER_MAP(%s)@%s#name-unique' % (klass.rsplit('::', 1)[-1], t), site,
                    'map type name "%s" is registered twice in the %s table (%s and %s): MapFactory::register_map keeps the first only'
                    % (name, t, seen.get(name), klass))
            seen.setdefault(name, klass)
            R.check(_snake(klass.rsplit('::', 1)[-1]) == name, rule, 'REGISTER_MAP(%s)@%s#name-denotes-class' % (klass.rsplit('::', 1)[-1], t), site,
                    'class %s is registered under the name "%s" (convention: snake_case of the class, "%s")' % (klass, name, _snake(klass.rsplit('::', 1)[-1])))
            by_name.setdefault(name, {})[t] = (klass, site)
    for name, d in sorted(by_name.items()):
        ks = {v[0] for v in d.values()}
        R.check(len(d) == 2 and len(ks) == 1, rule, 'REGISTER_MAP("%s")#tables-agree' % name, sorted(v[1] for v in d.values())[0],
                'map type "%s": the map header and node_locations_map.hpp disagree (%s) -- the map created depends on the include order' % (name, d))
    # register_map<.., K> forwards K and the name
    seen = set()
    for (file, line, name, klass, g) in rows:
        if g.full in seen and klass in seen:
            continue
        seen.add(klass)
        key = 'osmium::index::register_map<%s>#forwards-class-and-name' % klass.rsplit('::', 1)[-1]
        lams = fbx.lambdas_in(g)
        ok = len(lams) == 1
        if ok:
            cm = [n for n in lams[0].all_nodes() if n.get('k') == 'call' and n.get('q') == 'osmium::index::map::create_map::operator()']
            ok = len(cm) == 1
            if ok:
                tg = fbx.by_usr.get(cm[0].get('u'), [])
                ok = bool(tg) and len(tg[0].cls_targs) == 3 and tg[0].cls_targs[2] == klass
                rets = _returns(lams[0])
                ok = ok and len(rets) == 1 and U.strip_casts(lams[0], rets[0]['sub']) == cm[0]['id']
            reg = [n for n in g.all_nodes() if n.get('k') == 'call' and n.get('q') == 'osmium::index::MapFactory::register_map']
            ok = ok and len(reg) == 1 and reg[0].get('args') and g.params and U.ctext(fbx, g, reg[0]['args'][0]) == g.params[0]['name'] \
                and any(g.nodes[x].get('k') == 'lambda' for x in g.subtree(reg[0]['id']))
        R.check(ok, rule, key, g.site, 'register_map<%s> must register, under its name argument, a callback that returns create_map<..., %s>()(config)' % (klass, klass))


def factory_rules(fb, R):
    rule = 'T1-registration-table'
    fns = fb.fns('osmium::index::MapFactory::create_map')
    if not fns:
        R.broken('MapFactory::create_map not instantiated')
    for fn in fns:
        finds = [n for n in fn.all_nodes() if n.get('k') == 'call' and n.get('q') == 'std::map::find']
        inv = [n for n in fn.all_nodes() if n.get('k') == 'call' and n.get('op') == '()' and n.get('rcls', '').startswith('std::function')]
        throws = [n for n in fn.all_nodes() if n.get('k') == 'throw']
        ok = len(finds) == 1 and len(inv) == 1 and bool(throws) and all(t.get('tt') == 'osmium::map_factory_error' for t in throws)
        if ok:
            a = U.scn(fn, finds[0]['args'][0])
            ok = a is not None and a.get('k') == 'call' and a.get('op') == '[]' and fn.const_value(a['args'][0] if a.get('recv') is not None else a['args'][1]) == 0
            d = None
            for n in fn.all_nodes():
                if n.get('k') == 'decl':
                    for v in n['vars']:
                        if isinstance(v.get('init'), int) and finds[0]['id'] in fn.subtree(v['init']):
                            d = v['d']
            fp = U._field_path(fn, inv[0].get('recv'))
            ok = ok and d is not None and fp is not None and fp[0] == ('var', d) and fp[1] == ('second',)
            good = False
            for (c, s, b, o) in U.guards(fn, inv[0]['id']):
                op = U.end_test(fb, fn, c, d, U.ctext(fb, fn, finds[0]['recv']))
                if op is not None and ((op == '!=' and s) or (op == '==' and not s)):
                    good = True
            ok = ok and good
            rets = [r for r in _returns(fn) if inv[0]['id'] in fn.subtree(r['sub'])]
            ok = ok and bool(rets)
        R.check(ok, rule, fn.q + '#looks-up-config0-and-invokes', fn.site,
                'MapFactory::create_map must look the first config token up in the callback table, return the result of that callback '
                'and throw map_factory_error otherwise')
    for fn in fb.fns('osmium::index::MapFactory::register_map'):
        ins = [n for n in fn.all_nodes() if n.get('k') == 'call' and n.get('q', '').startswith('std::map::') and n['q'].rsplit('::', 1)[-1] in ('emplace', 'insert', 'operator[]', 'try_emplace')]
        ok = len(ins) == 1 and len(fn.params) == 2
        if ok:
            txt = [U.ctext(fb, fn, a) for a in ins[0].get('args', [])]
            ok = fn.params[0]['name'] in txt and any(fn.params[1]['name'] in t for t in txt)
        R.check(ok, rule, fn.q + '#stores-name-and-callback', fn.site, 'MapFactory::register_map must store (name, callback) in the callback table')


# ------------------------------------------------------------------------------------------------ (6) ERRDISC

ERR_WANT = {'mmap', 'mmap64', 'mremap', 'munmap', 'fstat', 'fstat64', 'ftruncate', 'ftruncate64', 'open', 'open64', 'tmpfile', 'dup'}
ERR_ADVISORY = {'fstatvfs': 'free-space probe: documented to return 0 ("cannot be determined") on failure, the caller then skips the pre-check',
                'sysconf': '_SC_PAGESIZE cannot fail',
                'fclose': 'create_tmp_file closes the FILE* of an empty tmpfile after dup(); nothing buffered can be lost (C08 owns write-side fclose)',
                'write': 'C08 (reliable_write)', 'pwrite': 'C08'}


def errdisc_rules(fb, R, classes):
    rule = 'E1-mmap-oserror-reaches-throw'
    roots = [f for f in fb.functions if f.cls in classes or (f.cls or '').startswith(('osmium::detail::mmap_vector', 'osmium::MemoryMapping', 'osmium::TypedMemoryMapping', 'osmium::AnonymousMemoryMapping'))
             or f.q.startswith(('osmium::index::detail::create_map', 'osmium::index::map::create_map', 'osmium::index::MapFactory'))]
    fns = E.closure_fns(fb, roots)
    layer = lambda fn: any(s in fn.file for s in ('/osmium/index/', '/osmium/util/memory_mapping.hpp', '/osmium/util/file.hpp'))
    for fn, call, cls, payload in E.sites(fb, fns):
        if cls == 'unknown' and layer(fn):
            R.broken('ERRDISC: extern "C" function %s called in %s has no entry in the convention table' % (call['q'], fn.q))
        if cls == 'check' and call['q'] not in ERR_WANT and call['q'] not in ERR_ADVISORY and layer(fn):
            R.broken('ERRDISC: %s called in %s is neither checked by C12 nor whitelisted' % (call['q'], fn.q))
    views = [U.inlined_getter_view(fb, f) for f in fns if f.has_cfg]
    E.run_sites(R, fb, views, rule, rule, want=lambda name: name in ERR_WANT, io_layer=lambda fn: False)
    for k, v in ERR_ADVISORY.items():
        R.note('ERRDISC whitelist: %s -- %s' % (k, v))


# ------------------------------------------------------------------------------------------------ file-backed indexes

# Linux <fcntl.h> (asm-generic): the repository's build target
O_ACCMODE, O_RDWR, O_CREAT, O_EXCL, O_TRUNC = 3, 2, 0o100, 0o200, 0o1000


def file_backed_rules(fb, R):
    """O1: the open() whose descriptor is handed to a file-backed map constructor keeps an existing index file;
       M1: a file-backed mapping is (re)mapped only after the file was grown to the size that is being mapped."""
    r1, r2 = 'O1-index-file-open-keeps-contents', 'M1-file-grown-before-mapping'
    n1 = 0

    def opens_behind(f, nid, depth=0):
        """open() calls whose result is the value of expression nid: directly, through a local, or returned by a helper -> [(Fn, call)]"""
        x = U.scn(f, nid)
        hops = 0
        while x is not None and x.get('k') == 'var' and x.get('vk') == 'local' and hops < 3:
            hops += 1
            init = U.local_init(f, x['d'])
            if init is None or x['d'] in U.assigned_vars(f):
                return []
            x = U.scn(f, init)
        if x is None or x.get('k') != 'call':
            return []
        if E.is_extern_c(x) and x.get('q') in ('open', 'open64') and len(x.get('args', [])) >= 2:
            return [(f, x)]
        out = []
        if depth < 2 and 'u' in x:
            for g in fb.by_usr.get(x['u'], [])[:1]:
                if g.has_cfg:
                    for r_ in [m for m in g.all_nodes() if m.get('k') == 'return' and 'sub' in m]:
                        out += opens_behind(g, r_['sub'], depth + 1)
        return out
    seen_open = set()
    for fn in fb.functions:
        if not fn.has_cfg or not fn.q.startswith('osmium::index::'):
            continue
        for nw in [n for n in fn.all_nodes() if n.get('k') == 'new']:
            for x_ in fn.subtree(nw['id']):
                if x_ == nw['id'] or fn.nodes[x_].get('k') != 'var' or fn.nodes[x_].get('vk') != 'local':
                    continue
                for (g, o) in opens_behind(fn, x_):
                    if (g.pat, o.get('o')) in seen_open:
                        continue
                    seen_open.add((g.pat, o.get('o')))
                    n1 += 1
                    flags = g.const_value(o['args'][1])
                    if flags is None:
                        R.broken('%s: open() flags are not a constant expression' % g.q)
                        continue
                    ok = (flags & O_ACCMODE) == O_RDWR and (flags & O_CREAT) and not (flags & O_TRUNC) and not (flags & O_EXCL)
                    # keyed by the function that constructs the map: that is where the oracle needs the file contents kept
                    R.check(ok, r1, fn.q + '#open-flags', g.loc(o['id']),
                            '%s opens the index file (in %s) with flags %#o: a file-backed index must be opened O_RDWR|O_CREAT and without O_TRUNC / O_EXCL '
                            '(re-opening "…_file_array,<file>" must find the entries that were stored before)' % (fn.q, g.q, flags), 'flags %#o' % flags)
    if n1 == 0:
        R.broken('no open() feeding a file-backed map constructor found')
    # M1
    MM = 'osmium::MemoryMapping'
    fns = [f for f in fb.functions if f.cls == MM and f.has_cfg and not f.is_lambda]
    grow_memo = {}

    def grower(f, n):
        """call on this of a method that (transitively) resizes the backing file -> callee Fn"""
        if n.get('k') != 'call' or n.get('rcls') != MM or 'u' not in n:
            return None
        g = U._callee_for(fb, f, n)
        if g is None or not g.has_cfg:
            return None
        if g.usr not in grow_memo:
            grow_memo[g.usr] = bool({'ftruncate', 'ftruncate64', '_chsize_s'} & fb.callees_closure(g, depth=4))
        return g if grow_memo[g.usr] else None
    nmap = 0
    for fn in fns:
        maps = [n for n in fn.all_nodes() if E.is_extern_c(n) and n.get('q') in ('mmap', 'mmap64') and len(n.get('args', [])) == 6]
        if not maps:
            continue
        grows = [(n, grower(fn, n)) for n in fn.all_nodes()]
        grows = [(n, g) for (n, g) in grows if g is not None]
        for M in maps:
            fdv = fn.const_value(M['args'][4])
            if fdv == -1:
                continue    # anonymous mapping
            nmap += 1
            key = '%s#file-grown-to-mapped-size-before-mmap' % fn.q
            site = fn.loc(M['id'])
            dom = [(n, g) for (n, g) in grows if fn.elem_dominates(n['id'], M['id'])]
            if not R.check(bool(dom), r2, key, site, '%s maps the file without first growing it to the mapped size (access beyond the old end of file raises SIGBUS)' % fn.q):
                continue
            len_text = U.ctext(fb, fn, M['args'][1])
            ok = True
            why = ''
            for (G, g) in dom:
                # members the grower reads as its size source, which this function (re)writes
                read = {m['name'] for m in g.all_nodes() if m.get('k') == 'member' and m.get('field') and g.is_this_member(m['id'])
                        and (m.get('t') or '').replace('const ', '') in ('unsigned long', 'std::size_t', 'long')}
                for name in sorted(read):
                    writes = [w for w in fn.all_nodes() if (w.get('k') == 'assign' and fn.is_this_member(w['lhs'], name))
                              or (w.get('k') == 'init' and w.get('name') == name)]
                    if not writes:
                        continue
                    before = [w for w in writes if fn.elem_dominates(w['id'], G['id'])]
                    late = [w for w in writes if not fn.elem_dominates(w['id'], G['id']) and fn.elem_dominates(w['id'], M['id'])]
                    if late or not before:
                        ok = False
                        why = '%s reads %s, but %s stores the new value of %s only after calling it' % (g.name, name, fn.name, name)
                # the size that is mapped is the size the file was grown to
                vals = set()
                for w in fn.all_nodes():
                    if (w.get('k') == 'assign' and w.get('op') == '=' and fn.is_this_member(w['lhs']) and fn.elem_dominates(w['id'], G['id'])):
                        vals.add((fn.sn(w['lhs'])['name'], U.ctext(fb, fn, w['rhs'])))
                    if w.get('k') == 'init' and isinstance(w.get('init'), int) and fn.elem_dominates(w['id'], G['id']):
                        vals.add((w.get('name'), U.ctext(fb, fn, w['init'])))
                if ok and not (len_text in read or any(nm in read and v == len_text for (nm, v) in vals)):
                    ok = False
                    why = 'the mapped length %s is not the size %s grows the file to (%s)' % (len_text, g.name, sorted(read))
            R.check(ok, r2, key, site, '%s: %s -- the new mapping would extend beyond the end of the file (SIGBUS on first access)' % (fn.q, why))
    if nmap == 0:
        R.broken('no file-backed mmap() call found in %s' % MM)


# ------------------------------------------------------------------------------------------------ reserve() is not observable

CAPACITY_ONLY = ('reserve',)


def reserve_rules(fb, R, classes):
    """P1: reserve() of a map (and of the mmap vector it forwards to) may change the capacity of its storage, never its size or contents:
    the sparse maps do not override it at all, so anything observable here makes the dense maps disagree with them."""
    rule = 'P1-reserve-only-changes-capacity'
    n_ = 0
    for cls in list(classes) + [MMV]:
        rec = next((r for r in fb.records_named(cls) if r.fields), None)
        size_names = {f['name'] for f in rec.fields if f['tC'] in ('unsigned long', 'std::size_t')} if rec is not None and cls == MMV else set()
        for fn in [f for f in _methods(fb, cls) if f.name == 'reserve']:
            n_ += 1
            bad = None
            for m in U._mutators(fb, fn):
                x = fn.nodes[m]
                if x.get('k') == 'call':
                    nm = x.get('q', '').rsplit('::', 1)[-1]
                    if nm in CAPACITY_ONLY and (U.is_vector_like(x) or x.get('rcls', '').startswith('osmium::detail::mmap_vector')):
                        continue
                    if cls == MMV and x.get('rcls', '').endswith('TypedMemoryMapping') and nm == 'resize':
                        continue    # growing the mapping is the capacity change of the mmap vector
                    bad = (m, 'calls %s' % x.get('q'))
                elif cls == MMV and x.get('k') in ('assign', 'unop'):
                    t_ = x['lhs'] if x.get('k') == 'assign' else x['sub']
                    if any(fn.is_this_member(t_, s_) for s_ in size_names):
                        bad = (m, 'changes the element count')
                else:
                    bad = (m, 'modifies a member')
            # calls of size-changing methods on this itself
            for x in fn.all_nodes():
                if x.get('k') == 'call' and x.get('rcls') == cls and x.get('q', '').rsplit('::', 1)[-1] in ('resize', 'clear', 'push_back', 'shrink_to_fit', 'set'):
                    bad = (x['id'], 'calls %s' % x['q'])
            R.check(bad is None, rule, fn.q + '#capacity-only', fn.site if bad is None else fn.loc(bad[0]),
                    '%s %s: reserve() must only pre-allocate (std::vector::reserve / mmap_vector_base::reserve); changing size() or the contents makes '
                    'ids stored before the call unreadable in the dense maps only' % (fn.q, bad[1] if bad else ''))
    if n_ == 0:
        R.broken('no reserve() override found in the map classes')


# ------------------------------------------------------------------------------------------------ LAYOUT: special members

# members deliberately not transferred member-wise: {(class, kind, field): reason}
MEMBERWISE_EXCEPTIONS = {}


def special_member_rules(fb, R, classes):
    """L1: every user-written move / copy / swap of the index and mapping classes handles every data member of its record;
       L2: a move out of a MemoryMapping invalidates the moved-from object (the member its unmap guard reads)."""
    r1, r2 = 'L1-special-members-memberwise', 'L2-moved-from-mapping-invalidated'
    want = set(classes) | {MAP, NLFW, 'osmium::MemoryMapping', 'osmium::AnonymousMemoryMapping', 'osmium::TypedMemoryMapping',
                           'osmium::AnonymousTypedMemoryMapping', MMV, 'osmium::detail::mmap_vector_anon', 'osmium::detail::mmap_vector_file',
                           'osmium::index::MapFactory'}
    recs = [r for r in fb.records if r.q in want and r.fields]
    done = U.memberwise_rule(fb, R, r1, recs, MEMBERWISE_EXCEPTIONS)
    if not any(rec.q == 'osmium::MemoryMapping' for (_f, _k, _o, rec) in done):
        R.broken('no user-written move member of osmium::MemoryMapping found')
    # the member(s) whose value decides whether unmap() releases the mapping
    guard_fields = set()
    for fn in fb.functions:
        if fn.cls != 'osmium::MemoryMapping' or not fn.has_cfg:
            continue
        for m in [n for n in fn.all_nodes() if E.is_extern_c(n) and n.get('q') == 'munmap']:
            for (c, s_, b_, o_) in U.guards(fn, m['id']):
                x = U.scn(fn, c)
                if x is not None and x.get('k') == 'call':
                    gb = U.getter_body(fb, fn, x)
                    if gb is not None:
                        guard_fields |= {g_['name'] for g_ in gb[0].all_nodes() if g_.get('k') == 'member' and g_.get('field') and gb[0].is_this_member(g_['id'])}
                for y in fn.subtree(c):
                    yn = fn.nodes[y]
                    if yn.get('k') == 'member' and yn.get('field') and fn.is_this_member(y):
                        guard_fields.add(yn['name'])
    if not guard_fields:
        R.broken('MemoryMapping: the guard of munmap() reads no member (cannot tell what "invalid" means)')
    for (fn, kind, oroot, rec) in done:
        if rec.q != 'osmium::MemoryMapping' or kind not in ('move-ctor', 'move-assign'):
            continue
        def inval_ok(f, root, depth=0):
            inv = U.invalidated_fields(fb, f, root)
            ids_ = [i for f_ in guard_fields for i in inv.get(f_, [])]
            tr_ = [i for f_ in guard_fields for i in U.member_transfers(fb, f, kind, ('this',), root, f_)]
            good = bool(ids_) and U.must_pass(f, f.entry, ids_, U.self_assignment_edges(f, root)) is None
            for t in tr_:
                if any(i != t and f.elem_dominates(t, i) for i in ids_):
                    continue
                if t in ids_ and f.nodes[t].get('q', '').rsplit('::', 1)[-1] == 'swap':
                    continue    # one exchange does both
                if any(i in f.subtree(t) and f.nodes[i].get('q') == 'std::exchange' for i in ids_):
                    continue    # m_x(std::exchange(other.m_x, invalid)): taken over and reset in one expression
                h = U._helper_with_other(fb, f, f.nodes[t], ('this',), root) if t in ids_ and depth < 2 else None
                good = good and h is not None and inval_ok(h[0], ('param', h[1]), depth + 1)[0]     # both happen inside the helper: decide the order there
            return good, tr_
        ok, trans = inval_ok(fn, oroot)
        R.check(ok, r2, '%s(%s)#moved-from-invalidated' % (fn.q, kind), fn.site,
                '%s must invalidate the moved-from mapping (%s) after taking it over, otherwise both objects unmap the same address' % (fn.q, sorted(guard_fields)))
        if kind == 'move-assign':
            # the mapping this object holds is released before its address is overwritten
            rel = []
            for c_ in fn.all_nodes():
                if c_.get('k') == 'call' and c_.get('rcls') == rec.q and 'u' in c_ and (c_.get('recv') is None or (fn.sn(c_['recv']) or {}).get('k') == 'this'):
                    g = U._callee_for(fb, fn, c_)
                    if g is not None and g.has_cfg and 'munmap' in fb.callees_closure(g, depth=3) | {n_.get('q') for n_ in g.all_nodes() if E.is_extern_c(n_)}:
                        rel.append(c_['id'])
            ok = bool(rel) and bool(trans) and all(any(fn.elem_dominates(r_, t) for r_ in rel) for t in trans)
            R.check(ok, r2, '%s(%s)#own-mapping-released-first' % (fn.q, kind), fn.site,
                    '%s must unmap the mapping it holds before taking over the other one (the old mapping would leak)' % fn.q)


# ------------------------------------------------------------------------------------------------ driver

def all_rules(fb, R):
    classes = map_classes(fb)
    if len(classes) < 5:
        R.broken('expected at least 5 class templates derived from %s, found %s' % (MAP, classes))
    bounds_rules(fb, R, classes)
    get_rules(fb, R, classes)
    sorted_rules(fb, R, classes)
    flexmem_rules(fb, R)
    nlfw_rules(fb, R, classes)
    mmap_vector_rules(fb, R)
    dump_rules(fb, R, classes)
    factory_rules(fb, R)
    file_backed_rules(fb, R)
    special_member_rules(fb, R, classes)
    reserve_rules(fb, R, classes)
    errdisc_rules(fb, R, classes)


def run(ctx):
    R = ctx.R
    configs = ['ndebug14'] if ctx.tier == 'quick' else ['ndebug14', 'debug14', 'ndebug17', 'debug17']
    for cfg in configs:
        fb = ctx.facts(['index'], cfg)
        all_rules(fb, R)
        fbx = ctx.facts(['c12_extra'], cfg)
        registration_rules(fbx, R)
    # instance floors: confirmed by reading the tree (see the keys in evidence/C12.json); rules whose keys name private helpers (get_dense,
    # get_sparse, assure_block ...) carry a floor below today's count so that inlining / extracting a helper is not reported as broken
    R.expect('G1-get-absent-throws', 12)            # 5 classes: not_found + per stored-value return its miss tests
    R.expect('G2-get_noexcept-absent-empty', 18)    # 5 get_noexcept + FlexMem get_dense / get_sparse
    R.expect('B1-dense-access-in-bounds', 4)        # dense get / get_noexcept / set, FlexMem assure_block / get_dense / set_dense outer index
    R.expect('S1-search-key-prefix-of-sort-key', 2)  # VectorBasedSparseMap::find_id, FlexMem::get_sparse
    R.expect('S2-sort-override-sorts-searched-container', 2)
    R.expect('F1-flexmem-block-offset-tiling', 4)
    R.expect('F2-flexmem-switch-carries-all', 4)
    R.expect('F3-flexmem-mode-dispatch', 2)
    R.expect('N1-way-sorts-before-lookup', 2)
    R.expect('N2-flag-cleared-only-after-sort', 1)
    R.expect('N2-flag-set-on-descent', 1)
    R.expect('N2-last-id-tracked', 1)
    R.expect('N3-last-id-sentinel-reset', 1)
    R.expect('N4-sign-routing-agrees', 1)
    R.expect('N5-missing-location-throws', 1)
    R.expect('V1-mmap-vector-growth-filled-empty', 3)   # two constructors + reserve
    R.expect('V2-mmap-vector-size-within-capacity', 3)  # resize, reserve, push_back
    R.expect('D1-dump-writes-whole-vector', 3)
    R.expect('T1-registration-table', 50)           # 16 rows x (unique, denotes) + 8 agree + 8 register_map + factory create / register
    R.expect('L1-special-members-memberwise', 10)    # MemoryMapping move constructor + move assignment x 5 members
    R.expect('L2-moved-from-mapping-invalidated', 3)   # move constructor, move assignment (+ releases its own mapping first)
    R.expect('P1-reserve-only-changes-capacity', 2)   # VectorBasedDenseMap::reserve, mmap_vector_base::reserve
    R.expect('O1-index-file-open-keeps-contents', 1)   # create_map_with_fd
    R.expect('M1-file-grown-before-mapping', 2)       # MemoryMapping constructor, resize (file branch)
    R.expect('E1-mmap-oserror-reaches-throw', 9)    # mmap x2, mremap, munmap, fstat, ftruncate, open, tmpfile, dup


def _selftest_maps(fb, R):
    classes = map_classes(fb)
    bounds_rules(fb, R, classes)
    get_rules(fb, R, classes)
    sorted_rules(fb, R, classes)
    flexmem_rules(fb, R)
    nlfw_rules(fb, R, classes)
    mmap_vector_rules(fb, R)
    file_backed_rules(fb, R)
    special_member_rules(fb, R, classes)
    reserve_rules(fb, R, classes)


SELFTESTS = [(r, 'c12_maps.cpp', _selftest_maps) for r in (
    'B1-dense-access-in-bounds', 'G1-get-absent-throws', 'G2-get_noexcept-absent-empty', 'S1-search-key-prefix-of-sort-key',
    'S2-sort-override-sorts-searched-container', 'F1-flexmem-block-offset-tiling', 'F2-flexmem-switch-carries-all',
    'F3-flexmem-mode-dispatch', 'N1-way-sorts-before-lookup', 'N2-flag-set-on-descent', 'N3-last-id-sentinel-reset',
    'N4-sign-routing-agrees', 'V1-mmap-vector-growth-filled-empty', 'V2-mmap-vector-size-within-capacity',
    'O1-index-file-open-keeps-contents', 'M1-file-grown-before-mapping', 'L1-special-members-memberwise',
    'L2-moved-from-mapping-invalidated', 'P1-reserve-only-changes-capacity')]
