"""C15 -- id sets, relation maps and the item stash match their set / map models (structural clauses only).

Engines: bit-slice evaluation (charset.Bits via c12_util.UBits), GUARD (bounds / null-chunk dominance), SORTED-lite
(c12_util: comparator keys, sort-before-search; osmlint/sorted.py did not exist yet), PAIR-style must-pass rules.

Decided (DESIGN.md section 5, C15):
 (1) A1-idset-bit-tiling              IdSetDense: bitmask / offset / chunk_id read disjoint bit fields of the id that cover all its bits
                                      exactly once (bit = id[0,3), offset = id[3,3+b), chunk = id[3+b,W)); one storage byte holds 2^3 bits;
                                      every chunk allocation / memset / memcpy uses 2^b bytes
     A2-idset-end-sentinel            last() is (number of chunks) << (3+b), the first id behind the last chunk, and that value is
                                      representable in its return type for every reachable chunk count; the iterator's chunk jump is computed
                                      and stored wide enough for the last chunk   [found F16, fixed by a123208]
     A3-idset-iterator-skips          IdSetDenseIterator::next: missing chunk -> (chunk+1) << (3+b); zero byte -> += 2^3 then & ~(2^3-1);
                                      otherwise ++; each under its test; operator++ advances before searching
     A4-idset-chunk-access-guarded    every m_data[c] in IdSetDense is dominated by c < m_data.size() (or resize(c+1)); every byte access
                                      through a chunk pointer is dominated by a non-null test of that pointer or its allocation;
                                      the byte index is offset(x) and the chunk index chunk_id(x) of the same x
     A5-idset-size-tracks-bit-flips   `|= bitmask` is paired with ++m_size under `(e & bitmask) == 0`, `&= ~bitmask` with --m_size under
                                      `!= 0`, same id for element and mask; check_and_set returns true exactly on the flip path; no other
                                      writer of m_size except clear (0), copy and swap
     A6-idset-copy-keeps-chunk-slots  copy constructor: one emplace_back per source slot (allocated copy of 2^b bytes or empty slot), size
                                      copied; swap exchanges every member; clear resets both
 (2) S1-search-key-prefix-of-sort-key flat_map::get (equal_range) and IdSetSmall::get_binary_search: comparator key is a prefix of the key
                                      of the std::sort in sort_unique on the same container
     S2-sort-unique-erase             every std::unique is preceded by std::sort on the same range with the same key as the equality used,
                                      and its result is passed to erase(result, end())
     R1-builders-hand-out-sorted-maps every map moved into a RelationsMapIndex / RelationsMapIndexes is sort_unique'd after its last
                                      modification on every path (append32to64 counts: it ends with sort_unique of the 64-bit map)
     R2-merge-appends-every-element   append32to64: complete range-for over the 32-bit map feeding (item.key, item.value) into the 64-bit
                                      map, before its final sort_unique; flip_copy / flip_in_place visit every pair and exchange key and value
     R3-narrow-store-guarded          RelationsMapStash::add stores into the 32-bit map only when both ids are <= 2^32-1
     R3-narrow-lookup-guarded         RelationsMapIndex::for_each hands its 64-bit id to the 32-bit map (directly or through a helper) only under
                                      a dominating test that it is <= 2^32-1   [found F28, fixed by 3df468d]
     R5-indexes-argument-routing      both RelationsMapIndexes constructors route parameter 1 / 2 to the same members; build_indexes passes
                                      (map as recorded, flipped map); member_to_parent() returns the index built from the first argument
     R4-index-dispatch                RelationsMapIndex: the constructor taking the 32-bit map sets the small flag, the other clears it;
                                      for_each / empty / size use the 32-bit map exactly under the flag; for_each passes it->value for
                                      every element of the range; add_members records (member, parent)
 (3) I1-remove-pairs-updates          ItemStash::remove_item: set_removed(true) on the item at the handle's offset, offset = sentinel,
                                      --m_count_items, ++m_count_removed, all on every path
     I2-gc-rewrites-index             garbage_collect resets the removed count and hands purge_removed a cleanup_helper bound to m_index;
                                      moving_in_buffer overwrites exactly the slot that equals old_offset with new_offset and advances;
                                      Buffer::purge_removed(cb) calls moving_in_buffer(read offset, write offset) before the memmove
     I3-handle-discipline             handle_type's value constructor is private; add_item takes the offset after a possible collection
                                      and before the buffer grows, pushes it, returns handle{index.size()}; lookups use value - 1;
                                      clear resets buffer, index and both counters
     L1-special-members-memberwise    every user-written copy / move / swap of the id set, relations map and item stash classes handles every
                                      data member of its record; a by-value assignment delegates to swap(*this, argument)
     I5-gc-decision-monotone-in-removed  the function that guards garbage_collect() in add_item (should_gc): the test that immediately selects a
                                      `return false` is never a lower bound on the removed count, the one selecting `return true` never an upper
                                      bound (sufficient for: more removed items never turn "collect" into "do not collect"); thresholds not decided
     I4-no-stale-buffer-offset        no local that holds Buffer::committed() / written() of the stash buffer is used after a call that
                                      (transitively) reaches Buffer::purge_removed / clear on the same path (garbage_collect relocates items)

Not decided (moved to "not decided"): model equivalence over operation histories; the m_data[cid] access in
IdSetDenseIterator::next (bounded by the iterator invariant m_value < m_last, not by a dominating test); the thresholds of should_gc();
IdSetSmall::merge_sorted preconditions; std algorithm semantics.
"""
from .. import c12_util as U
from ..charset import Unsupported, field_vec, int_type
from ..flow import path_search, describe_path

# genuine findings on the pristine tree: (rule, key, explanation)
# (fixed in /repo by a123208 "IdSetDense iterator uses 64 bit positions"; kept as documentation of what the rule found)
KNOWN = [
    ('A2-idset-end-sentinel', 'osmium::index::IdSetDense::last#sentinel-representable-in-id-type',
     'IdSetDense<uint32_t> (default chunk_bits 22): last() computes m_data.size() * chunk_size * 8 in size_t and returns it as T. '
     'After set(id) with id >= 0xfe000000 (chunk 127) m_data.size() == 128, the product is 2^32 and is truncated to 0: begin() == end(), '
     'iteration yields no id at all (e.g. s.set(1); s.set(0xffffffff); for (auto id : s) ... visits nothing) although get()/size() are right.'),
]

EXPLANATION = (
    'Decided: (1) IdSetDense bit-slice tiling of the id (bit / byte offset / chunk), allocation sizes, end sentinel formula and its '
    'representability, iterator skip constants, dominance of chunk-vector bounds and null-chunk tests, m_size +-1 exactly on bit flips, '
    'copy keeps chunk slots; (2) flat_map / IdSetSmall: search key is a prefix of the sort key, sort-unique-erase idiom, every map handed to '
    'an index is sorted after its last modification, the 32->64 merge and the flips visit every pair, 32-bit store only under both ids <= '
    '2^32-1, index dispatch on the small flag; (3) ItemStash: remove_item pairs flag / sentinel / counters, garbage_collect rewrites the '
    'index through cleanup_helper (callback before memmove, read/write offsets), private handle constructor, add_item ordering, 1-based handles. '
    'NOT decided: equivalence with std::set / std::multimap / std::map models over histories, the iterator-invariant-bounded chunk access in '
    'IdSetDenseIterator::next, should_gc heuristic, std algorithm semantics.')
ASSUMPTIONS = ['std::sort / std::unique / std::equal_range / std::binary_search behave per the standard', 'LP64 data model',
               'drivers/index.cpp instantiates IdSetDense<uint32_t / uint64_t> with the default chunk size; drivers/core.cpp the ItemStash']

ISD = 'osmium::index::IdSetDense'
ISI = 'osmium::index::IdSetDenseIterator'
ISS = 'osmium::index::IdSetSmall'
FMAP = 'osmium::index::detail::flat_map'
STASH = 'osmium::index::RelationsMapStash'
RINDEX = 'osmium::index::RelationsMapIndex'
RINDEXES = 'osmium::index::RelationsMapIndexes'
ITEMSTASH = 'osmium::ItemStash'


def _returns(fn):
    return [n for n in fn.all_nodes() if n.get('k') == 'return' and 'sub' in n]


def _log2(v):
    return v.bit_length() - 1 if v and v > 0 and (v & (v - 1)) == 0 else None


# ------------------------------------------------------------------------------------------------ (1) IdSetDense

def _slice_of(fn, W):
    """static one-parameter helper returning a bit field of its parameter -> ('field', lo, width) | ('onehot', lo, width) | None"""
    rets = _returns(fn)
    if len(rets) != 1 or len(fn.params) != 1:
        return None
    pd = fn.params[0]['d']
    leaf = lambda f, n: 'id' if n.get('k') == 'var' and n.get('d') == pd else None
    B = U.UBits(fn, leaf, {'id': W})

    def as_field(vec):
        for lo in range(0, W):
            for w in range(1, W - lo + 1):
                if vec[0] == ('id', lo) and vec == field_vec('id', lo, w):
                    return (lo, w)
        return None
    x = U.scn(fn, rets[0]['sub'])
    try:
        if x is not None and x.get('k') == 'binop' and x.get('op') == '<<' and fn.const_value(x['lhs']) == 1 and 'cv' not in x:
            f = as_field(B.eval(x['rhs']))
            return ('onehot',) + f if f else None
        f = as_field(B.eval(rets[0]['sub']))
        return ('field',) + f if f else None
    except Unsupported:
        return None


def _id_width(fn):
    t = int_type(fn.params[0]['tC']) if fn.params else None
    return t[1] if t is not None and not t[0] else None


def _tiling(fb, R, clsT):
    """-> dict(bit=Fn, off=Fn, chunk=Fn, kb, ko, W) or None (reported)."""
    rule = 'A1-idset-bit-tiling'
    helpers = [f for f in fb.functions if f.cls == ISD and f.clsT == clsT and f.has_cfg and f.static and len(f.params) == 1 and len(_returns(f)) == 1]
    site = helpers[0].site if helpers else clsT
    W = _id_width(helpers[0]) if helpers else None
    if W is None:
        R.broken('%s: no static one-parameter helpers over an unsigned id type' % clsT)
        return None
    sl = {f.name: (f, _slice_of(f, W)) for f in helpers}
    bit = [(f, s) for (f, s) in sl.values() if s and s[0] == 'onehot']
    flds = sorted([(f, s) for (f, s) in sl.values() if s and s[0] == 'field'], key=lambda x: x[1][1])
    ok = len(bit) == 1 and len(flds) == 2
    desc = {n: s for n, (f, s) in sl.items()}
    if ok:
        (fb_, sb), (fo, so), (fc, sc) = bit[0], flds[0], flds[1]
        kb, ko = sb[2], so[2]
        ok = sb[1] == 0 and so[1] == kb and sc[1] == kb + ko and sc[2] == W - kb - ko
    R.check(ok, rule, ISD + '#bit-offset-chunk-partition-id-bits', site,
            'the bit / byte-offset / chunk helpers of %s do not read disjoint fields covering all %s id bits exactly once: %s (expected '
            'onehot[0,k), field[k,k+b), field[k+b,W))' % (clsT, W, desc), str(desc))
    if not ok:
        return None
    return dict(bit=fb_, off=fo, chunk=fc, kb=kb, ko=ko, W=W)


def idset_dense_rules(fb, R):
    recs = [r for r in fb.records_named(ISD) if any(f.clsT == r.full for f in fb.functions if f.cls == ISD)]
    if not recs:
        R.broken('no instantiation of %s' % ISD)
        return
    for rec in recs:
        T = _tiling(fb, R, rec.full)
        if T is None:
            continue
        data_f = next((f['name'] for f in rec.fields if f['tC'].startswith('std::vector<std::unique_ptr<')), None)
        size_f = next((f['name'] for f in rec.fields if not f['tC'].startswith('std::')), None)
        if data_f is None or size_f is None:
            R.broken('%s: chunk vector / size members not identified by type' % rec.full)
            continue
        fns = [f for f in fb.functions if f.cls == ISD and f.clsT == rec.full and f.has_cfg and not f.is_lambda]
        _idset_alloc(fb, R, rec, fns, T)
        _idset_last(fb, R, rec, fns, T, data_f)
        _idset_access(fb, R, rec, fns, T, data_f)
        _idset_size(fb, R, rec, fns, T, data_f, size_f)
        _idset_copy(fb, R, rec, fns, T, data_f, size_f)
        its = [f for f in fb.functions if f.cls == ISI and f.has_cfg and [str(x).rstrip('UL') for x in f.cls_targs[:2]] == [str(x).rstrip('UL') for x in rec.targs[:2]]]
        _idset_iter(fb, R, rec, its, T)


def _idset_alloc(fb, R, rec, fns, T):
    rule = 'A1-idset-bit-tiling'
    want = 1 << T['ko']
    # one storage element holds 2^kb bits
    n = 0
    for fn in fns:
        for x in fn.all_nodes():
            sz = None
            what = None
            if x.get('k') == 'new' and x.get('array'):
                bits = int_type(x.get('alloc'))
                R.check(bits is not None and bits[1] == (1 << T['kb']), rule, '%s#storage-element-holds-2^k-bits' % fn.q, fn.loc(x['id']),
                        'chunks are arrays of %s but bitmask() addresses %d bits per element' % (x.get('alloc'), 1 << T['kb']))
                sz, what = fn.const_value(x['size']) if isinstance(x.get('size'), int) else None, 'new[]'
            elif x.get('k') == 'call' and x.get('q') in ('memset', 'memcpy', 'memmove') and len(x.get('args', [])) == 3:
                sz, what = fn.const_value(x['args'][2]), x['q']
            if what is None:
                continue
            n += 1
            R.check(sz == want, rule, '%s#%s-covers-2^b-bytes' % (fn.q, what), fn.loc(x['id']),
                    '%s in %s uses %s bytes but offset() ranges over 2^%d = %d bytes per chunk' % (what, fn.q, sz, T['ko'], want))
    if n == 0:
        R.bad(rule, ISD + '#chunk-allocation', rec.file + ':%d' % rec.line, 'no chunk allocation found in %s' % rec.full)


def _flatten_product(fn, nid, out):
    n = U.scn(fn, nid)
    if n is not None and n.get('k') == 'binop' and n.get('op') == '*' and 'cv' not in n:
        _flatten_product(fn, n['lhs'], out)
        _flatten_product(fn, n['rhs'], out)
    else:
        out.append(nid)


def _idset_last(fb, R, rec, fns, T, data_f):
    rule = 'A2-idset-end-sentinel'
    shift = T['kb'] + T['ko']
    # the function whose value is the iterators' end position: argument of end()'s constructor
    cands = [f for f in fns if f.kind == 'method' and not f.params and not f.static and len(_returns(f)) == 1
             and any(m.get('k') == 'member' and m.get('name') == data_f for m in f.all_nodes())
             and U.scn(f, _returns(f)[0]['sub']) is not None and U.scn(f, _returns(f)[0]['sub']).get('k') == 'binop']
    ends = [f for f in fns if f.name == 'end']
    used = set()
    for e in ends:
        for c in e.all_nodes():
            if c.get('k') == 'call':
                used.add(c.get('q'))
    cands = [f for f in cands if f.q in used]
    if len(cands) != 1:
        R.broken('%s: the end-sentinel function (called by end()) was not identified: %s' % (rec.full, [f.q for f in cands]))
        return
    fn = cands[0]
    factors = []
    _flatten_product(fn, _returns(fn)[0]['sub'], factors)
    const = 1
    sizes = 0
    other = []
    for x in factors:
        v = fn.const_value(x)
        if v is not None:
            const *= v
            continue
        c = U.scn(fn, x)
        if c is not None and c.get('k') == 'call' and c.get('q') == 'std::vector::size' and c.get('recv') is not None and fn.is_this_member(c['recv'], data_f):
            sizes += 1
        else:
            other.append(fn.expr(x))
    ok = sizes == 1 and not other and const == (1 << shift)
    R.check(ok, rule, fn.q + '#first-id-behind-last-chunk', fn.site,
            '%s must be %s.size() * 2^%d (= size << (bit bits + offset bits)); found constant factor %d, %d size() factors, other factors %s'
            % (fn.q, data_f, shift, const, sizes, other))
    # representability: the largest chunk count is chunk_id(max id) + 1 = 2^(W - shift); the sentinel is then 2^W
    rt = int_type(fn.retC)
    W = T['W']
    slots = 1 << (W - shift)
    fits = rt is not None and (slots << shift) <= (1 << rt[1]) - 1
    reachable = slots * 8 <= (1 << 32)      # the chunk pointer table itself needs slots * 8 bytes
    if fits or not reachable:
        R.ok(rule, fn.q + '#sentinel-representable-in-id-type', fn.site,
             'W=%d: %s' % (W, 'fits' if fits else 'wraps only with 2^%d chunk slots (pointer table of %d GiB): not reachable' % (W - shift, (slots * 8) >> 30)))
    else:
        R.bad(rule, fn.q + '#sentinel-representable-in-id-type', fn.site,
              '%s returns %s: with an id of the last chunk set (id >= %#x for %d-bit ids) %s.size() is %d and the sentinel %d * 2^%d = 2^%d wraps '
              'to 0, so begin() == end() and iteration visits nothing' % (fn.q, fn.retC, ((1 << W) - (1 << shift)), W, data_f, slots, slots, shift, W))


def _ptr_origin(fb, fn, nid):
    """byte access base -> ('chunkref', local d, chunk index id) for a local reference / pointer taken from m_data[c] (or its .get()),
    ('direct', None, chunk index id) for m_data[c] used in place; else None"""
    n = U.scn(fn, nid)
    d = None
    hops = 0
    while n is not None and n.get('k') == 'var' and n.get('vk') == 'local' and hops < 3:
        hops += 1
        d = n['d'] if d is None else d
        init = U.local_init(fn, n['d'])
        if init is None or n['d'] in U.assigned_vars(fn):
            return None
        n = U.scn(fn, init)
    if n is not None and n.get('k') == 'call' and n.get('q') == 'std::unique_ptr::get' and n.get('recv') is not None:
        n = U.scn(fn, n['recv'])
    if n is not None and n.get('k') == 'call' and n.get('op') == '[]' and n.get('rcls') == 'std::vector' and n.get('args'):
        return ('chunkref' if d is not None else 'direct', d, n['args'][0], n)
    return None


def _nonnull_evidence(fb, fn, d, direct_text):
    """edges on which the chunk pointer (local d, or the expression text) is known non-null, and elements that allocate it."""
    elems, edges = set(), set()

    def is_ptr(c):
        x = U.scn(fn, c)
        if x is not None and x.get('k') == 'call' and x.get('q') in ('std::unique_ptr::(conv)', 'std::unique_ptr::get') and x.get('recv') is not None:
            x = U.scn(fn, x['recv'])
            c = x['id'] if x is not None else c
        if x is None:
            return False
        if d is not None and x.get('k') == 'var' and x.get('d') == d:
            return True
        return direct_text is not None and U.ctext(fb, fn, c) == direct_text
    for b in U.cond_blocks(fn):
        for i in (0, 1):
            for (c, sense) in U.edge_facts(fn, b, i):
                if sense and is_ptr(c):
                    edges.add((b['id'], i))
                p = U.cmp_parts(fn, c)
                if p is not None and p[0] in ('==', '!='):
                    for a, z in ((p[1], p[2]), (p[2], p[1])):
                        zn = U.scn(fn, z)
                        if is_ptr(a) and zn is not None and (zn.get('null') or fn.const_value(z) == 0):
                            if (p[0] == '!=') == sense:
                                edges.add((b['id'], i))
    for n in fn.all_nodes():
        if n.get('k') == 'call' and n.get('q') == 'std::unique_ptr::reset' and n.get('recv') is not None and is_ptr(n['recv']) \
                and any(fn.nodes[x].get('k') == 'new' for x in fn.subtree(n['id'])):
            elems.add(n['id'])
    return elems, edges


def _idset_access(fb, R, rec, fns, T, data_f):
    rule = 'A4-idset-chunk-access-guarded'
    for fn in fns:
        for (acc, cont, idx) in U.vector_accesses(fb, fn):
            if not fn.is_this_member(cont, data_f):
                continue
            key = '%s#%s[%s]' % (fn.q, data_f, U.ctext(fb, fn, idx))
            w, why = U.unproven_access_path(fb, fn, acc, cont, idx)
            R.check(w is None, rule, key, fn.loc(acc['id']),
                    '%s[%s] in %s is reachable without proof that the chunk index is below size(): %s (%s)' % (data_f, U.ctext(fb, fn, idx), fn.q, why, describe_path(fn, w)), why)
        # byte accesses through a chunk pointer
        for n in fn.all_nodes():
            base = idx = None
            if n.get('k') == 'index':
                base, idx = n['base'], n['idx']
            elif n.get('k') == 'call' and n.get('op') == '[]' and n.get('rcls') == 'std::unique_ptr' and n.get('recv') is not None and n.get('args'):
                base, idx = n['recv'], n['args'][0]
            if base is None:
                continue
            po = _ptr_origin(fb, fn, base)
            if po is None:
                continue
            kind, d, cidx, vacc = po
            key0 = fn.q
            # (a) index pair: offset(x) inside chunk_id(x)
            oi = U.rn(fb, fn, idx)
            ci = U.rn(fb, fn, cidx)
            same = (oi is not None and ci is not None and oi.get('k') == 'call' and ci.get('k') == 'call' and oi.get('u') == T['off'].usr
                    and ci.get('u') == T['chunk'].usr and oi.get('args') and ci.get('args')
                    and U.ctext(fb, fn, oi['args'][0]) == U.ctext(fb, fn, ci['args'][0]))
            R.check(same, rule, key0 + '#byte-index-is-offset-of-same-id', fn.loc(n['id']),
                    '%s reads byte %s of chunk %s: must be %s(x) of chunk %s(x) for the same x' % (fn.q, fn.expr(idx), fn.expr(cidx), T['off'].name, T['chunk'].name))
            # (b) non-null
            elems, edges = _nonnull_evidence(fb, fn, d, U.ctext(fb, fn, base) if d is None else None)
            w = path_search(fn, fn.entry, lambda e: e == n['id'], lambda e: e in elems, lambda b, i, s: (b, i) not in edges, from_block_start=True)
            R.check(w is None, rule, key0 + '#chunk-pointer-non-null', fn.loc(n['id']),
                    '%s dereferences a chunk pointer without a dominating non-null test or allocation: %s' % (fn.q, describe_path(fn, w)))


def _idset_size(fb, R, rec, fns, T, data_f, size_f):
    rule = 'A5-idset-size-tracks-bit-flips'
    flips = 0
    for fn in fns:
        incs = [n for n in fn.all_nodes() if n.get('k') == 'unop' and n.get('op') in ('++', '--') and fn.is_this_member(n['sub'], size_f)]
        others = [n for n in fn.all_nodes() if n.get('k') == 'assign' and fn.is_this_member(n['lhs'], size_f)]
        for n in fn.all_nodes():
            if n.get('k') != 'assign' or n.get('op') not in ('|=', '&='):
                continue
            lv = U.scn(fn, n['lhs'])
            if lv is None or lv.get('k') != 'var' or lv.get('vk') != 'local':
                continue
            init = U.local_init(fn, lv['d'])
            src = U.scn(fn, init) if init is not None else None
            if src is None or src.get('k') != 'call' or not src.get('args'):
                continue
            flips += 1
            setting = n['op'] == '|='
            key = '%s#%s' % (fn.q, 'set-bit' if setting else 'clear-bit')
            site = fn.loc(n['id'])
            idt = U.ctext(fb, fn, src['args'][0])
            # mask operand: bitmask(id) / ~bitmask(id) of the same id
            m = U.rn(fb, fn, n['rhs'])
            neg = False
            if m is not None and m.get('k') == 'unop' and m.get('op') == '~':
                neg = True
                m = U.rn(fb, fn, m['sub'])
            okm = m is not None and m.get('k') == 'call' and m.get('u') == T['bit'].usr and m.get('args') and U.ctext(fb, fn, m['args'][0]) == idt and neg == (not setting)
            # guard: (element & bitmask(id)) == 0 for set, != 0 for clear
            okg = False
            for (c, s, b, o) in U.guards(fn, n['id']):
                p = U.cmp_parts(fn, c)
                if p is None or p[0] not in ('==', '!='):
                    continue
                op = p[0] if s else U.NEG[p[0]]
                for a, z in ((p[1], p[2]), (p[2], p[1])):
                    an = U.rn(fb, fn, a)
                    if fn.const_value(z) == 0 and an is not None and an.get('k') == 'binop' and an.get('op') == '&':
                        sides = [U.rn(fb, fn, an['lhs']), U.rn(fb, fn, an['rhs'])]
                        hasv = any(x is not None and x.get('k') == 'var' and x.get('d') == lv['d'] for x in sides)
                        hasm = any(x is not None and x.get('k') == 'call' and x.get('u') == T['bit'].usr and x.get('args')
                                   and U.ctext(fb, fn, x['args'][0]) == idt for x in sides)
                        if hasv and hasm and op == ('==' if setting else '!='):
                            okg = True
            want = '++' if setting else '--'
            mine = [i for i in incs if i['op'] == want]
            okc = len(mine) == 1 and len(incs) == 1 and not others
            if okc:
                # order of the two statements is irrelevant: one dominates the other and every path from the first passes the second
                a_, b_ = (n['id'], mine[0]['id']) if fn.elem_dominates(n['id'], mine[0]['id']) else (mine[0]['id'], n['id'])
                okc = fn.elem_dominates(a_, b_) and U.must_pass_after(fn, a_, [b_]) is None \
                    and {(c, s) for (c, s, b, o) in U.guards(fn, n['id'])} == {(c, s) for (c, s, b, o) in U.guards(fn, mine[0]['id'])}
            R.check(okm and okg and okc, rule, key, site,
                    '%s: `%s` on the element of id %s must use %sbitmask(%s), be guarded by `(element & bitmask) %s 0` and be paired with exactly one %s%s '
                    'under the same test (mask ok %s, guard ok %s, counter ok %s)' % (fn.q, n['op'], idt, '~' if not setting else '', idt,
                                                                                     '==' if setting else '!=', want, size_f, okm, okg, okc))
            # element comes from the accessor for the same id; value-returning variant reports the flip
            rets = _returns(fn)
            if rets and fn.retC == 'bool':
                good = True
                for r in rets:
                    v = fn.const_value(r['sub'])
                    onflip = path_search(fn, n['id'], lambda e: e == r['id'], lambda e: False) is not None
                    if v is None:
                        # `return was_unset;`: the returned local is the very test that guards the flip (true <=> flipped)
                        x = U.scn(fn, r['sub'])
                        named = x is not None and x.get('k') == 'var' and x.get('vk') == 'local' and x['d'] not in U.assigned_vars(fn) \
                            and any(s and (U.scn(fn, c) or {}).get('k') == 'var' and U.scn(fn, c).get('d') == x['d'] for (c, s, b, o) in U.guards(fn, n['id']))
                        good = good and named
                        continue
                    good = good and (v == 1) == onflip
                R.check(good, rule, fn.q + '#returns-true-exactly-on-flip', site, '%s must return true exactly on the path that flips the bit' % fn.q)
        if incs and not any(n.get('k') == 'assign' and n.get('op') in ('|=', '&=') for n in fn.all_nodes()):
            R.bad(rule, '%s#%s' % (fn.q, size_f), fn.loc(incs[0]['id']), '%s changes %s without flipping a bit' % (fn.q, size_f))
    if flips < 2:
        R.bad(rule, ISD + '#set-and-clear-paths', '%s:%d' % (rec.file, rec.line), '%s: expected a bit-setting and a bit-clearing path, found %d' % (rec.full, flips))
    # set() adds through the checked path
    for fn in [f for f in fns if f.name == 'set']:
        setters = {f.usr for f in fns if any(n.get('k') == 'assign' and n.get('op') == '|=' for n in f.all_nodes())}
        cs = [n for n in fn.all_nodes() if n.get('k') == 'call' and n.get('u') in setters]
        ok = len(cs) == 1 and fn.params and cs[0].get('args') and U.ctext(fb, fn, cs[0]['args'][0]) == fn.params[0]['name'] \
            and U.must_pass(fn, fn.entry, [cs[0]['id']]) is None
        R.check(ok, rule, fn.q + '#delegates-to-counting-setter', fn.site, '%s must add its id through the size-counting setter on every path' % fn.q)


def _idset_copy(fb, R, rec, fns, T, data_f, size_f):
    rule = 'A6-idset-copy-keeps-chunk-slots'
    copies = [f for f in fns if f.kind == 'ctor' and len(f.params) == 1 and f.params[0]['tC'].startswith('const ') and f.params[0]['tC'].rstrip().endswith('&')]
    if not copies:
        R.broken('%s: copy constructor not instantiated' % rec.full)
    for fn in copies:
        key = fn.q + '(copy)'
        lps = []
        for lp in U.element_loops(fb, fn):
            fp = U._field_path(fn, lp['cont'])
            if fp is not None and fp[0] == ('param', 0) and fp[1] == (data_f,):
                lps.append(lp)
        ok = len(lps) == 1
        msg = 'no loop over the whole chunk vector of the source'
        if ok:
            lp = lps[0]
            l, cb = lp['loop'], lp['cb']
            emps = [n for n in fn.all_nodes() if n.get('k') == 'call' and n.get('q') in ('std::vector::emplace_back', 'std::vector::push_back')
                    and n.get('recv') is not None and fn.is_this_member(n['recv'], data_f) and fn.in_range(n['id'], l['b'], l['e'])]
            ids = {n['id'] for n in emps}
            why = U.loop_complete(fn, lp, ids) if emps else 'no slot is appended in the loop'
            ok = why is None
            msg = (why or '') + ' (an iteration that appends no slot shifts the chunk numbers of the copy)'
            if ok:
                twice = any(path_search(fn, e, lambda x: x in ids, lambda x: False, lambda b, i, s: b != cb['id']) is not None for e in ids)
                ok = not twice
                msg = 'an iteration can append two slots'
            if ok:
                # allocated copy exactly under the source pointer test
                for e in emps:
                    alloc = any(fn.nodes[x].get('k') == 'new' for x in fn.subtree(e['id']))
                    tested = None
                    for (c, s_, b_, o_) in U.guards(fn, e['id']):
                        nt = U.nonnull_test(fn, c)
                        if nt is not None and U.alias_root(fn, U.pointer_origin(fn, nt[0])) == lp['root']:
                            tested = (s_ == nt[1])
                    if tested is None or tested != alloc:
                        ok = False
                        msg = 'allocated / empty slot is not chosen by the source pointer test'
        R.check(ok, rule, key + '#one-slot-per-source-slot', fn.site, '%s: %s' % (fn.q, msg))
        inits = [n for n in fn.all_nodes() if n.get('k') == 'init' and n.get('name') == size_f and isinstance(n.get('init'), int)]
        ok = len(inits) == 1 and U._field_path(fn, inits[0]['init']) == (('param', 0), (size_f,))
        R.check(ok, rule, key + '#size-copied', fn.site, '%s must initialise %s from the source' % (fn.q, size_f))
    # swap exchanges every member, clear resets both
    names = {f['name'] for f in rec.fields}
    for fn in [f for f in fb.functions if f.name == 'swap' and f.has_cfg and len(f.params) == 2 and f.params[0]['tC'].startswith(rec.q)]:
        swapped = set()
        for n in fn.all_nodes():
            if n.get('k') == 'call' and n.get('q', '').rsplit('::', 1)[-1] == 'swap' and len(n.get('args', [])) == 2:
                a, b = U._field_path(fn, n['args'][0]), U._field_path(fn, n['args'][1])
                if a and b and {a[0], b[0]} == {('param', 0), ('param', 1)} and a[1] == b[1] and len(a[1]) == 1:
                    swapped.add(a[1][0])
        R.check(swapped == names, rule, fn.q + '(IdSetDense)#every-member', fn.site, 'swap exchanges %s but the class has members %s' % (sorted(swapped), sorted(names)))
    for fn in [f for f in fns if f.name == 'clear']:
        c = [n for n in fn.all_nodes() if n.get('k') == 'call' and n.get('q') == 'std::vector::clear' and n.get('recv') is not None and fn.is_this_member(n['recv'], data_f)]
        z = [n for n in fn.all_nodes() if n.get('k') == 'assign' and fn.is_this_member(n['lhs'], size_f) and fn.const_value(n['rhs']) == 0]
        ok = bool(c) and bool(z) and U.must_pass(fn, fn.entry, [c[0]['id']]) is None and U.must_pass(fn, fn.entry, [z[0]['id']]) is None
        R.check(ok, rule, fn.q + '#resets-chunks-and-size', fn.site, 'clear() must drop the chunks and zero %s' % size_f)


def _idset_iter(fb, R, rec, its, T):
    rule = 'A3-idset-iterator-skips'
    shift = T['kb'] + T['ko']
    nexts = [f for f in its if f.name == 'next']
    if not nexts:
        R.broken('%s: iterator next() not instantiated' % rec.full)
        return
    irec = next((r for r in fb.records_named(ISI) if [str(x).rstrip('UL') for x in r.targs[:2]] == [str(x).rstrip('UL') for x in rec.targs[:2]] and r.fields), None)
    for fn in nexts:
        # the position member: the one that is incremented
        incs = [n for n in fn.all_nodes() if n.get('k') == 'unop' and n.get('op') == '++' and fn.is_this_member(n['sub'])]
        if len(incs) != 1:
            R.broken('%s: expected one ++ on the position member' % fn.q)
            continue
        pos_f = fn.sn(incs[0]['sub'])['name']
        asg = [n for n in fn.all_nodes() if n.get('k') == 'assign' and fn.is_this_member(n['lhs'], pos_f)]
        jump = [n for n in asg if n.get('op') == '=']
        add = [n for n in asg if n.get('op') == '+=']
        msk = [n for n in asg if n.get('op') == '&=']
        # (a) missing chunk
        wr = [m_['id'] for m_ in asg] + [m_['id'] for m_ in incs]

        def follow(nid, use):
            """strip casts and names of locals that are initialised in the same iteration with no write to the position between their
            declaration and `use` (they name the value the position had / a value derived from it at that moment)."""
            x_ = U.strip_casts(fn, nid)
            hops = 0
            while hops < 4:
                hops += 1
                n_ = fn.nodes.get(x_)
                if n_ is None or n_.get('k') != 'var' or n_.get('vk') != 'local' or n_['d'] in U.assigned_vars(fn):
                    break
                i_ = U.local_init(fn, n_['d'])
                decl = next((m_ for m_ in fn.all_nodes() if m_.get('k') == 'decl' and any(v_['d'] == n_['d'] for v_ in m_['vars'])), None)
                if i_ is None or decl is None:
                    break
                # a write to the position between the declaration and the use (on a path that does not re-execute the declaration)?
                dirty = any(w_ != use and path_search(fn, decl['id'], lambda e: e == w_, lambda e: e == use) is not None
                            and path_search(fn, w_, lambda e: e == use, lambda e: e == decl['id']) is not None for w_ in wr)
                if dirty:
                    break
                x_ = U.strip_casts(fn, i_)
            return x_
        ok = len(jump) == 1
        if ok:
            J = jump[0]['id']
            x = fn.nodes.get(follow(jump[0]['rhs'], J))
            ok = x is not None and x.get('k') == 'binop' and x.get('op') == '<<' and fn.const_value(x['rhs']) == shift
            if ok:
                y = fn.nodes.get(follow(x['lhs'], J))
                ok = y is not None and y.get('k') == 'binop' and y.get('op') == '+' and fn.const_value(y['rhs']) == 1
                if ok:
                    c = fn.nodes.get(follow(y['lhs'], J))
                    ok = c is not None and c.get('k') == 'call' and c.get('u') == T['chunk'].usr and c.get('args') \
                        and fn.is_this_member(follow(c['args'][0], J), pos_f)
                    # under the null-chunk test
                    g = [(cc, s) for (cc, s, b, o) in U.guards(fn, jump[0]['id'])
                         if any(fn.nodes[z].get('q') == 'std::unique_ptr::(conv)' for z in fn.subtree(cc))]
                    ok = ok and any(not s for (cc, s) in g)
        R.check(ok, rule, fn.q + '#missing-chunk-jumps-to-next-chunk', fn.site if not jump else fn.loc(jump[0]['id']),
                '%s: for a missing chunk the position must become (chunk_id(pos) + 1) << %d' % (fn.q, shift))
        if ok:
            # the jump out of the last chunk is 2^W: the shift must be computed in, and stored into, a type that holds it
            W = T['W']
            xt = int_type(x.get('t'))
            yt = int_type(y.get('t'))
            if xt is not None and yt is not None and yt[1] < xt[1]:
                xt = yt     # `cid + 1` already computed in a narrower type
            pt = int_type((fn.sn(jump[0]['lhs']) or {}).get('t'))
            slots = 1 << (W - shift)
            reachable = slots * 8 <= (1 << 32)
            wide = xt is not None and pt is not None and min(xt[1] - (1 if xt[0] else 0), pt[1] - (1 if pt[0] else 0)) > W
            R.check(wide or not reachable, 'A2-idset-end-sentinel', fn.q + '#jump-behind-last-chunk-representable', fn.loc(jump[0]['id']),
                    '%s computes (chunk + 1) << %d in %s and stores it in %s: for the last chunk of %d-bit ids the result 2^%d wraps to 0 '
                    '(the iterator would restart / never reach end())' % (fn.q, shift, x.get('t'), (fn.sn(jump[0]['lhs']) or {}).get('t'), W, W),
                    'W=%d computed in %s' % (W, x.get('t')))
        # (b) zero byte
        ok = len(add) == 1 and len(msk) == 1
        if ok:
            step = 1 << T['kb']
            mv = fn.const_value(msk[0]['rhs'])
            W = T['W']
            ok = fn.const_value(add[0]['rhs']) == step and mv is not None and (mv & ((1 << W) - 1)) == (((1 << W) - 1) & ~(step - 1)) \
                and fn.elem_dominates(add[0]['id'], msk[0]['id']) and U.must_pass_after(fn, add[0]['id'], [msk[0]['id']], targets=[incs[0]['id']]) is None
            slot_ok = False
            for (cc, s, b, o) in U.guards(fn, add[0]['id']):
                p = U.cmp_parts(fn, cc)
                if p is not None and p[0] in ('==', '!=') and (fn.const_value(p[2]) == 0 or fn.const_value(p[1]) == 0) and ((p[0] == '==') == s):
                    slot_ok = True
            ok = ok and slot_ok
        R.check(ok, rule, fn.q + '#zero-byte-skips-to-next-byte', fn.site if not add else fn.loc(add[0]['id']),
                '%s: for a zero byte the position must advance by %d and then be rounded down to a multiple of %d' % (fn.q, 1 << T['kb'], 1 << T['kb']))
        # (c) loop: runs while pos != last and !get(pos)
        gs = U.guards(fn, incs[0]['id'])
        hasget = any((U.scn(fn, c) or {}).get('q') == ISD + '::get' and not s for (c, s, b, o) in gs)
        hasend = False
        for (c, s, b, o) in gs:
            p = U.cmp_parts(fn, c)
            if p is not None and p[0] in ('!=', '<') and s and (fn.is_this_member(p[1], pos_f) or fn.is_this_member(p[2], pos_f)):
                hasend = True
        inloop = any(fn.in_range(incs[0]['id'], l['b'], l['e']) for l in fn.loops)
        ok = hasget and hasend and inloop
        R.check(ok, rule, fn.q + '#searches-while-unset-and-before-end', fn.site, '%s must loop while the position is not the end and its bit is not set' % fn.q)
    # positions (members, constructor parameters) must hold the end sentinel 2^W of the last chunk
    W = T['W']
    reachable = (1 << (W - shift)) * 8 <= (1 << 32)

    def holds(t):
        it_ = int_type(t)
        return it_ is not None and it_[1] - (1 if it_[0] else 0) > W
    if irec is not None:
        ints = [f for f in irec.fields if int_type(f['tC']) is not None]
        R.check(len(ints) >= 2 and (all(holds(f['tC']) for f in ints) or not reachable), 'A2-idset-end-sentinel', ISI + '#position-members-hold-end-sentinel',
                '%s:%d' % (irec.file, irec.line),
                'the iterator keeps its position / end in %s: the end sentinel 2^%d of a %d-bit id set that uses its last chunk does not fit (wraps to 0)'
                % ([f['tC'] for f in ints], W, W), str([(f['name'], f['tC']) for f in ints]))
    for fn in [f for f in its if f.kind == 'ctor' and len(f.params) == 3]:
        ps = [p_ for p_ in fn.params if int_type(p_['tC']) is not None]
        R.check(len(ps) == 2 and (all(holds(p_['tC']) for p_ in ps) or not reachable), 'A2-idset-end-sentinel', fn.q + '#position-parameters-hold-end-sentinel', fn.site,
                'the iterator constructor receives position / end as %s: last() == 2^%d is truncated on the way in' % ([p_['tC'] for p_ in ps], W))
    for fn in [f for f in its if f.kind == 'operator' and f.name.startswith('operator++') and not f.params]:
        incs = [n for n in fn.all_nodes() if n.get('k') == 'unop' and n.get('op') == '++' and fn.is_this_member(n['sub'])]
        calls = [n for n in fn.all_nodes() if n.get('k') == 'call' and n.get('q') == ISI + '::next']
        ok = len(incs) == 1 and len(calls) == 1 and fn.elem_dominates(incs[0]['id'], calls[0]['id'])
        R.check(ok, rule, fn.q + '#advance-then-search', fn.site, 'operator++ must step past the current id before searching the next set bit')


# ------------------------------------------------------------------------------------------------ (2) sorted containers

_ARITH = ('unsigned int', 'unsigned long', 'unsigned long long', 'int', 'long', 'long long', 'unsigned short', 'short')
SCALAR_KEY = (('<value>',),)


def _key_of(fb, fn, rec):
    """(call, cont, et, key, lam) -> ordering key; arithmetic elements compare by value."""
    call, cont, et, key, lam = rec
    if key is None and lam is None and et in _ARITH:
        return SCALAR_KEY
    return key


def _eq_key(fb, et):
    """fields compared by operator== of the element type (None = unknown); arithmetic -> value."""
    if et in _ARITH:
        return SCALAR_KEY
    name = et
    while '<' in name:      # nested class of a template: strip the argument lists
        i = name.find('<')
        depth, j = 0, i
        while j < len(name):
            if name[j] == '<':
                depth += 1
            elif name[j] == '>':
                depth -= 1
                if depth == 0:
                    break
            j += 1
        name = name[:i] + name[j + 1:]
    keys = set()
    for f in fb.fns(name + '::operator=='):
        rets = _returns(f)
        if len(rets) != 1:
            return None
        p = U.cmp_parts(f, rets[0]['sub'])
        if p is None or p[0] != '==':
            return None
        tl, tr = U._tie_fields(f, p[1]), U._tie_fields(f, p[2])
        if tl is None or tr is None or tl[1] != tr[1] or (tl[0], tr[0]) != (('this',), ('param', 0)):
            return None
        keys.add(tuple(tl[1]))
    return keys.pop() if len(keys) == 1 else None


def ordered_rules(fb, R):
    r1, r2 = 'S1-search-key-prefix-of-sort-key', 'S2-sort-unique-erase'
    for cls in (FMAP, ISS):
        fns = [f for f in fb.functions if f.cls == cls and f.has_cfg and not f.is_lambda]
        if not fns:
            R.broken('no instantiation of %s' % cls)
            continue
        by_inst = {}
        for f in fns:
            by_inst.setdefault(f.clsT, []).append(f)
        for clsT, group in by_inst.items():
            sorts = [(f,) + rec for f in group for rec in U.ordered_calls(fb, f, U.SORTS)]
            for f in group:
                for rec in U.ordered_calls(fb, f, U.SEARCHES):
                    call, cont = rec[0], rec[1]
                    key = _key_of(fb, f, rec)
                    k1 = '%s#%s(%s)' % (f.q, call['q'].rsplit('::', 1)[-1], cont)
                    site = f.loc(call['id'])
                    if cont is None or key is None:
                        lam = rec[4]
                        rets = _returns(lam) if lam is not None else []
                        p = U.cmp_parts(lam, rets[0]['sub']) if len(rets) == 1 else None
                        if p is not None and p[0] != '<':
                            R.bad(r1, k1, site, '%s: the search comparator uses `%s` instead of the strict `<` the container is sorted by' % (f.q, p[0]))
                        else:
                            R.broken('%s: search of unknown shape at %s' % (f.q, site))
                        continue
                    mine = [s for s in sorts if s[2] == cont]
                    if not mine:
                        R.bad(r1, k1, site, '%s binary-searches %s but no method of the class sorts it' % (f.q, cont))
                    for s in mine:
                        skey = _key_of(fb, s[0], s[1:])
                        if skey is None:
                            R.broken('%s: sort comparator of unknown shape' % s[0].q)
                            continue
                        ok = len(key) <= len(skey) and tuple(skey[:len(key)]) == tuple(key)
                        R.check(ok, r1, k1, site, '%s searches %s by %s but %s sorts it by %s (search key must be a prefix of the sort key)'
                                % (f.q, cont, key, s[0].q, skey), 'search key %s, sort key %s' % (key, skey))
            # sort - unique - erase
            for f in group:
                for u in [n for n in f.all_nodes() if n.get('k') == 'call' and n.get('q') == 'std::unique']:
                    a = u.get('args', [])
                    rc = U._range_container(fb, f, a[0]) if a else None
                    key0 = '%s#unique' % f.q
                    site = f.loc(u['id'])
                    if rc is None or len(a) != 2:
                        R.broken('%s: std::unique over an unrecognised range / with a predicate' % f.q)
                        continue
                    cont, ct = rc
                    et = U.element_type(ct)
                    pre = [s for s in sorts if s[0] is f and s[2] == cont and f.elem_dominates(s[1]['id'], u['id'])]
                    ok = bool(pre)
                    msg = 'std::unique on %s is not preceded by std::sort of the same range (only adjacent duplicates are removed)' % cont
                    if ok:
                        skey = _key_of(fb, f, pre[0][1:])
                        ek = _eq_key(fb, et)
                        if skey is None or ek is None:
                            R.broken('%s: ordering / equality of %s not recognised' % (f.q, et))
                            continue
                        ok = set(skey) == set(ek)
                        msg = 'sorted by %s but duplicates are detected by equality over %s: equal elements need not be adjacent' % (skey, ek)
                    R.check(ok, r2, key0 + '-after-sort-with-same-key', site, '%s: %s' % (f.q, msg))
                    # result erased up to end()
                    d = None
                    for n in f.all_nodes():
                        if n.get('k') == 'decl':
                            for v in n['vars']:
                                if isinstance(v.get('init'), int) and u['id'] in f.subtree(v['init']):
                                    d = v['d']
                    er = [n for n in f.all_nodes() if n.get('k') == 'call' and n.get('q') == 'std::vector::erase' and n.get('recv') is not None
                          and U.ctext(fb, f, n['recv']) == cont and len(n.get('args', [])) == 2]
                    ok = False
                    for e in er:
                        s0 = [f.nodes[x] for x in f.subtree(e['args'][0])]
                        s1 = [f.nodes[x] for x in f.subtree(e['args'][1])]
                        vars0 = {x.get('d') for x in s0 if x.get('k') == 'var' and x.get('vk') in ('local', 'param')}
                        first = (vars0 == {d} and d is not None) or any(x['id'] == u['id'] for x in s0)
                        first = first and not any(x.get('k') in ('binop', 'unop') or (x.get('k') == 'call' and x.get('op') in ('+', '-', '++', '--')) for x in s0)
                        last = any(x.get('k') == 'call' and x.get('q', '').rsplit('::', 1)[-1] in ('end', 'cend') and x.get('recv') is not None
                                   and U.ctext(fb, f, x['recv']) == cont for x in s1) \
                            and not any(x.get('k') in ('binop', 'unop') or (x.get('k') == 'call' and x.get('op') in ('+', '-', '++', '--')) for x in s1)
                        if first and last and U.must_pass_after(f, u['id'], [e['id']]) is None:
                            ok = True
                    R.check(ok, r2, key0 + '-result-erased-to-end', site,
                            '%s: the tail returned by std::unique must be erased with %s.erase(result, %s.end()) on every path' % (f.q, cont, cont))


# ------------------------------------------------------------------------------------------------ (2) relations map

def _map_roots(fn, nid):
    """variable or this-member a map expression denotes (through std::move): ('field', name) | ('var', d) | None"""
    rv = fn.root_var(nid)
    if rv is None:
        return None
    if rv[0] == 'field':
        return ('field', rv[2])
    if rv[0] == 'var':
        return ('var', rv[1])
    return None


def _sorting_callee(fb, g, pidx):
    """static helper g leaves its parameter pidx sorted on every exit: the last modifying call on it is sort_unique."""
    if not g.has_cfg or pidx >= len(g.params):
        return False
    return _unsorted_path(fb, g, ('var', g.params[pidx]['d']), None) is None


def _events(fb, fn, root):
    """(sorting element ids, dirtying element ids) for the map `root` in fn."""
    sorting, dirty = set(), set()
    for n in fn.all_nodes():
        if n.get('k') != 'call':
            continue
        nm = n.get('q', '').rsplit('::', 1)[-1]
        if n.get('recv') is not None and n.get('rcls') == FMAP and _map_roots(fn, n['recv']) == root:
            if nm == 'sort_unique':
                sorting.add(n['id'])
            elif nm in ('set', 'flip_in_place'):
                dirty.add(n['id'])
            continue
        if n.get('rcls') in (STASH,) or n.get('q', '').startswith(STASH + '::'):
            for i, a in enumerate(n.get('args', [])):
                if a is not None and _map_roots(fn, a) == root:
                    g = U._callee_for(fb, fn, n)
                    if g is not None and _sorting_callee(fb, g, i):
                        sorting.add(n['id'])
                    elif g is not None and i < len(g.params) and not g.params[i]['tC'].startswith('const '):
                        dirty.add(n['id'])
    return sorting, dirty


def _unsorted_path(fb, fn, root, target):
    """witness path on which `root` reaches `target` (an element id; None = normal exit) without a sorting event after its last
    modification (function entry and the declaration of a local count as modifications)."""
    sorting, dirty = _events(fb, fn, root)
    tgt = (lambda e: e == target) if target is not None else U.is_exit
    bar = sorting | (U.throw_ids(fn) if target is None else set())
    w = path_search(fn, fn.entry, tgt, lambda e: e in bar, from_block_start=True)
    if w is not None:
        return w
    for dnode in dirty:
        w = path_search(fn, dnode, tgt, lambda e: e in bar)
        if w is not None:
            return [dnode] + w
    return None


def _fits32(fb, fn, nid):
    """canonical texts of the expressions known to be <= 2^32-1 when element nid executes (dominating tests against a constant)."""
    bounded = set()
    for (c, s, b, o) in U.guards(fn, nid):
        p = U.cmp_parts(fn, c)
        if p is None:
            continue
        op = p[0] if s else U.NEG[p[0]]
        for a, z, o2 in ((p[1], p[2], op), (p[2], p[1], U.FLIP[op])):
            zn = U.scn(fn, z)
            lim = fn.const_value(z)
            if lim is None and zn is not None and zn.get('k') == 'var' and zn.get('vk') == 'local' and zn['d'] not in U.assigned_vars(fn):
                init = U.local_init(fn, zn['d'])
                lim = fn.const_value(init) if init is not None else None
            if lim is not None and ((o2 == '<=' and lim <= 2 ** 32 - 1) or (o2 == '<' and lim <= 2 ** 32)):
                bounded.add(U.ctext(fb, fn, U.strip_casts(fn, a)))
    return bounded


def relmap_rules(fb, R):
    r1, r2, r3, r4 = 'R1-builders-hand-out-sorted-maps', 'R2-merge-appends-every-element', 'R3-narrow-store-guarded', 'R4-index-dispatch'
    srec = fb.record(STASH)
    irec = fb.record(RINDEX)
    if srec is None or irec is None:
        R.broken('RelationsMapStash / RelationsMapIndex records not found')
        return

    def width(f):
        # flat_map<K, KInternal, V, VInternal>: 32 when the internal types are 32 bit
        _n, a = U.template_args(f['tC'])
        if len(a) != 4:
            return None
        t = int_type({'uint32_t': 'unsigned int', 'std::uint32_t': 'unsigned int', 'uint64_t': 'unsigned long', 'std::uint64_t': 'unsigned long'}.get(a[1], a[1]))
        return t[1] if t is not None else None
    smaps = {f['name']: width(f) for f in srec.fields if f['tC'].startswith(FMAP)}
    imaps = {f['name']: width(f) for f in irec.fields if f['tC'].startswith(FMAP)}
    iflag = next((f['name'] for f in irec.fields if f['tC'] == 'bool'), None)
    if sorted(smaps.values()) != [32, 64] or sorted(imaps.values()) != [32, 64] or iflag is None:
        R.broken('RelationsMapStash / RelationsMapIndex: 32- and 64-bit maps / small flag not identified by type')
        return
    sfns = [f for f in fb.functions if f.cls == STASH and f.has_cfg and not f.is_lambda]

    # ---- R1 every map moved into an index is sorted
    nbuild = 0
    for fn in sfns:
        for c in fn.all_nodes():
            if c.get('k') != 'construct' or c.get('q') not in (RINDEX + '::(ctor)', RINDEXES + '::(ctor)') or c.get('copymove') or c.get('elidable'):
                continue
            args = [a for a in c.get('args', []) if a is not None]
            roots = [_map_roots(fn, a) for a in args]
            if not roots or any(r is None for r in roots):
                continue
            nbuild += 1
            for r in roots:
                nm = r[1] if r[0] == 'field' else next((m['name'] for m in fn.all_nodes() if m.get('k') == 'var' and m.get('d') == r[1]), '?')
                w = _unsorted_path(fb, fn, r, c['id'])
                R.check(w is None, r1, '%s#%s' % (fn.q, nm), fn.loc(c['id']),
                        '%s hands %s to the index although on some path it was not sort_unique()d after its last modification: %s'
                        % (fn.q, nm, describe_path(fn, w)))
    if nbuild == 0:
        R.broken('no RelationsMapIndex construction found in RelationsMapStash')

    # ---- R2 merge / flips visit every pair
    def complete_loop(fn, want_range, feeder):
        """one whole-container loop (range-for / iterator / index form) over want_range(expr id) whose every iteration passes a call
        accepted by feeder(call, element root)."""
        for lp in U.element_loops(fb, fn):
            if not want_range(fn, lp['cont']):
                continue
            l = lp['loop']
            calls = [n for n in fn.all_nodes() if n.get('k') == 'call' and fn.in_range(n['id'], l['b'], l['e']) and feeder(fn, n, lp['root'])]
            if not calls:
                continue
            why = U.loop_complete(fn, lp, {n['id'] for n in calls})
            if why is not None:
                return None, why
            return (l, lp['cb'], calls), None
        return None, 'no loop over the whole source map that transfers (key, value) of its element'

    def fields_of(fn, call, root):
        a = call.get('args', [])
        if len(a) != 2:
            return None
        f0, f1 = U._field_path(fn, a[0]), U._field_path(fn, a[1])
        if f0 is None or f1 is None or f0[0] != root or f1[0] != root or len(f0[1]) != 1 or len(f1[1]) != 1:
            return None
        return f0[1][0], f1[1][0]
    kv = None
    for r in fb.records_named(FMAP + '::kv_pair'):
        if len(r.fields) == 2:
            kv = (r.fields[0]['name'], r.fields[1]['name'])
    if kv is None:
        R.broken('flat_map::kv_pair record (two fields) not found')
        return
    for fn in [f for f in sfns if f.static and len(f.params) == 2 and all(FMAP in p['tC'] or 'rel_index_map_type' in p['tC'] for p in f.params)]:
        src, dst = fn.params[0], fn.params[1]
        res, msg = complete_loop(fn, lambda f, e: _map_roots(f, e) == ('var', src['d']),
                                 lambda f, n, var: n.get('q') == FMAP + '::set' and n.get('recv') is not None and _map_roots(f, n['recv']) == ('var', dst['d'])
                                 and fields_of(f, n, var) == kv)
        R.check(res is not None, r2, fn.q + '#every-pair-appended', fn.site, '%s: %s -- pairs of the 32-bit map would be missing from the 64-bit index' % (fn.q, msg))
        if res is not None:
            l, cb, calls = res
            sorting, _d = _events(fb, fn, ('var', dst['d']))
            after = [s for s in sorting if cb['id'] in fn.dominators().get(fn.positions()[s][0], ()) and not fn.in_range(s, l['b'], l['e'])]
            ok = bool(after) and U.must_pass(fn, cb['succs'][1], after) is None
            R.check(ok, r2, fn.q + '#sorted-after-append', fn.site, '%s must sort_unique() the 64-bit map after the append loop on every path' % fn.q)
            clr = [n for n in fn.all_nodes() if n.get('k') == 'call' and n.get('recv') is not None and _map_roots(fn, n['recv']) == ('var', src['d'])
                   and n.get('q', '').rsplit('::', 1)[-1] in ('clear', 'flip_in_place', 'set')]
            ok = all(cb['id'] in fn.dominators().get(fn.positions()[n['id']][0], ()) and not fn.in_range(n['id'], l['b'], l['e']) for n in clr)
            R.check(ok, r2, fn.q + '#source-untouched-until-copied', fn.site, '%s modifies the 32-bit map before / while it is copied' % fn.q)
    for fn in [f for f in fb.functions if f.cls == FMAP and f.has_cfg and f.name == 'flip_copy']:
        dst = None
        for n in fn.all_nodes():
            if n.get('k') == 'decl':
                for v in n['vars']:
                    if v['tC'].startswith(FMAP) and not v['name'].startswith('__'):
                        dst = v['d']
        res, msg = complete_loop(fn, lambda f, e: f.is_this_member(e),
                                 lambda f, n, var: n.get('q') == FMAP + '::set' and n.get('recv') is not None and _map_roots(f, n['recv']) == ('var', dst)
                                 and fields_of(f, n, var) == (kv[1], kv[0]))
        rets = _returns(fn)
        ok = res is not None and len(rets) == 1 and (fn.root_var(rets[0]['sub']) or (None, None))[:2] == ('var', dst)
        R.check(ok, r2, fn.q + '#every-pair-flipped', fn.site, '%s: %s' % (fn.q, msg or 'the flipped copy is not what is returned'))
    for fn in [f for f in fb.functions if f.cls == FMAP and f.has_cfg and f.name == 'flip_in_place']:
        def is_swap(f, n, var):
            if n.get('q', '').rsplit('::', 1)[-1] != 'swap' or len(n.get('args', [])) != 2:
                return False
            return {x for x in (fields_of(f, n, var) or ())} == set(kv)
        res, msg = complete_loop(fn, lambda f, e: f.is_this_member(e), is_swap)
        R.check(res is not None, r2, fn.q + '#every-pair-flipped', fn.site, '%s: %s' % (fn.q, msg))

    # ---- R3 narrow store guarded
    m32 = next(k for k, v in smaps.items() if v == 32)
    m64 = next(k for k, v in smaps.items() if v == 64)
    for fn in [f for f in sfns if f.name == 'add' and len(f.params) == 2]:
        sets32 = [n for n in fn.all_nodes() if n.get('k') == 'call' and n.get('q') == FMAP + '::set' and _map_roots(fn, n.get('recv')) == ('field', m32)]
        sets64 = [n for n in fn.all_nodes() if n.get('k') == 'call' and n.get('q') == FMAP + '::set' and _map_roots(fn, n.get('recv')) == ('field', m64)]
        ok = len(sets32) == 1 and len(sets64) == 1
        if ok:
            pn = [p['name'] for p in fn.params]
            okargs = all([U.ctext(fb, fn, a) for a in s['args']] == pn for s in sets32 + sets64)
            bounded = _fits32(fb, fn, sets32[0]['id'])
            ok = okargs and set(pn) <= bounded and U.must_pass(fn, fn.entry, [sets32[0]['id'], sets64[0]['id']]) is None
        R.check(ok, r3, fn.q + '#32-bit-map-only-for-small-ids', fn.site,
                '%s must store (member, parent) in the 32-bit map only when both ids are <= 2^32-1 (the pair is narrowed with static_cast) and in the 64-bit map otherwise' % fn.q)

    # ---- R4 index dispatch
    i32 = next(k for k, v in imaps.items() if v == 32)
    i64 = next(k for k, v in imaps.items() if v == 64)
    for fn in [f for f in fb.functions if f.cls == RINDEX and f.has_cfg and f.kind == 'ctor' and len(f.params) == 1 and FMAP in f.params[0]['tC'].replace('rel_index_map_type', FMAP)]:
        inits = {n.get('name'): n for n in fn.all_nodes() if n.get('k') == 'init' and isinstance(n.get('init'), int)}
        moved = [k for k in (i32, i64) if k in inits and fn.root_var(inits[k]['init']) is not None and fn.root_var(inits[k]['init'])[0] == 'var']
        ok = len(moved) == 1 and iflag in inits and fn.const_value(inits[iflag]['init']) == (1 if moved[0] == i32 else 0)
        R.check(ok, r4, '%s(%s)#flag-matches-map' % (fn.q, 'map32' if moved[:1] == [i32] else 'map64'), fn.site,
                'the RelationsMapIndex constructor must set %s exactly when it takes the 32-bit map' % iflag)
    def map_uses(fn):
        """[(node, map field)]: calls on a map member of the index, or calls that receive it as an argument (helper taking the map)."""
        out = []
        for n in fn.all_nodes():
            if n.get('k') != 'call':
                continue
            if n.get('recv') is not None and n.get('rcls') == FMAP:
                r = _map_roots(fn, n['recv'])
                if r is not None and r[0] == 'field' and r[1] in imaps:
                    out.append((n, r[1]))
                    continue
            if n.get('q') in ('std::move', 'std::forward'):
                continue
            for a_ in n.get('args', []) or []:
                r = _map_roots(fn, a_) if a_ is not None else None
                if r is not None and r[0] == 'field' and r[1] in imaps:
                    out.append((n, r[1]))
        return out

    def invocations(g):
        """calls of a functor parameter of g: [(call node, ok)] -- ok: argument is it->value, it runs over [P.first, P.second) of
        P = <map>.get(<id parameter>)"""
        out = []
        pd = {p_['d']: p_ for p_ in g.params}
        for n in g.all_nodes():
            if n.get('k') != 'call' or n.get('op') != '()' or not n.get('args'):
                continue
            rv = g.root_var(n.get('recv')) if n.get('recv') is not None else None
            if rv is None or rv[0] != 'var' or rv[1] not in pd:
                continue
            fp = U._field_path(g, n['args'][-1])
            ok = fp is not None and fp[1] == (kv[1],) and fp[0][0] == 'var'
            info = None
            if ok:
                init = U.local_init(g, fp[0][1])
                ip = U._field_path(g, init) if init is not None else None
                ok = ip is not None and ip[1] == ('first',) and ip[0][0] == 'var'
                bound = False
                for (c, s_, b_, o_) in U.guards(g, n['id']):
                    pp = U.cmp_parts(g, c)
                    if pp is not None and pp[0] == '!=' and s_:
                        for side in (pp[1], pp[2]):
                            q2 = U._field_path(g, side)
                            if q2 is not None and q2[1] == ('second',) and ip is not None and q2[0] == ip[0]:
                                bound = True
                ok = ok and bound
                if ok:
                    rinit = U.local_init(g, ip[0][1])
                    gc = U.scn(g, rinit) if rinit is not None else None
                    ok = gc is not None and gc.get('k') == 'call' and gc.get('q') == FMAP + '::get' and gc.get('recv') is not None and gc.get('args')
                    if ok:
                        mroot = _map_roots(g, gc['recv'])
                        idn = U.scn(g, gc['args'][0])
                        ok = mroot is not None and idn is not None and idn.get('k') == 'var' and idn.get('d') in pd
                        info = (mroot, idn.get('d') if idn is not None else None)
            out.append((n, ok, info))
        return out
    for fn in [f for f in fb.functions if f.cls == RINDEX and f.has_cfg and f.name in ('for_each', 'empty', 'size')]:
        uses = map_uses(fn)
        ok = {m for (_n, m) in uses} == {i32, i64}
        for (n, m) in uses:
            senses = set()
            for (c, s_, b_, o_) in U.guards(fn, n['id']):
                if fn.is_this_member(c, iflag):
                    senses.add(s_)
            if not senses:      # conditional operator: the guard is the condition of the enclosing ?:
                pm = fn.parent_map()
                x = n['id']
                while x in pm:
                    par = fn.nodes[pm[x]]
                    if par.get('k') == 'condop' and fn.is_this_member(par['cond'], iflag):
                        senses.add(x in fn.subtree(par['then']))
                    x = pm[x]
            ok = ok and senses == {m == i32}
        R.check(ok, r4, fn.q + '#dispatch-on-small-flag', fn.site, '%s must use the 32-bit map exactly when %s is set (and the 64-bit map otherwise)' % (fn.q, iflag))
        if fn.name == 'for_each':
            # R3 (lookups): the 32-bit map narrows its key; an id that does not fit must never reach it
            for (n, m) in uses:
                if m != i32:
                    continue
                idn = fn.params[0]['name'] if fn.params else '?'
                keys = [U.ctext(fb, fn, U.strip_casts(fn, a_)) for a_ in n.get('args', []) if a_ is not None]
                ok3 = idn in keys and idn in _fits32(fb, fn, n['id'])
                R.check(ok3, 'R3-narrow-lookup-guarded', fn.q + '#32-bit-map-looked-up-only-with-fitting-id', fn.loc(n['id']),
                        '%s hands the 64-bit id to the 32-bit map without a dominating test that it is <= 2^32-1: the key is narrowed, so the '
                        'lookup of 2^32 + k reports the entries of k' % fn.q)
            idp = fn.params[0] if fn.params else None
            good = idp is not None
            ninv = 0
            covered = set()
            for (n, ok_, info) in invocations(fn):
                ninv += 1
                good = good and ok_ and info is not None and info[0][0] == 'field' and info[1] == idp['d']
                if info is not None and info[0][0] == 'field':
                    covered.add(info[0][1])
            for (n, m) in uses:
                if n.get('rcls') == FMAP and n.get('recv') is not None:
                    continue
                # the map is handed to a helper of the class: its body must do the iteration for (that map, our id)
                g = U._callee_for(fb, fn, n)
                if g is None or not g.has_cfg or g.cls != RINDEX:
                    good = False
                    continue
                binds = {}
                for i_, a_ in enumerate(n.get('args', [])):
                    if a_ is not None and i_ < len(g.params):
                        binds[g.params[i_]['d']] = a_
                inv = invocations(g)
                if not inv:
                    good = False
                for (n2, ok_, info) in inv:
                    ninv += 1
                    okb = ok_ and info is not None and info[0][0] == 'var' and info[0][1] in binds and info[1] in binds \
                        and _map_roots(fn, binds[info[0][1]]) == ('field', m) and U.ctext(fb, fn, binds[info[1]]) == idp['name']
                    # the functor parameter of the helper receives our functor
                    good = good and okb
                    if okb:
                        covered.add(m)
            good = good and ninv >= 1 and covered == {i32, i64}
            R.check(good, r4, fn.q + '#calls-func-with-value-of-whole-range', fn.site,
                    'for_each must call the functor with it->%s for every element of [range.first, range.second) of <map>.get(id), for both maps '
                    '(directly or through a helper of the class that receives the map and the id)' % kv[1])
    # ---- R5 the pair of indexes: argument -> member routing
    r5 = 'R5-indexes-argument-routing'
    xrec = fb.record(RINDEXES)
    xfields = [f['name'] for f in xrec.fields] if xrec is not None else []
    accessor = {}     # public accessor name -> member it returns
    for fn in [f for f in fb.functions if f.cls == RINDEXES and f.has_cfg and f.kind == 'method' and not f.params and len(_returns(f)) == 1]:
        m_ = fn.sn(_returns(fn)[0]['sub'])
        if m_ is not None and m_.get('k') == 'member' and m_.get('name') in xfields:
            accessor[fn.name] = m_['name']
    routes = {}
    for fn in [f for f in fb.functions if f.cls == RINDEXES and f.has_cfg and f.kind == 'ctor' and len(f.params) == 2]:
        route = {}
        for n in fn.all_nodes():
            if n.get('k') == 'init' and n.get('name') in xfields and isinstance(n.get('init'), int):
                ps = {i_ for i_, p_ in enumerate(fn.params) if p_['d'] in U.vars_in(fn, n['init'])}
                route[n['name']] = tuple(sorted(ps))
        routes[fn.params[0]['tC']] = (fn, route)
    if len(routes) < 2 or len(xfields) != 2:
        R.broken('RelationsMapIndexes: two members / two two-argument constructors expected')
    else:
        ref = None
        for t_, (fn, route) in sorted(routes.items()):
            ok = sorted(route.values()) == [(0,), (1,)]
            if ok and ref is None:
                ref = route
            R.check(ok and route == ref, r5, '%s(%s)#same-parameter-to-same-member' % (fn.q, 'map32' if 'unsigned int' in t_ or 'uint32' in t_ else 'map64'), fn.site,
                    'the RelationsMapIndexes constructors must route parameter 1 and 2 to the same members (%s vs %s): with the other width the two '
                    'directions would answer for each other' % (route, ref))
        # the call sites fix the meaning: (as recorded = member -> parent, flipped = parent -> member)
        first_member = next((k for k, v in (ref or {}).items() if v == (0,)), None)
        for fn in sfns:
            for c in fn.all_nodes():
                if c.get('k') != 'construct' or c.get('q') != RINDEXES + '::(ctor)' or c.get('copymove') or c.get('elidable') or len(c.get('args', [])) != 2:
                    continue
                def flipped(a_):
                    r_ = _map_roots(fn, a_)
                    if r_ is None:
                        return None
                    if r_[0] == 'var':
                        init = U.local_init(fn, r_[1])
                        x_ = U.scn(fn, init) if init is not None else None
                        return x_ is not None and x_.get('k') == 'call' and x_.get('q') == FMAP + '::flip_copy'
                    return any(n.get('k') == 'call' and n.get('q') == FMAP + '::flip_in_place' and _map_roots(fn, n.get('recv')) == r_ for n in fn.all_nodes())
                f0, f1 = flipped(c['args'][0]), flipped(c['args'][1])
                R.check(f0 is False and f1 is True, r5, '%s#passes-recorded-then-flipped' % fn.q, fn.loc(c['id']),
                        '%s must construct the pair of indexes from (map as recorded, flipped map) in this order' % fn.q)
        R.check(accessor.get('member_to_parent') == first_member and first_member is not None and accessor.get('parent_to_member') not in (None, first_member),
                r5, RINDEXES + '#accessors-match-routing', '%s:%d' % (xrec.file, xrec.line),
                'member_to_parent() must return the index built from the first constructor argument (the map as recorded: key = member) and '
                'parent_to_member() the other one; found accessors %s, routing %s' % (accessor, ref))

    for fn in [f for f in sfns if f.name == 'add_members']:
        adds = [n for n in fn.all_nodes() if n.get('k') == 'call' and n.get('q') == STASH + '::add' and len(n.get('args', [])) == 2]
        ok = len(adds) == 1
        if ok:
            lps = [lp for lp in U.element_loops(fb, fn) if fn.in_range(adds[0]['id'], lp['loop']['b'], lp['loop']['e'])]
            root = lps[0]['root'] if lps else None
            a0 = U.alias_root(fn, adds[0]['args'][0])
            a1 = U.alias_root(fn, adds[0]['args'][1])
            ok = root is not None and a0 == root and a1 == ('param', 0) and U.loop_leaks(fn, lps[0]['cb']) is False
            typed = any(any(fn.nodes[x].get('q', '').endswith('item_type::relation') for x in fn.subtree(c)) and s for (c, s, b, o) in U.guards(fn, adds[0]['id']))
            ok = ok and typed
            # the ids are handed over as unsigned values: no implicit signed -> unsigned conversion (a negative ref would become ~2^64)
            for a_ in adds[0]['args']:
                x_ = a_
                while x_ is not None and fn.nodes[x_].get('k') in ('wrap', 'icast'):
                    m_ = fn.nodes[x_]
                    if m_.get('k') == 'icast' and m_.get('ck') == 'IntegralCast':
                        src, dst = int_type(fn.nodes[m_['sub']].get('t')), int_type(m_.get('t'))
                        if src is not None and dst is not None and src[0] and not dst[0]:
                            ok = False
                    x_ = m_.get('sub')
        R.check(ok, r4, fn.q + '#records-member-then-parent', fn.site,
                'add_members must call add(member id, parent id) with the unsigned (positive_*) ids for every member of type relation')


# ------------------------------------------------------------------------------------------------ (3) item stash

def itemstash_rules(fb, R):
    r1, r2, r3 = 'I1-remove-pairs-updates', 'I2-gc-rewrites-index', 'I3-handle-discipline'
    rec = fb.record(ITEMSTASH)
    if rec is None:
        R.broken('record %s not found' % ITEMSTASH)
        return
    buf_f = next((f['name'] for f in rec.fields if f['tC'] == 'osmium::memory::Buffer'), None)
    idx_f = next((f['name'] for f in rec.fields if f['tC'].startswith('std::vector<unsigned long')), None)
    counters = [f['name'] for f in rec.fields if f['tC'] == 'unsigned long']
    if buf_f is None or idx_f is None or len(counters) != 2:
        R.broken('ItemStash: buffer / index / two counters not identified by type (%s)' % [(f['name'], f['tC']) for f in rec.fields])
        return
    fns = [f for f in fb.functions if f.cls == ITEMSTASH and f.has_cfg and not f.is_lambda]
    byname = {}
    for f in fns:
        byname.setdefault(f.name, []).append(f)
    # roles of the counters: size() returns the live count, count_removed() the other; fall back to the names of the getters' fields
    live = removed = None
    for f in fns:
        if f.kind == 'method' and not f.params and len(_returns(f)) == 1 and f.const:
            m = f.sn(_returns(f)[0]['sub'])
            if m is not None and m.get('k') == 'member' and m.get('name') in counters:
                if f.name == 'size':
                    live = m['name']
                elif f.name == 'count_removed':
                    removed = m['name']
    if live is None or removed is None or live == removed:
        R.broken('ItemStash: size() / count_removed() do not identify the two counters')
        return
    SENTINELS = (2 ** 64 - 1, -1)    # a value no buffer offset can take (SIZE_MAX)

    def counter_ops(fn, name):
        return [n for n in fn.all_nodes() if (n.get('k') == 'unop' and n.get('op') in ('++', '--') and fn.is_this_member(n['sub'], name))
                or (n.get('k') == 'assign' and fn.is_this_member(n['lhs'], name))]

    # ---- I1 remove_item
    for fn in byname.get('remove_item', []):
        key = fn.q
        setr = [n for n in fn.all_nodes() if n.get('k') == 'call' and n.get('q') == 'osmium::memory::Item::set_removed' and n.get('args') and fn.const_value(n['args'][0]) == 1]
        ok = len(setr) == 1 and U.must_pass(fn, fn.entry, [setr[0]['id']]) is None
        offv = None
        if ok:
            # the item is the one at the handle's offset: item = m_buffer.get<Item>(offset), offset = ref into m_index for this handle
            iv = U.scn(fn, setr[0]['recv'])
            init = U.local_init(fn, iv['d']) if iv is not None and iv.get('k') == 'var' else None
            g = U.scn(fn, init) if init is not None else None
            ok = g is not None and g.get('k') == 'call' and g.get('q') == 'osmium::memory::Buffer::get' and fn.is_this_member(g['recv'], buf_f) and g.get('args')
            if ok:
                ov = U.scn(fn, g['args'][0])
                ok = ov is not None and ov.get('k') == 'var'
                if ok:
                    offv = ov['d']
                    oi = U.scn(fn, U.local_init(fn, offv))
                    ok = oi is not None and oi.get('k') == 'call' and oi.get('args') and fn.params \
                        and any(a_ is not None and fn.params[0]['d'] in U.vars_in(fn, a_) for a_ in oi['args']) \
                        and (oi.get('rcls') == ITEMSTASH or (oi.get('op') == '[]' and oi.get('recv') is not None and fn.is_this_member(oi['recv'], idx_f)))
        R.check(ok, r1, key + '#marks-the-handles-item-removed', fn.site,
                'remove_item must call set_removed(true) on the buffer item found at the offset stored for its handle, on every path')
        asg = [n for n in fn.all_nodes() if n.get('k') == 'assign' and n.get('op') == '=' and (U.scn(fn, n['lhs']) or {}).get('d') == offv and offv is not None]
        okv = bool(asg) and all(fn.const_value(a['rhs']) in SENTINELS for a in asg)
        # the slot may be overwritten only once the item reference was taken from the old offset
        reads = [n for n in fn.all_nodes() if n.get('k') == 'call' and n.get('q') == 'osmium::memory::Buffer::get' and n.get('args')
                 and (U.scn(fn, n['args'][0]) or {}).get('d') == offv and offv is not None]
        # the store must reach the slot of the index vector: the local is a reference to it (not a copy of the offset)
        is_alias = offv is not None and U._decl_type(fn, offv).rstrip().endswith('&') and not U._decl_type(fn, offv).lstrip().startswith('const ')
        ok = bool(asg) and okv and is_alias and U.must_pass(fn, fn.entry, [a['id'] for a in asg]) is None \
            and all(all(fn.elem_dominates(r['id'], a['id']) for r in reads) for a in asg)
        R.check(ok, r1, key + '#index-slot-gets-sentinel', fn.site,
                'remove_item must overwrite the index slot with removed_item_offset after using it (garbage collection matches live slots by offset)')
        for (name, op, sub) in ((live, '--', 'live-count-decremented'), (removed, '++', 'removed-count-incremented')):
            # the update may sit in a helper of the class that performs it exactly once on every path
            sites = []      # (node id in fn, number of updates it stands for, all of the right kind)
            for o_ in counter_ops(fn, name):
                sites.append((o_['id'], 1, o_.get('k') == 'unop' and o_['op'] == op))
            for c_ in fn.all_nodes():
                if c_.get('k') == 'call' and c_.get('rcls') == ITEMSTASH and 'u' in c_ and (fn.sn(c_['recv']) or {}).get('k') == 'this' if c_.get('recv') is not None else False:
                    g = U._callee_for(fb, fn, c_)
                    if g is None or not g.has_cfg or g.id == fn.id:
                        continue
                    inner = counter_ops(g, name)
                    if inner:
                        once = len(inner) == 1 and U.must_pass(g, g.entry, [inner[0]['id']]) is None
                        sites.append((c_['id'], 1 if once else 2, all(i.get('k') == 'unop' and i['op'] == op for i in inner)))
            ok = len(sites) == 1 and sites[0][1] == 1 and sites[0][2] and U.must_pass(fn, fn.entry, [sites[0][0]]) is None
            R.check(ok, r1, '%s#%s' % (key, sub), fn.site, 'remove_item must %s %s exactly once on every path' % (op, name))
    if not byname.get('remove_item'):
        R.broken('ItemStash::remove_item not found')

    # ---- I2 garbage collection
    helper_cls = None
    for fn in byname.get('garbage_collect', []):
        key = fn.q
        z = [n for n in fn.all_nodes() if n.get('k') == 'assign' and fn.is_this_member(n['lhs'], removed) and fn.const_value(n['rhs']) == 0]
        R.check(bool(z) and U.must_pass(fn, fn.entry, [z[0]['id']]) is None and not counter_ops(fn, live), r2, key + '#removed-count-reset', fn.site,
                'garbage_collect must reset %s (and leave %s alone)' % (removed, live))
        pc = [n for n in fn.all_nodes() if n.get('k') == 'call' and n.get('q') == 'osmium::memory::Buffer::purge_removed' and fn.is_this_member(n.get('recv'), buf_f)]
        ok = len(pc) == 1 and len(pc[0].get('args', [])) == 1 and U.must_pass(fn, fn.entry, [pc[0]['id']]) is None
        if ok:
            a = U.scn(fn, pc[0]['args'][0])
            ok = a is not None and a.get('k') == 'unop' and a.get('op') == '&'
            hv = U.scn(fn, a['sub']) if ok else None
            ok = ok and hv is not None and hv.get('k') == 'var'
            if ok:
                init = U.local_init(fn, hv['d'])
                c = fn.nodes.get(fn.strip(init)) if init is not None else None
                ok = c is not None and c.get('k') == 'construct' and c.get('args') and fn.is_this_member(c['args'][0], idx_f)
                helper_cls = c.get('rcls') if ok else None
        R.check(ok, r2, key + '#purge-with-helper-bound-to-index', fn.site,
                'garbage_collect must call %s.purge_removed(&helper) with a helper constructed from %s (offsets of moved items are rewritten there)' % (buf_f, idx_f))
    if not byname.get('garbage_collect'):
        R.broken('ItemStash::garbage_collect not found')
    if helper_cls:
        hrec = fb.record(helper_cls)
        hidx = next((f['name'] for f in hrec.fields if f.get('is_ref') or f['tC'].rstrip().endswith('&')), None) if hrec else None
        hpos = next((f['name'] for f in hrec.fields if f['tC'] == 'unsigned long'), None) if hrec else None
        for fn in fb.fns(helper_cls + '::(ctor)'):
            if len(fn.params) != 1:
                continue
            inits = [n for n in fn.all_nodes() if n.get('k') == 'init' and n.get('name') == hidx and isinstance(n.get('init'), int)]
            ok = len(inits) == 1 and (fn.root_var(inits[0]['init']) or (None, None))[:2] == ('var', fn.params[0]['d'])
            R.check(ok, r2, fn.q + '#binds-the-index', fn.site, 'cleanup_helper must keep a reference to the index vector it is given')
        for fn in fb.fns(helper_cls + '::moving_in_buffer'):
            key = fn.q
            old_p, new_p = (fn.params + [None, None])[:2]
            asg = [n for n in fn.all_nodes() if n.get('k') == 'assign' and n.get('op') == '=' and (U.scn(fn, n['lhs']) or {}).get('op') == '[]']
            ok = hidx is not None and hpos is not None and old_p is not None and new_p is not None and len(asg) == 1
            if ok:
                a = asg[0]
                lhs = U.scn(fn, a['lhs'])

                def is_cursor(nid, cur):
                    return fn.is_this_member(nid, hpos) if cur == ('member',) else ((U.scn(fn, nid) or {}).get('k') == 'var' and U.scn(fn, nid).get('d') == cur[1])
                # the cursor: the position member itself, or a local copy of it that is only ever incremented
                cx = U.scn(fn, lhs['args'][0]) if lhs.get('args') else None
                cur = None
                if cx is not None and fn.is_this_member(lhs['args'][0], hpos):
                    cur = ('member',)
                elif cx is not None and cx.get('k') == 'var' and cx.get('vk') == 'local':
                    init = U.local_init(fn, cx['d'])
                    writes = [n for n in fn.all_nodes() if (n.get('k') == 'assign' and (U.scn(fn, n['lhs']) or {}).get('d') == cx['d'])
                              or (n.get('k') == 'unop' and n.get('op') in ('++', '--') and (U.scn(fn, n['sub']) or {}).get('d') == cx['d'])]
                    if init is not None and fn.is_this_member(init, hpos) and all(w.get('k') == 'unop' and w['op'] == '++' for w in writes):
                        cur = ('local', cx['d'])
                ok = cur is not None and fn.is_this_member(lhs['recv'], hidx) and (U.scn(fn, a['rhs']) or {}).get('d') == new_p['d']
                if ok:
                    # reached only when index[cursor] == old_offset
                    good = False
                    for (c, s, b, o) in U.guards(fn, a['id']):
                        p = U.cmp_parts(fn, c)
                        if p is None or p[0] not in ('==', '!='):
                            continue
                        op = p[0] if s else U.NEG[p[0]]
                        for x, y in ((p[1], p[2]), (p[2], p[1])):
                            xn, yn = U.scn(fn, x), U.scn(fn, y)
                            if xn is not None and xn.get('k') == 'call' and xn.get('op') == '[]' and fn.is_this_member(xn['recv'], hidx) \
                                    and is_cursor(xn['args'][0], cur) and yn is not None and yn.get('d') == old_p['d'] and op == '==':
                                good = True
                    ok = good
                if ok:
                    # after the store the position member is one past the rewritten slot, on every path
                    adv = []
                    for n in fn.all_nodes():
                        if cur == ('member',) and n.get('k') == 'unop' and n.get('op') == '++' and fn.is_this_member(n['sub'], hpos) and fn.elem_dominates(a['id'], n['id']):
                            adv.append(n['id'])
                        if n.get('k') == 'assign' and n.get('op') == '=' and fn.is_this_member(n['lhs'], hpos) and fn.elem_dominates(a['id'], n['id']):
                            r_ = U.scn(fn, n['rhs'])
                            if r_ is not None and r_.get('k') == 'binop' and r_.get('op') == '+' and fn.const_value(r_['rhs']) == 1 and is_cursor(r_['lhs'], cur):
                                adv.append(n['id'])
                            elif cur[0] == 'local' and r_ is not None and r_.get('k') == 'var' and r_.get('d') == cur[1]:
                                # m_pos = pos; after a ++pos that follows the store
                                if any(m_.get('k') == 'unop' and m_.get('op') == '++' and (U.scn(fn, m_['sub']) or {}).get('d') == cur[1]
                                       and fn.elem_dominates(a['id'], m_['id']) and fn.elem_dominates(m_['id'], n['id']) for m_ in fn.all_nodes()):
                                    adv.append(n['id'])
                    ok = bool(adv) and U.must_pass_after(fn, a['id'], adv) is None
            R.check(ok, r2, key + '#rewrites-the-matching-slot', fn.site,
                    'moving_in_buffer must advance to the slot whose value equals old_offset, store new_offset there and step past it')
    for fn in [f for f in fb.fns('osmium::memory::Buffer::purge_removed') if f.params]:
        key = fn.q + '(callback)'
        cbs = [n for n in fn.all_nodes() if n.get('k') == 'call' and n.get('q', '').rsplit('::', 1)[-1] == 'moving_in_buffer' and len(n.get('args', [])) == 2
               and (fn.root_var(n.get('recv')) or (None, None))[:2] == ('var', fn.params[0]['d'])]
        mm = [n for n in fn.all_nodes() if n.get('k') == 'call' and n.get('q') in ('memmove', 'memcpy') and len(n.get('args', [])) == 3]
        ok = len(cbs) == 1 and len(mm) == 1 and fn.elem_dominates(cbs[0]['id'], mm[0]['id'])
        if ok:
            def iter_of(nid):
                # offset expression: (it.data() - data()), possibly through a local
                x = U.scn(fn, nid)
                if x is not None and x.get('k') == 'var' and x.get('vk') == 'local' and x['d'] not in U.assigned_vars(fn):
                    init = U.local_init(fn, x['d'])
                    x = U.scn(fn, init) if init is not None else None
                if x is None or x.get('k') != 'binop' or x.get('op') != '-':
                    return None
                l, r = U.scn(fn, x['lhs']), U.scn(fn, x['rhs'])
                if l is None or r is None or l.get('k') != 'call' or r.get('k') != 'call' or l.get('recv') is None:
                    return None
                if r.get('q') != 'osmium::memory::Buffer::data' or not l.get('q', '').endswith('::data'):
                    return None
                rv = fn.root_var(l['recv'])
                return rv[1] if rv is not None and rv[0] == 'var' else None
            src = fn.root_var(U.scn(fn, mm[0]['args'][1])['recv']) if (U.scn(fn, mm[0]['args'][1]) or {}).get('recv') is not None else None
            dst = fn.root_var(U.scn(fn, mm[0]['args'][0])['recv']) if (U.scn(fn, mm[0]['args'][0]) or {}).get('recv') is not None else None
            o, nw = iter_of(cbs[0]['args'][0]), iter_of(cbs[0]['args'][1])
            ok = src is not None and dst is not None and o is not None and nw is not None and o == src[1] and nw == dst[1] and o != nw
        R.check(ok, r2, key + '#callback-before-move-with-read-and-write-offsets', fn.site,
                'purge_removed(callback) must call callback->moving_in_buffer(offset of the item read, offset it is written to) before the memmove')

    # ---- I3 handles
    hfns = fb.fns(ITEMSTASH + '::handle_type::(ctor)')
    valued = [f for f in hfns if len(f.params) == 1 and 'handle_type' not in f.params[0]['tC']]
    if not valued:
        hrec2 = fb.record(ITEMSTASH + '::handle_type')
        ms = [m for m in (hrec2.methods if hrec2 else []) if m.get('kind') == 'ctor' and len(m.get('params', [])) == 1 and 'handle_type' not in m['params'][0]]
        for m in ms:
            R.check(m.get('access') == 'private', r3, ITEMSTASH + '::handle_type::(ctor)#value-constructor-private', '%s:%s' % (hrec2.file, m.get('l')),
                    'handle_type(std::size_t) must be private: only the ItemStash may mint valid handles')
        if not ms:
            R.broken('handle_type value constructor not found')
    for f in valued:
        R.check(f.access == 'private', r3, f.q + '#value-constructor-private', f.site, 'handle_type(std::size_t) must be private: only the ItemStash may mint valid handles')
    for fn in byname.get('add_item', []):
        key = fn.q
        gcs = [n for n in fn.all_nodes() if n.get('k') == 'call' and n.get('q') == ITEMSTASH + '::garbage_collect']
        pushes = [n for n in fn.all_nodes() if n.get('k') == 'call' and n.get('q') in ('std::vector::push_back', 'std::vector::emplace_back') and fn.is_this_member(n.get('recv'), idx_f)]
        adds = [n for n in fn.all_nodes() if n.get('k') == 'call' and n.get('q') == 'osmium::memory::Buffer::add_item' and fn.is_this_member(n.get('recv'), buf_f)]
        commits = [n for n in fn.all_nodes() if n.get('k') == 'call' and n.get('q') == 'osmium::memory::Buffer::commit' and fn.is_this_member(n.get('recv'), buf_f)]
        ok = len(pushes) == 1 and len(adds) == 1 and len(commits) >= 1
        if ok:
            pv = U.scn(fn, pushes[0]['args'][0])
            ok = pv is not None and pv.get('k') == 'var' and pv.get('vk') == 'local' and pv['d'] not in U.assigned_vars(fn)
            if ok:
                init = U.local_init(fn, pv['d'])
                c = U.scn(fn, init)
                decl = next(n for n in fn.all_nodes() if n.get('k') == 'decl' and any(v['d'] == pv['d'] for v in n['vars']))
                ok = c is not None and c.get('k') == 'call' and c.get('q') == 'osmium::memory::Buffer::committed' and fn.is_this_member(c.get('recv'), buf_f)
                # read after any collection, before the buffer changes
                ok = ok and all(path_search(fn, decl['id'], lambda e: e == g['id'], lambda e: False) is None for g in gcs)
                ok = ok and fn.elem_dominates(decl['id'], adds[0]['id']) and fn.elem_dominates(adds[0]['id'], pushes[0]['id']) \
                    and any(fn.elem_dominates(adds[0]['id'], cm['id']) for cm in commits) \
                    and U.must_pass(fn, fn.entry, [pushes[0]['id']]) is None and U.must_pass(fn, fn.entry, [cm['id'] for cm in commits]) is None
        R.check(ok, r3, key + '#offset-read-then-item-added-then-indexed', fn.site,
                'add_item must read %s.committed() after a possible garbage collection and before adding the item, add and commit the item, and push that offset on %s' % (buf_f, idx_f))
        rets = _returns(fn)
        ok = len(rets) == 1 and len(pushes) == 1
        if ok:
            c = fn.nodes.get(fn.strip(rets[0]['sub']))
            hops = 0
            while c is not None and c.get('k') == 'construct' and c.get('rcls', '').endswith('handle_type') and len(c.get('args', [])) == 1 and hops < 3 \
                    and (fn.sn(c['args'][0]) or {}).get('k') == 'construct':
                c = fn.sn(c['args'][0])
                hops += 1
            a = U.scn(fn, c['args'][0]) if c is not None and c.get('k') == 'construct' and c.get('args') else None
            anchor = a
            if a is not None and a.get('k') == 'var' and a.get('vk') == 'local' and a['d'] not in U.assigned_vars(fn) and U.local_init(fn, a['d']) is not None:
                # named local: the size is read where the local is initialised; nothing may be pushed between that and the return
                a = U.scn(fn, U.local_init(fn, a['d']))
                anchor = a
            ok = a is not None and a.get('k') == 'call' and a.get('q') == 'std::vector::size' and fn.is_this_member(a.get('recv'), idx_f) \
                and fn.elem_dominates(pushes[0]['id'], anchor['id']) \
                and path_search(fn, anchor['id'], lambda e: e == pushes[0]['id'], lambda e: False) is None
        R.check(ok, r3, key + '#handle-is-index-size-after-push', fn.site, 'add_item must return handle_type{%s.size()} taken after the push (1-based slot number)' % idx_f)
        ops = counter_ops(fn, live)
        ok = len(ops) == 1 and ops[0].get('op') == '++' and U.must_pass(fn, fn.entry, [ops[0]['id']]) is None
        R.check(ok, r3, key + '#live-count-incremented', fn.site, 'add_item must ++%s exactly once on every path' % live)
    # lookups by role: every ItemStash method that takes a handle and indexes the index vector (helpers or inlined into their callers)
    nlook = 0
    lookup_ok = True
    lookup_site = rec.file + ':%d' % rec.line
    for fn in fns:
        hp = [p_ for p_ in fn.params if p_['tC'].replace('const ', '').strip().rstrip('&').strip().endswith('handle_type')]
        if not hp:
            continue
        accs = []
        for (a, c, i) in U.vector_accesses(fb, fn):
            fp = U._field_path(fn, c)      # the index vector of this stash, or of the stash handed to a static helper
            if fp is not None and fp[1] == (idx_f,) and fp[0][0] in ('this', 'param'):
                accs.append((a, c, i))
        if not accs:
            continue
        nlook += 1
        for (a, c, i) in accs:
            x = U.scn(fn, i)
            good = x is not None and x.get('k') == 'binop' and x.get('op') == '-' and fn.const_value(x['rhs']) == 1 \
                and (fn.root_var(x['lhs']) or (None, None))[:2] == ('var', hp[0]['d'])
            if not good:
                lookup_ok = False
                lookup_site = fn.loc(a['id'])
    if nlook:
        R.check(lookup_ok, r3, ITEMSTASH + '#slot-is-handle-value-minus-one', lookup_site,
                'every lookup must read %s[handle.value - 1] (handles are 1-based slot numbers)' % idx_f)
    if nlook == 0:
        R.broken('ItemStash: no method that resolves a handle through %s found' % idx_f)
    for fn in byname.get('clear', []):
        c1 = [n for n in fn.all_nodes() if n.get('k') == 'call' and n.get('q') == 'osmium::memory::Buffer::clear' and fn.is_this_member(n.get('recv'), buf_f)]
        c2 = [n for n in fn.all_nodes() if n.get('k') == 'call' and n.get('q') == 'std::vector::clear' and fn.is_this_member(n.get('recv'), idx_f)]
        z = {nm: [n for n in fn.all_nodes() if n.get('k') == 'assign' and fn.is_this_member(n['lhs'], nm) and fn.const_value(n['rhs']) == 0] for nm in (live, removed)}
        parts = [c1, c2, z[live], z[removed]]
        ok = all(parts) and all(U.must_pass(fn, fn.entry, [p[0]['id']]) is None for p in parts)
        R.check(ok, r3, fn.q + '#resets-buffer-index-and-counters', fn.site, 'clear() must clear the buffer and the index and zero both counters')
    # ---- I4 no buffer position survives a compaction (STALE idea applied to offsets)
    r4 = 'I4-no-stale-buffer-offset'
    POSITIONS = ('osmium::memory::Buffer::committed', 'osmium::memory::Buffer::written')
    COMPACTORS = ('osmium::memory::Buffer::purge_removed', 'osmium::memory::Buffer::clear')
    reach_memo = {}

    def compacts(f, n):
        """call node that (transitively) compacts / empties the stash buffer."""
        if n.get('k') != 'call' or 'q' not in n:
            return False
        if n['q'] in COMPACTORS:
            return f.is_this_member(n.get('recv'), buf_f)
        if n.get('rcls') != ITEMSTASH:
            return False
        g = U._callee_for(fb, f, n)
        if g is None or not g.has_cfg:
            return False
        if g.usr not in reach_memo:
            reach_memo[g.usr] = bool(set(COMPACTORS) & fb.callees_closure(g, depth=4))
        return reach_memo[g.usr]
    for fn in fns:
        holders = {}     # local decl id -> decl node: locals initialised from a buffer position
        for n in fn.all_nodes():
            if n.get('k') == 'decl':
                for v in n['vars']:
                    if isinstance(v.get('init'), int) and any(fn.nodes[x].get('k') == 'call' and fn.nodes[x].get('q') in POSITIONS
                                                               and fn.is_this_member(fn.nodes[x].get('recv'), buf_f) for x in fn.subtree(v['init'])):
                        holders[v['d']] = n
        comp = [n for n in fn.all_nodes() if compacts(fn, n)]
        if not holders:
            continue
        for d, decl in holders.items():
            uses = [n['id'] for n in fn.all_nodes() if n.get('k') == 'var' and n.get('d') == d and n['id'] not in fn.subtree(decl['id'])]
            pos = fn.positions()
            useset = {u for u in uses if u in pos}
            w = None
            for c in comp:
                # position read, then compaction, then use of the stale position
                if path_search(fn, decl['id'], lambda e: e == c['id'], lambda e: False) is None:
                    continue
                w = path_search(fn, c['id'], lambda e: not isinstance(e, tuple) and (e in useset or any(x in useset for x in fn.subtree(e))), lambda e: False)
                if w is not None:
                    w = [decl['id'], c['id']] + w
                    break
            R.check(w is None, r4, fn.q + '#buffer-position-not-used-after-compaction', fn.loc(decl['id']),
                    '%s reads a buffer position, then (possibly) compacts the buffer and uses the stale position afterwards (the offset recorded for the '
                    'item no longer points at it): %s' % (fn.q, describe_path(fn, w)))
    # ---- I5 the collection decision is monotone in the number of removed items
    r5 = 'I5-gc-decision-monotone-in-removed'
    deciders = {}
    for fn in byname.get('add_item', []):
        for g_ in [n for n in fn.all_nodes() if n.get('k') == 'call' and n.get('q') == ITEMSTASH + '::garbage_collect']:
            for (c, s_, b_, o_) in U.guards(fn, g_['id']):
                x = U.scn(fn, c)
                if s_ and x is not None and x.get('k') == 'call' and x.get('rcls') == ITEMSTASH and not x.get('args'):
                    d_ = U._callee_for(fb, fn, x)
                    if d_ is not None and d_.has_cfg:
                        deciders[d_.pat] = d_

    def term(f, nid):
        """'inc': increasing in the removed count (the member, scaled / shifted by positive constants); 'none': independent; else 'unknown'"""
        n = U.scn(f, nid)
        if n is None:
            return 'unknown'
        if f.is_this_member(nid, removed) or (n.get('k') == 'member' and n.get('name') == removed and f.is_this_member(n['id'])):
            return 'inc'
        if not any(f.nodes[x].get('k') == 'member' and f.nodes[x].get('name') == removed for x in f.subtree(n['id'])):
            return 'none'
        if n.get('k') == 'binop' and n.get('op') in ('*', '+'):
            for a, b in ((n['lhs'], n['rhs']), (n['rhs'], n['lhs'])):
                v = f.const_value(b)
                if v is not None and v > 0 and term(f, a) == 'inc':
                    return 'inc'
        return 'unknown'

    def mono(f, cond, sense):
        """direction of `cond == sense` as a function of the removed count: 'inc' (becomes true as it grows), 'dec', 'const', 'unknown'"""
        n = f.sn(cond)
        if n is None:
            return 'unknown'
        if n.get('k') == 'var' and n.get('vk') == 'local' and n['d'] not in U.assigned_vars(f) and U.local_init(f, n['d']) is not None:
            return mono(f, U.local_init(f, n['d']), sense)      # named test
        if n.get('k') == 'unop' and n.get('op') == '!':
            return mono(f, n['sub'], not sense)
        if n.get('k') == 'binop' and n.get('op') in ('&&', '||'):
            parts = {mono(f, n['lhs'], sense), mono(f, n['rhs'], sense)} - {'const'}
            if not parts:
                return 'const'
            return parts.pop() if len(parts) == 1 else 'unknown'
        p = U.cmp_parts(f, cond)
        if p is None:
            return 'const' if term(f, cond) == 'none' else 'unknown'
        op, l, r = p
        if not sense:
            op = U.NEG[op]
        tl, tr = term(f, l), term(f, r)
        if tl == 'none' and tr == 'none':
            return 'const'
        if tl == 'inc' and tr == 'none':
            return {'<': 'dec', '<=': 'dec', '>': 'inc', '>=': 'inc'}.get(op, 'unknown')
        if tr == 'inc' and tl == 'none':
            return {'<': 'inc', '<=': 'inc', '>': 'dec', '>=': 'dec'}.get(op, 'unknown')
        return 'unknown'
    if not deciders:
        R.broken('ItemStash::add_item: the function that decides about a garbage collection was not identified')
    for fn in deciders.values():
        dom = fn.dominators()
        key = '%s#monotone-in-removed' % fn.q        # one instance per decision function, whatever its statement structure
        nret = 0
        for ret in _returns(fn):
            nret += 1
            v = fn.const_value(ret['sub'])
            site = fn.loc(ret['id'])
            if v is None:
                d = mono(fn, ret['sub'], True)
                R.check(d != 'dec', r5, key, site,
                        '%s returns an expression that turns false as %s grows: with more removed items the stash would stop collecting' % (fn.q, removed),
                        'returned expression: %s' % d)
                # fall through: a non-constant return may also sit under a deciding test
            gs = U.guards(fn, ret['id'])
            blocks = {b_ for (c, s_, b_, o) in gs}
            near = [b_ for b_ in blocks if all(o == b_ or o in dom.get(b_, ()) for o in blocks)]
            dirs = {mono(fn, c, s_) for (c, s_, b_, o) in gs if near and b_ == near[0]} - {'const', 'unknown'}
            if v is None:
                continue
            # the test that immediately selects this return: `false` may only be chosen by an upper bound on the removed count, `true` by a lower bound
            wrong = 'inc' if v == 0 else 'dec'
            R.check(wrong not in dirs, r5, key, site,
                    '%s returns %s under a test that gets more likely as %s grows: more removed items must never turn "collect" into "do not collect" '
                    '(the stash would stop reclaiming space exactly when removed items dominate)' % (fn.q, 'false' if v == 0 else 'true', removed),
                    'deciding tests: %s' % sorted(dirs))
        if nret == 0:
            R.broken('%s has no return statement' % fn.q)
    for need in ('add_item', 'clear'):
        if not byname.get(need):
            R.broken('ItemStash::%s not found' % need)


# ------------------------------------------------------------------------------------------------ driver

# members deliberately not transferred member-wise: {(class, kind, field): reason}
MEMBERWISE_EXCEPTIONS = {}


def special_member_rules(fb, R, core=False):
    rule = 'L1-special-members-memberwise'
    want = {ITEMSTASH, ITEMSTASH + '::handle_type', ITEMSTASH + '::cleanup_helper'} if core else \
        {ISD, ISI, ISS, FMAP, FMAP + '::kv_pair', STASH, RINDEX, RINDEXES, 'osmium::nwr_array'}
    recs = [r for r in fb.records if r.q in want and r.fields]
    exc = dict(MEMBERWISE_EXCEPTIONS)
    for r in recs:
        if r.q == ISD:
            for f in r.fields:
                if f['tC'].startswith('std::vector<std::unique_ptr<'):
                    exc[(ISD, 'copy-ctor', f['name'])] = 'deep copy of the chunks, slot by slot: decided by A6-idset-copy-keeps-chunk-slots'
    U.memberwise_rule(fb, R, rule, recs, exc)


def index_rules(fb, R):
    special_member_rules(fb, R)
    idset_dense_rules(fb, R)
    ordered_rules(fb, R)
    relmap_rules(fb, R)


def run(ctx):
    R = ctx.R
    configs = ['ndebug14'] if ctx.tier == 'quick' else ['ndebug14', 'debug14', 'ndebug17', 'debug17']
    for cfg in configs:
        index_rules(ctx.facts(['index'], cfg), R)
        fx = ctx.facts(['c15_extra'], cfg)      # non-default chunk sizes: a hard-coded default width differs from the parameter here
        special_member_rules(fx, R)
        idset_dense_rules(fx, R)
        fc = ctx.facts(['core'], cfg)
        itemstash_rules(fc, R)
        special_member_rules(fc, R, core=True)
    R.note('not decided: m_data[cid] in IdSetDenseIterator::next is bounded by the iterator invariant m_value < m_last, not by a dominating test')
    # instance floors = distinct (rule, key) pairs confirmed by reading the tree
    R.expect('A1-idset-bit-tiling', 5)              # partition + new[] x2 (+ element width) + memset + memcpy
    R.expect('A2-idset-end-sentinel', 5)            # last(): formula + representable; iterator: jump, members, constructor parameters wide enough
    R.expect('A3-idset-iterator-skips', 4)
    R.expect('A4-idset-chunk-access-guarded', 4)    # get / get_element: chunk index, byte index pairing, non-null
    R.expect('A5-idset-size-tracks-bit-flips', 4)
    R.expect('A6-idset-copy-keeps-chunk-slots', 4)
    R.expect('S1-search-key-prefix-of-sort-key', 2)  # flat_map::get, IdSetSmall::get_binary_search
    R.expect('S2-sort-unique-erase', 4)             # 2 sort_unique x (order, erase)
    R.expect('R1-builders-hand-out-sorted-maps', 8)  # 3 builders: 2 + 2 + 4 maps
    R.expect('R2-merge-appends-every-element', 4)
    R.expect('R3-narrow-store-guarded', 1)
    R.expect('R3-narrow-lookup-guarded', 1)         # RelationsMapIndex::for_each (F28, fixed by 3df468d)
    R.expect('R4-index-dispatch', 7)
    R.expect('R5-indexes-argument-routing', 4)       # two constructors, build_indexes call sites, accessors
    R.expect('I1-remove-pairs-updates', 4)
    R.expect('I2-gc-rewrites-index', 4)
    R.expect('I3-handle-discipline', 5)              # 6 today; keys that name private helpers may merge when a helper is inlined
    R.expect('L1-special-members-memberwise', 5)     # IdSetDense: swap x 2 members, copy constructor x 2 (chunks: see A6), operator=(by value)
    R.expect('I5-gc-decision-monotone-in-removed', 1)   # should_gc (one instance per decision function, whatever its statement structure)
    R.expect('I4-no-stale-buffer-offset', 1)       # add_item (the only method holding a buffer position in a local)


def _selftest_sets(fb, R):
    special_member_rules(fb, R)
    idset_dense_rules(fb, R)
    ordered_rules(fb, R)
    relmap_rules(fb, R)
    itemstash_rules(fb, R)


SELFTESTS = [(r, 'c15_sets.cpp', _selftest_sets) for r in (
    'A1-idset-bit-tiling', 'A2-idset-end-sentinel', 'A3-idset-iterator-skips', 'A4-idset-chunk-access-guarded',
    'A5-idset-size-tracks-bit-flips', 'A6-idset-copy-keeps-chunk-slots', 'S1-search-key-prefix-of-sort-key', 'S2-sort-unique-erase',
    'R1-builders-hand-out-sorted-maps', 'R2-merge-appends-every-element', 'R3-narrow-store-guarded', 'R4-index-dispatch',
    'I1-remove-pairs-updates', 'I2-gc-rewrites-index', 'I3-handle-discipline', 'I4-no-stale-buffer-offset',
    'L1-special-members-memberwise', 'I5-gc-decision-monotone-in-removed', 'R3-narrow-lookup-guarded',
    'R5-indexes-argument-routing')]
