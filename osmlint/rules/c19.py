"""C19 — thread-safe queue and pool: monitor discipline (MONITOR engine).

Decides the structural discipline, not behaviour under schedules:
 Q1 every access to the std::queue member happens with the mutex held
 Q2 every insertion is followed on all paths by a notify on the consumers' condition variable
 Q3 every consumer removal is followed by a notify on the producers' variable (or the `if (max_size)` twin guard)
 Q4 consumer wait predicate = !in_use || !queue.empty(); removal guarded by !queue.empty()
 Q5 shutdown stores false to the flag before notify_all (not notify_one) on the consumers' variable
 Q6 removal is front() (moved out) strictly before pop() on a std::queue
 Q7 push inserts exactly once on the in-use path; bounded-queue loop re-tests after a timed wait
 Q8 nothing but queue / condvar / flag / element-move operations is called while the mutex is held
 P1 worker_thread leaves its loop only when a task returned true
 P2 impl_type::call invokes the functor exactly once and returns false, impl_base::call returns true
 P3 shutdown_all_workers pushes one stop task per worker; ~Pool calls it; joiner joins every joinable thread and is
    declared after queue and thread vector
 P4 submit takes the future before moving the task into the queue, pushes once, returns that future
"""
from ..flow import guards_of, path_search, describe_path, in_cfg_loop, exit_reachable_assuming
from ..monitor import lockset

EXPLANATION = (
    'Decided: lockset discipline of osmium::thread::Queue<T> for every instantiation (all accesses to the std::queue member '
    'under the mutex; insert->notify(consumers), remove->notify(producers) pairing on all CFG paths; wait predicate contains the '
    'shutdown flag; shutdown stores the flag before notify_all; front-before-pop; single insertion; no call-outs under the lock) '
    'and the structural exactly-once links of Pool (worker loop exit, function_wrapper::call variants, one stop task per worker, '
    'joiner declaration order, submit takes the future before the push). NOT decided: FIFO / loss-freedom / exactly-once under '
    'actual thread interleavings, absence of deadlock in general, timing.')
ASSUMPTIONS = ['std::queue is FIFO; std::condition_variable / std::mutex / std::packaged_task behave per the standard',
               'the queue element types instantiated by drivers/thread.cpp cover the library\'s own uses']

Q = 'osmium::thread::Queue'


def _queue_fields(rec):
    f = {'cvs': []}
    for fd in rec.fields:
        t = fd['tC']
        if t.startswith('std::queue<'):
            f['queue'] = fd['name']
        elif t == 'std::mutex':
            f['mutex'] = fd['name']
        elif t == 'std::condition_variable':
            f['cvs'].append(fd['name'])
        elif t.startswith('std::atomic<bool>'):
            f['flag'] = fd['name']
        elif t in ('const unsigned long', 'const std::size_t') and 'max' not in f:
            f['max'] = fd['name']
    return f


def _recv_field(fn, n):
    """name of the this-member a call is invoked on (or None)."""
    if n.get('recv') is None:
        return None
    r = fn.sn(n['recv'])
    if r is not None and r.get('k') == 'member' and r.get('field') and fn.is_this_member(n['recv']):
        return r['name']
    return None


def _qcalls(fn, F, names):
    out = []
    for n in fn.all_nodes():
        if n.get('k') == 'call' and n.get('q', '').startswith('std::queue::') and _recv_field(fn, n) == F['queue']:
            if n['q'].rsplit('::', 1)[-1] in names:
                out.append(n)
    return out


def _cvcalls(fn, cv, names):
    out = []
    for n in fn.all_nodes():
        if n.get('k') == 'call' and n.get('q', '').startswith('std::condition_variable::') and _recv_field(fn, n) == cv:
            if n['q'].rsplit('::', 1)[-1] in names:
                out.append(n)
    return out


def _reads_flag_negated(fn, nid, F):
    """expression is !flag (implicit atomic<bool> -> bool conversion or load())."""
    n = fn.sn(nid)
    if n is None or n.get('k') != 'unop' or n['op'] != '!':
        return False
    return _reads_flag(fn, n['sub'], F)


def _reads_flag(fn, nid, F):
    s = fn.sn(nid)
    if s is None:
        return False
    if s.get('k') == 'call' and _recv_field(fn, s) == F['flag'] and s.get('q', '').startswith(('std::atomic', 'std::__atomic_base')):
        nm = s['q'].rsplit('::', 1)[-1]
        return nm in ('(conv)', 'load', 'operator bool')
    return False


def _is_not_empty(fn, nid, F):
    n = fn.sn(nid)
    if n is None or n.get('k') != 'unop' or n['op'] != '!':
        return False
    s = fn.sn(n['sub'])
    return s is not None and s.get('k') == 'call' and s.get('q') == 'std::queue::empty' and _recv_field(fn, s) == F['queue']


def _disjuncts(fn, nid):
    n = fn.sn(nid)
    if n is not None and n.get('k') == 'binop' and n['op'] == '||':
        return _disjuncts(fn, n['lhs']) + _disjuncts(fn, n['rhs'])
    return [nid]


def _single_return(g):
    rets = [n for n in g.all_nodes() if n.get('k') == 'return' and 'sub' in n]
    if len(rets) != 1:
        return None
    return rets[0]['sub']


def _lambda_return(fb, fn, lam_node):
    """(function holding the predicate expression, expression id); a predicate that only forwards to a member function
    (named predicate) is followed into that function."""
    g = fb.lambda_fn(fn, lam_node)
    if g is None:
        return None, None, None
    lam = g
    pred = _single_return(g)
    hops = 0
    while pred is not None and hops < 3:
        hops += 1
        c = g.sn(pred)
        if c is not None and c.get('k') == 'call' and c.get('u') and c.get('rcls') == Q and (g.sn(c.get('recv')) or {}).get('k') == 'this':
            cands = [h for h in fb.by_usr.get(c['u'], []) if h.clsT == fn.clsT]
            if len(cands) == 1 and _single_return(cands[0]) is not None:
                g = cands[0]
                pred = _single_return(g)
                continue
        break
    return lam, g, pred


def _wait_sites(fb, fn, F):
    """[(call node, cv name, timed?, lock var decl id, lambda Fn, predicate expr id)]"""
    out = []
    for cv in F['cvs']:
        for c in _cvcalls(fn, cv, ('wait', 'wait_for', 'wait_until')):
            timed = not c['q'].endswith('::wait')
            lock = fn.sn(c['args'][0]) if c.get('args') else None
            lockd = lock['d'] if lock is not None and lock.get('k') == 'var' else None
            lam = None
            for a in c.get('args', [])[1:]:
                for x in fn.subtree(a):
                    if fn.nodes[x].get('k') == 'lambda':
                        lam = fn.nodes[x]
            g, pred = (None, None)
            if lam is not None:
                g, predfn, pred = _lambda_return(fb, fn, lam)
                c['_predfn'] = predfn
            out.append((c, cv, timed, lockd, g, pred))
    return out


def _cv_roles(fb, fns, F):
    """consumer cv: waited on with a predicate that reads queue.empty(); producer cv: predicate reads queue.size()."""
    cons = prod = None
    # by role: the variable a producer (a function that inserts) waits on is the producers' variable
    for fn in fns:
        if _qcalls(fn, F, ('push', 'emplace')):
            for cv in F['cvs']:
                if _cvcalls(fn, cv, ('wait', 'wait_for', 'wait_until')):
                    prod = cv
    if prod is not None and len(F['cvs']) == 2:
        cons = [c for c in F['cvs'] if c != prod][0]
        return cons, prod
    for fn in fns:
        for (c, cv, timed, lockd, g, pred) in _wait_sites(fb, fn, F):
            if g is None:
                continue
            names = {n.get('q') for n in g.all_nodes() if n.get('k') == 'call'}
            if 'std::queue::empty' in names:
                cons = cv
            if 'std::queue::size' in names:
                prod = cv
    return cons, prod


def queue_rules(fb, R):
    recs = [r for r in fb.records_named(Q)]
    if not recs:
        R.broken('no instantiation of %s found' % Q)
        return
    methods = {}
    for f in fb.functions:
        if f.cls == Q and not f.is_lambda:
            methods.setdefault(f.clsT, []).append(f)
    for rec in recs:
        F = _queue_fields(rec)
        plain = [fd['name'] for fd in rec.fields if fd['tC'] in ('bool', 'volatile bool')]
        if 'flag' not in F and len(plain) == 1:
            # the in-use flag is stored before the lock is taken (shutdown) and read without it (push, in_use, wait predicates):
            # as a plain bool every such pair is a data race
            R.bad('Q1-flag-is-atomic', '%s#in-use-flag' % Q, '%s:%d' % (rec.file, rec.line),
                  'the queue\'s in-use flag `%s` is a plain bool; it is read and written outside the mutex (push(), in_use(), shutdown()), '
                  'so it must be std::atomic<bool>' % plain[0])
            return
        if 'flag' in F:
            R.ok('Q1-flag-is-atomic', '%s#in-use-flag' % Q, '%s:%d' % (rec.file, rec.line))
        for need in ('queue', 'mutex', 'flag', 'max'):
            if need not in F:
                R.broken('%s: cannot identify the %s member by type' % (rec.full, need))
                return
        if len(F['cvs']) != 2:
            R.broken('%s: expected two condition variables, found %d' % (rec.full, len(F['cvs'])))
            return
        fns = methods.get(rec.full, [])
        if not fns:
            continue
        cons, prod = _cv_roles(fb, fns, F)
        if cons is None or prod is None or cons == prod:
            R.broken('%s: cannot determine consumer/producer condition variables from the wait predicates' % rec.full)
            return
        locked = _locked_helpers(fb, fns, F)
        for fn in fns:
            _queue_method(fb, R, fn, F, cons, prod, assume_locked=(fn.usr in locked), locked_usrs=frozenset(locked))
        # shape rules run on a normal form in which private helpers called on `this` are inlined into their callers
        # (an extracted `take_front(value)` is part of wait_and_pop/try_pop); the helpers themselves are not entry points
        from ..c09_util import normalized
        nfns = []
        called_helpers = set()
        for fn in fns:
            for n_ in fn.all_nodes():
                if n_.get('k') == 'call' and n_.get('rcls') == Q and (fn.sn(n_.get('recv')) or {'k': 'this'}).get('k') == 'this':
                    called_helpers.add(n_.get('u'))
        for fn in fns:
            if fn.usr in locked:
                continue
            if fn.access in ('private', 'protected') and fn.usr in called_helpers:
                continue    # part of its callers' normal form
            try:
                nfns.append(normalized(fb, fn))
            except Exception:  # noqa: BLE001 - fall back to the body as written
                nfns.append(fn)
        _queue_shapes(fb, R, rec, nfns, F, cons, prod, all_raw=fns)


def _held_fn(fn, F):
    before, lockvars = lockset(fn, {F['mutex']})

    def held(nid):
        st = before.get(nid)
        if st is None:
            pm = fn.parent_map()
            x = nid
            while x in pm and x not in before:
                x = pm[x]
            st = before.get(x, frozenset())
        return bool(st)
    return held, before


def _locked_helpers(fb, fns, F):
    """Non-public methods of the queue class whose every call site (in the class, including wait-predicate lambdas on a held
    lock) is inside a region where the mutex is held: their bodies run under the caller's lock."""
    by_usr = {f.usr: f for f in fns}
    cand = {f.usr for f in fns if f.access in ('private', 'protected') and f.kind == 'method'}
    changed = True
    locked = set(cand)
    while changed:
        changed = False
        for u in list(locked):
            sites = 0
            ok = True
            for caller in fns:
                held, before = _held_fn(caller, F)
                bodies = [(caller, held, caller.usr in locked)]
                waits = {id(g): (c, lockd) for (c, cv, timed, lockd, g, pred) in _wait_sites(fb, caller, F) if g is not None}
                for g in fb.lambdas_in(caller):
                    w = waits.get(id(g))
                    inlock = False
                    if w is not None:
                        c, lockd = w
                        inlock = lockd is not None and lockd in before.get(c['id'], frozenset())
                    bodies.append((g, (lambda nid, v=inlock: v), False))
                for (body, h, whole) in bodies:
                    for n in body.all_nodes():
                        if n.get('k') == 'call' and n.get('u') == u:
                            sites += 1
                            if not (whole or h(n['id'])):
                                ok = False
            if sites == 0 or not ok:
                locked.discard(u)
                changed = True
    return locked


def _queue_method(fb, R, fn, F, cons, prod, assume_locked=False, locked_usrs=frozenset()):
    key0 = '%s' % fn.q
    before, lockvars = lockset(fn, {F['mutex']})
    pos = fn.positions()

    def held(nid):
        if assume_locked:
            return True
        st = before.get(nid)
        if st is None:
            # inline node: use nearest element ancestor
            pm = fn.parent_map()
            x = nid
            while x in pm and x not in before:
                x = pm[x]
            st = before.get(x, frozenset())
        return bool(st)

    # Q1 -- accesses in the method body itself
    for n in fn.all_nodes():
        if n.get('k') == 'member' and n.get('field') and n['name'] == F['queue'] and fn.is_this_member(n['id']):
            if fn.kind in ('ctor', 'dtor'):
                continue
            R.check(held(n['id']), 'Q1-access-under-lock', '%s#%s' % (key0, F['queue']), fn.loc(n['id']),
                    'access to %s in %s is not inside a region where %s is held' % (F['queue'], fn.q, F['mutex']))
    # Q1 -- accesses inside lambdas: allowed only as wait predicates on a held lock
    waits = _wait_sites(fb, fn, F)
    wait_lams = {id(g): (c, lockd) for (c, cv, timed, lockd, g, pred) in waits if g is not None}
    for g in fb.lambdas_in(fn):
        touches = [n for n in g.all_nodes() if n.get('k') == 'member' and n.get('field') and n['name'] == F['queue']]
        if not touches:
            continue
        w = wait_lams.get(id(g))
        ok = assume_locked
        if w is not None:
            c, lockd = w
            st = before.get(c['id'], frozenset())
            ok = lockd is not None and lockd in st
        R.check(ok, 'Q1-access-under-lock', '%s#lambda:%s' % (key0, F['queue']), g.site,
                'lambda in %s touches %s but is not the predicate of a condition-variable wait on a held lock' % (fn.q, F['queue']))

    # Q8 -- no call-outs while the mutex is held
    targ = fn.cls_targs[0] if fn.cls_targs else ''
    for n in fn.all_nodes():
        if n.get('k') not in ('call', 'construct') or 'q' not in n or n['id'] not in pos:
            continue
        if not held(n['id']):
            continue
        q = n['q']
        rc = n.get('rcls', '')
        allowed = (q.startswith(('std::queue::', 'std::condition_variable::', 'std::atomic', 'std::__atomic_base', 'std::unique_lock::',
                                 'std::lock_guard::', 'std::chrono::', 'std::move', 'std::forward'))
                   or rc.startswith(('std::queue', 'std::chrono::duration')))
        if not allowed and rc:
            # move construction / move assignment of the element type T
            tname = n.get('rclsT', '')
            if tname and tname == targ and q.rsplit('::', 1)[-1] in ('operator=', '(ctor)'):
                allowed = True
        if not allowed and g_is_wait_lambda_ctor(fn, n):
            allowed = True
        if not allowed and locked_usrs and n.get('u') in locked_usrs:
            allowed = True  # private helper of the monitor that runs under the caller's lock (checked itself)
        R.check(allowed, 'Q8-no-callout-under-lock', '%s#%s' % (key0, q), fn.loc(n['id']),
                'call to %s while %s is held in %s (only queue/condvar/flag/element-move operations are allowed under the monitor lock)'
                % (q, F['mutex'], fn.q))


def g_is_wait_lambda_ctor(fn, n):
    return n.get('k') == 'construct' and '(lambda)' in n.get('q', '')


def _is_size_read(fn, nid, F):
    """queue.size() on the std::queue member, or the class's own size() accessor"""
    x = fn.sn(nid)
    if x is None or x.get('k') != 'call':
        return False
    if x.get('q') == 'std::queue::size' and _recv_field(fn, x) == F['queue']:
        return True
    return x.get('q') == Q + '::size' and (fn.sn(x.get('recv')) or {}).get('k') == 'this'


def _bounded_wait_loop(fb, fn, F, prod, need_max=True):
    waits = [(c, timed) for (c, cv, timed, lockd, g, pred) in _wait_sites(fb, fn, F) if cv == prod]
    for (c, timed) in waits:
        inloop = in_cfg_loop(fn, c['id'])
        gs = guards_of(fn, c['id'])
        maxg = any(sense and (fn.sn(cn) or {}).get('k') == 'member' and fn.sn(cn)['name'] == F['max'] for (cn, sense, _b) in gs)
        loopcond = False
        for (cn, sense, _b) in gs:
            x = fn.sn(cn)
            if x is None or x.get('k') != 'binop' or x['op'] not in ('>=', '>', '<', '<='):
                continue
            l_size, r_size = _is_size_read(fn, x['lhs'], F), _is_size_read(fn, x['rhs'], F)
            l_max = (fn.sn(x['lhs']) or {}).get('k') == 'member' and (fn.sn(x['lhs']) or {}).get('name') == F['max']
            r_max = (fn.sn(x['rhs']) or {}).get('k') == 'member' and (fn.sn(x['rhs']) or {}).get('name') == F['max']
            # the queue is full exactly when size() >= max: `size() > max` lets one element too many in before the producer blocks
            full_when_true = (l_size and r_max and x['op'] == '>=') or (l_max and r_size and x['op'] == '<=')
            full_when_false = (l_size and r_max and x['op'] == '<') or (l_max and r_size and x['op'] == '>')
            if (full_when_true and sense) or (full_when_false and not sense):
                loopcond = True
        if timed and inloop and (maxg or not need_max) and loopcond:
            return True
    return False



def _path_search_flags(fn, start, is_target, is_barrier, edge_ok=None):
    """path_search that is sensitive to boolean locals which are only ever set to constants (the `__result` of an inlined helper, a
    `done` flag): a branch on such a local (or its negation) is followed only along the edge consistent with the constant stored on the path."""
    pos = fn.positions()
    if start not in pos:
        return None
    b0, i0 = pos[start]
    const_vars = {}
    for n in fn.all_nodes():
        if n.get('k') == 'decl':
            for v in n.get('vars', []):
                if v.get('init') is not None and v.get('t') in ('bool', 'const bool'):
                    cv = fn.const_value(v['init'])
                    const_vars.setdefault(v['name'], set()).add(cv)
    flags = {nm for nm, vals in const_vars.items() if None not in vals}

    def flag_of(cid):
        x = fn.sn(cid)
        neg = False
        while x is not None and x.get('k') == 'unop' and x.get('op') == '!':
            neg = not neg
            x = fn.sn(x['sub'])
        if x is not None and x.get('k') == 'var' and x.get('name') in flags:
            return x['name'], neg
        return None
    stack = [(b0, i0 + 1, (), [])]
    seen = set()
    while stack:
        b, i, st, path = stack.pop()
        st = dict(st)
        blocked = False
        for e in fn.blocks[b]['elems'][i:]:
            if is_target(e):
                return path + [e]
            if is_barrier(e):
                blocked = True
                break
            n = fn.nodes[e]
            if n.get('k') == 'decl':
                for v in n.get('vars', []):
                    if v['name'] in flags and v.get('init') is not None:
                        st[v['name']] = fn.const_value(v['init'])
        if blocked:
            continue
        if b == fn.exit:
            if is_target(('exit', b)):
                return path + [('exit', b)]
            continue
        blk = fn.blocks[b]
        fl = flag_of(blk['cond']) if 'cond' in blk and len(blk['succs']) == 2 else None
        for idx, s_ in enumerate(blk['succs']):
            if s_ is None:
                continue
            if edge_ok is not None and not edge_ok(b, idx, s_):
                continue
            if fl is not None and fl[0] in st and st[fl[0]] is not None:
                truth = bool(st[fl[0]]) != fl[1]          # value of the condition
                if (idx == 0) != truth:
                    continue
            key = (s_, tuple(sorted(st.items())))
            if key in seen:
                continue
            seen.add(key)
            stack.append((s_, 0, tuple(sorted(st.items())), path + [('B', s_)]))
    return None

def _queue_shapes(fb, R, rec, fns, F, cons, prod, all_raw=()):
    byname = {}
    for f in fns:
        byname.setdefault(f.name, []).append(f)

    def exit_t(e):
        return isinstance(e, tuple) and e[0] == 'exit'

    # ---- Q2 insertion -> notify consumers
    ninsert = 0
    for fn in fns:
        for ins in _qcalls(fn, F, ('push', 'emplace')):
            ninsert += 1
            notes = {n['id'] for n in _cvcalls(fn, cons, ('notify_one', 'notify_all'))}
            w = path_search(fn, ins['id'], exit_t, lambda e: e in notes)
            R.check(w is None, 'Q2-insert-notifies-consumers', '%s#insert' % fn.q, fn.loc(ins['id']),
                    'after inserting into %s there is a path to the exit of %s without notify on %s: %s'
                    % (F['queue'], fn.q, cons, describe_path(fn, w)))
    if ninsert == 0:
        R.broken('%s: no insertion into the std::queue member found' % rec.full)

    # ---- removals: pop() calls; consumer removal = a front() in the same function
    for fn in fns:
        pops = _qcalls(fn, F, ('pop',))
        fronts = _qcalls(fn, F, ('front',))
        if not pops:
            continue
        if not fronts:
            # drain (shutdown): no producer notification required; but it must be in the shutdown function
            R.check(fn.name == 'shutdown', 'Q6-front-before-pop', '%s#pop' % fn.q, fn.loc(pops[0]['id']),
                    '%s pops from %s without taking front() first (element is lost)' % (fn.q, F['queue']))
            continue
        for p in pops:
            # Q6: some front() dominates pop, and the front value is moved out into an assignment
            doms = [f for f in fronts if fn.elem_dominates(f['id'], p['id'])]
            moved = False
            for f in doms:
                pm = fn.parent_map()
                x = f['id']
                hops = 0
                while x in pm and hops < 8:
                    x = pm[x]
                    hops += 1
                    nx = fn.nodes[x]
                    if nx.get('k') == 'call' and nx.get('op') == '=' or nx.get('k') == 'assign':
                        moved = True
                        break
            R.check(bool(doms) and moved, 'Q6-front-before-pop', '%s#pop' % fn.q, fn.loc(p['id']),
                    'pop() in %s is not dominated by an assignment from %s.front()' % (fn.q, F['queue']))
            # Q3: removal -> notify producers, or the twin guard `if (max)` false edge
            notes = {n['id'] for n in _cvcalls(fn, prod, ('notify_one', 'notify_all'))}

            def edge_ok(b, idx, s, fn=fn):
                blk = fn.blocks[b]
                if 'cond' in blk and len(blk['succs']) == 2 and idx == 1:
                    c = fn.sn(blk['cond'])
                    if c is not None and c.get('k') == 'member' and c['name'] == F['max']:
                        return False  # unbounded queue: producers never wait
                return True
            w = _path_search_flags(fn, p['id'], exit_t, lambda e: e in notes, edge_ok)
            R.check(w is None, 'Q3-remove-notifies-producers', '%s#remove' % fn.q, fn.loc(p['id']),
                    'after removing from %s there is a path to the exit of %s without notify on %s (bounded queue): %s'
                    % (F['queue'], fn.q, prod, describe_path(fn, w)))
            # Q4b: removal guarded by !queue.empty() (either a dominating guard or an early return on empty())
            gs = guards_of(fn, p['id'])
            ok = False
            for (c, sense, _b) in gs:
                if sense and _is_not_empty(fn, c, F):
                    ok = True
                cn = fn.sn(c)
                if (not sense) and cn is not None and cn.get('k') == 'call' and cn.get('q') == 'std::queue::empty':
                    ok = True
            R.check(ok, 'Q4-removal-guarded-by-nonempty', '%s#remove' % fn.q, fn.loc(p['id']),
                    'removal from %s in %s is not guarded by a test that the queue is non-empty' % (F['queue'], fn.q))

    # ---- Q4a: consumer waits
    ncw = 0
    for fn in fns:
        for (c, cv, timed, lockd, g, pred) in _wait_sites(fb, fn, F):
            if cv != cons:
                continue
            ncw += 1
            ok = False
            if g is not None and pred is not None:
                pf = c.get('_predfn') or g
                ds = _disjuncts(pf, pred)
                ok = any(_reads_flag_negated(pf, d, F) for d in ds) and any(_is_not_empty(pf, d, F) for d in ds)
                if ok and timed:
                    # wait_for/wait_until return with the predicate FALSE on timeout: only sound when the result is re-tested in a loop
                    pm = fn.parent_map()
                    p_ = pm.get(c['id'])
                    while p_ is not None and fn.nodes[p_].get('k') in ('wrap', 'icast', 'unop'):
                        p_ = pm.get(p_)
                    tested = any(b.get('cond') is not None and c['id'] in set(fn.subtree(b['cond'])) for b in fn.blocks.values())
                    R.check(bool(in_cfg_loop(fn, c['id'])) and tested, 'Q4-consumer-wait-not-timed-out', '%s#wait' % fn.q, fn.loc(c['id']),
                            'consumer wait in %s is timed and its result is not re-tested in a loop: on timeout the function goes on with an '
                            'empty queue that is still in use and the caller gets a default-constructed element (taken for end of data)' % fn.q)
                else:
                    R.ok('Q4-consumer-wait-not-timed-out', '%s#wait' % fn.q, fn.loc(c['id']))
            elif g is None and not timed and len(c.get('args', [])) == 1:
                # bare wait(lock): equivalent to a predicate wait iff it sits in a loop that re-tests `in_use && queue.empty()`
                inloop = in_cfg_loop(fn, c['id'])
                gs = guards_of(fn, c['id'])
                has_flag = any(sense and _reads_flag(fn, cn, F) for (cn, sense, _b) in gs)
                has_empty = any(sense and (fn.sn(cn) or {}).get('q') == 'std::queue::empty' and _recv_field(fn, fn.sn(cn)) == F['queue']
                                for (cn, sense, _b) in gs)
                ok = bool(inloop) and has_flag and has_empty
                R.ok('Q4-consumer-wait-not-timed-out', '%s#wait' % fn.q, fn.loc(c['id']))   # an untimed wait cannot time out
            R.check(ok, 'Q4-consumer-predicate', '%s#wait' % fn.q, fn.loc(c['id']),
                    'consumer wait in %s: must be a predicate wait whose predicate is a disjunction containing !%s and !%s.empty() '
                    '(a bare wait() is not re-checked after a wake-up: another consumer can take the element first)' % (fn.q, F['flag'], F['queue']))
    if ncw == 0:
        R.broken('%s: no consumer wait found' % rec.full)

    # ---- Q5 shutdown
    for fn in byname.get('shutdown', []):
        stores = []
        for n in fn.all_nodes():
            if n.get('k') == 'call' and _recv_field(fn, n) == F['flag'] and n.get('q', '').rsplit('::', 1)[-1] in ('operator=', 'store'):
                if n.get('args') and fn.const_value(n['args'][0]) == 0:
                    stores.append(n)
        nall = _cvcalls(fn, cons, ('notify_all',))
        ids = {n['id'] for n in nall}
        w = path_search(fn, fn.entry, exit_t, lambda e: e in ids, from_block_start=True)
        R.check(w is None and bool(nall), 'Q5-shutdown-notify_all', '%s#notify' % fn.q, fn.site,
                'shutdown() must reach notify_all() on %s on every path (notify_one wakes a single waiter)' % cons)
        ok = bool(stores) and all(any(fn.elem_dominates(s['id'], n['id']) for s in stores) for n in nall)
        R.check(ok, 'Q5-shutdown-flag-before-notify', '%s#flag' % fn.q, fn.site,
                'shutdown() must store false to %s before notify_all() on %s' % (F['flag'], cons))
    if not byname.get('shutdown'):
        R.broken('%s: shutdown() not found' % rec.full)

    # ---- Q7 push
    for fn in byname.get('push', []):
        ins = _qcalls(fn, F, ('push', 'emplace'))
        ids = {n['id'] for n in ins}

        def edge_ok(b, idx, s, fn=fn):
            blk = fn.blocks[b]
            if 'cond' in blk and len(blk['succs']) == 2 and idx == 0 and _reads_flag_negated(fn, blk['cond'], F):
                return False  # queue no longer in use: push is a documented no-op
            return True
        w = path_search(fn, fn.entry, exit_t, lambda e: e in ids, edge_ok, from_block_start=True)
        R.check(w is None and bool(ins), 'Q7-push-inserts', '%s#all-paths' % fn.q, fn.site,
                'push(): a path reaches the exit without inserting although the queue is in use: %s' % describe_path(fn, w))
        for i in ins:
            w2 = path_search(fn, i['id'], lambda e: e in ids, lambda e: False)
            R.check(w2 is None, 'Q7-push-inserts', '%s#once' % fn.q, fn.loc(i['id']), 'push(): an element can be inserted twice on one path')
        # bounded loop: a timed wait on the producers' variable inside a loop that re-tests the queue size against max
        ok = _bounded_wait_loop(fb, fn, F, prod)
        raw = getattr(fn, 'base', None) or fn
        if not ok:
            ok = _bounded_wait_loop(fb, raw, F, prod)  # the body as written (before helper inlining)
        if not ok:
            # the wait loop may live in a helper of the class that push calls before it inserts
            for h in all_raw:
                if h.usr == raw.usr:
                    continue
                full = _bounded_wait_loop(fb, h, F, prod)
                if not full and not _bounded_wait_loop(fb, h, F, prod, need_max=False):
                    continue
                hc = [n for n in raw.all_nodes() if n.get('k') == 'call' and n.get('u') == h.usr and (raw.sn(n.get('recv')) or {'k': 'this'}).get('k') == 'this']
                if not full:
                    # the `max != 0` guard may stay at the call site of the helper
                    def _maxg(c_):
                        return any(sense and (raw.sn(cn) or {}).get('k') == 'member' and raw.sn(cn)['name'] == F['max']
                                   for (cn, sense, _b) in guards_of(raw, c_['id']))
                    hc = [c_ for c_ in hc if _maxg(c_)]
                rins = _qcalls(raw, F, ('push', 'emplace'))
                hids = {c_['id'] for c_ in hc}
                rids = {i_['id'] for i_ in rins}

                def bounded_edge(b, idx, s_, raw=raw):
                    # with an unbounded queue (max == 0) there is nothing to wait for
                    blk = raw.blocks[b]
                    if 'cond' in blk and len(blk['succs']) == 2 and idx == 1:
                        cn = raw.sn(blk['cond'])
                        if cn is not None and cn.get('k') == 'member' and cn.get('name') == F['max']:
                            return False
                    return True
                if hc and rins and path_search(raw, raw.entry, lambda e: e in rids, lambda e: e in hids, bounded_edge, from_block_start=True) is None:
                    ok = True
        R.check(ok, 'Q7-bounded-wait-loop', '%s#full-loop' % fn.q, fn.site,
                'push(): the full-queue wait must be a timed wait inside a loop that re-tests size() against %s, guarded by %s != 0'
                % (F['max'], F['max']))
        # insertion is after the loop, not inside
        for i in ins:
            R.check(not in_cfg_loop(fn, i['id']), 'Q7-push-inserts', '%s#not-in-loop' % fn.q, fn.loc(i['id']), 'push(): insertion happens inside a loop')
    if not byname.get('push'):
        R.broken('%s: push() not found' % rec.full)


# ------------------------------------------------------------------------------------------------ Pool

def _named_value(fn, nid):
    """look through a local that only names a value: declared once with an initialiser and never written again"""
    hops = 0
    while hops < 4:
        hops += 1
        x = fn.sn(nid)
        if x is None or x.get('k') != 'var' or x.get('vk') != 'local':
            return nid
        d = x['d']
        init = None
        for n in fn.all_nodes():
            if n.get('k') == 'decl':
                for v in n['vars']:
                    if v['d'] == d and isinstance(v.get('init'), int):
                        init = v['init']
        if init is None:
            return nid
        written = False
        for n in fn.all_nodes():
            if n.get('k') == 'assign':
                l = fn.sn(n['lhs'])
                if l is not None and l.get('k') == 'var' and l.get('d') == d:
                    written = True
            elif n.get('k') == 'unop' and n['op'] in ('++', '--'):
                l = fn.sn(n['sub'])
                if l is not None and l.get('k') == 'var' and l.get('d') == d:
                    written = True
        if written:
            return nid
        nid = init
    return nid


def counts_from_zero_by_one(fn, d):
    """local counter: initialised with constant 0 and only ever changed by ++ (pre or post)."""
    init_ok = False
    for n in fn.all_nodes():
        if n.get('k') == 'decl':
            for v in n['vars']:
                if v['d'] == d:
                    init_ok = isinstance(v.get('init'), int) and fn.const_value(v['init']) == 0
    if not init_ok:
        return False
    incs = 0
    for n in fn.all_nodes():
        k = n.get('k')
        if k == 'unop' and n['op'] in ('++', '--'):
            s = fn.sn(n['sub'])
            if s is not None and s.get('k') == 'var' and s['d'] == d:
                if n['op'] != '++':
                    return False
                incs += 1
        elif k == 'assign':
            l = fn.sn(n['lhs'])
            if l is not None and l.get('k') == 'var' and l['d'] == d:
                return False
    return incs == 1


def pool_rules(fb, R):
    P = 'osmium::thread::Pool'
    FW = 'osmium::thread::function_wrapper'
    rec = fb.record(P)
    if rec is None:
        R.broken('record %s not found' % P)
        return

    def exit_t(e):
        return isinstance(e, tuple) and e[0] == 'exit'

    # P1 worker_thread: every return is guarded by `task && task()`; loop otherwise infinite
    for fn in fb.fns(P + '::worker_thread'):
        # the worker can leave its loop only when a task returned true: assuming every task() returns false (and, separately,
        # that every popped wrapper is empty) the exit must be unreachable, whatever the loop form (return, break, flag)
        r1 = exit_reachable_assuming(fn, {FW + '::operator()': False})
        r2 = exit_reachable_assuming(fn, {FW + '::(conv)': False, FW + '::operator bool': False})
        r3 = exit_reachable_assuming(fn, {FW + '::operator()': True, FW + '::(conv)': True, FW + '::operator bool': True})
        R.check((not r1) and (not r2) and r3, 'P1-worker-exit-only-on-stop-task', fn.q, fn.site,
                'worker_thread must leave its loop exactly when a task returned true (exit reachable although every task returns false: %s; '
                'although the popped wrapper is empty: %s; stop task ends the thread: %s)' % (r1, r2, r3))
        # each iteration pops one task and calls it at most once
        calls = [n for n in fn.all_nodes() if n.get('k') == 'call' and n.get('q') == FW + '::operator()']
        pops = [n for n in fn.all_nodes() if n.get('k') == 'call' and n.get('q') == Q + '::wait_and_pop']
        R.check(len(calls) == 1 and len(pops) == 1 and fn.elem_dominates(pops[0]['id'], calls[0]['id']),
                'P1-worker-one-call-per-pop', fn.q, fn.site, 'worker_thread must call each popped task exactly once, after the pop')
        # P6: the wrapper handed to the pop is empty: the previous task has been destroyed (scope end) or reset before the worker
        # waits again.  Otherwise the finished task's functor lives until the same worker gets its next task and is then destroyed
        # by the move-assignment inside Queue::wait_and_pop, i.e. while the work queue's mutex is held (user code under the lock).
        for pop in pops:
            tv = fn.root_var(pop['args'][0]) if pop.get('args') else None
            if not tv or tv[0] != 'var':
                R.broken('P6: %s: the object popped into is not a local variable' % fn.q)
                continue
            d = tv[1]

            def released(e, d=d):
                if isinstance(e, tuple):
                    return False
                n = fn.nodes[e]
                if n.get('k') == 'autodtor' and n.get('d') == d:
                    return True
                if n.get('k') == 'assign' or (n.get('k') == 'call' and n.get('op') == '='):
                    lhs = n.get('lhs') if n.get('k') == 'assign' else (n.get('recv') if n.get('recv') is not None else (n.get('args') or [None])[0])
                    rv = fn.root_var(lhs) if lhs is not None else None
                    # task = function_wrapper{} / task = {} : anything but a self-reference empties or replaces the wrapper outside the lock
                    return bool(rv) and rv[0] == 'var' and rv[1] == d
                return False
            w = path_search(fn, pop['id'], lambda e: e == pop['id'], released)
            R.check(w is None, 'P6-task-released-before-next-wait', fn.q + '#' + tv[2], fn.loc(pop['id']),
                    'worker_thread waits for the next task while `%s` still holds the previous one (path back to the pop without destroying or '
                    'resetting it: %s): the finished task is kept alive indefinitely and its functor is finally destroyed inside '
                    'Queue::wait_and_pop under the queue mutex' % (tv[2], describe_path(fn, w) if w else ''))
    if not fb.fns(P + '::worker_thread'):
        R.broken('Pool::worker_thread not found')

    # P7: submit() is a forwarding function (template <typename TFunction> submit(TFunction&& func)): the callable is handed on with
    # std::forward, never std::move -- an lvalue callable (submitted again later, or used by the caller afterwards) must be copied
    nsub7 = 0
    for fn in fb.fns(P + '::submit'):
        if not fn.params:
            continue
        pd0 = fn.params[0]['d']
        moved = [n for n in fn.all_nodes() if n.get('k') == 'call' and n.get('q') == 'std::move' and n.get('args')
                 and (fn.sn(n['args'][0]) or {}).get('k') == 'var' and fn.sn(n['args'][0]).get('d') == pd0]
        fwd = [n for n in fn.all_nodes() if n.get('k') == 'call' and n.get('q') == 'std::forward' and n.get('args')
               and (fn.sn(n['args'][0]) or {}).get('k') == 'var' and fn.sn(n['args'][0]).get('d') == pd0]
        nsub7 += 1
        R.check(not moved and len(fwd) == 1, 'P7-submit-forwards-callable', P + '::submit#func', fn.site,
                'submit(TFunction&& func) must pass `func` on with std::forward<TFunction> exactly once (std::move(func) steals an lvalue callable '
                'from the caller: a second submit of the same object runs a moved-from copy)')
    if nsub7 == 0:
        R.broken('Pool::submit not found')

    # P8: the default pool is an object with static storage duration (its destructor pushes the stop tasks and joins the workers at exit);
    # a leaked heap object never runs ~Pool: queued tasks are lost when main() returns
    for fn in fb.fns(P + '::default_instance'):
        rets = [n for n in fn.all_nodes() if n.get('k') == 'return' and 'sub' in n]
        ok = bool(rets)
        for r in rets:
            v = fn.sn(r['sub'])
            isobj = False
            if v is not None and v.get('k') == 'var':
                for dn in fn.all_nodes():
                    if dn.get('k') == 'decl':
                        for dv in dn.get('vars', []):
                            if dv['d'] == v.get('d') and dv.get('static') and dv.get('tC') == P:
                                isobj = True
            ok = ok and isobj
        news = [n for n in fn.all_nodes() if n.get('k') == 'new']
        R.check(ok and not news, 'P8-default-pool-is-destroyed-at-exit', P + '::default_instance', fn.site,
                'default_instance() must return a function-local static Pool OBJECT (destroyed at exit: stop tasks pushed, workers joined); '
                'a pointer to a heap-allocated pool is never destroyed')
    if not fb.fns(P + '::default_instance'):
        R.broken('Pool::default_instance not found')

    # P2 function_wrapper::impl_type::call / impl_base::call
    for fn in fb.fns(FW + '::impl_base::call'):
        rets = [n for n in fn.all_nodes() if n.get('k') == 'return' and 'sub' in n]
        R.check(len(rets) >= 1 and all(fn.const_value(r['sub']) == 1 for r in rets), 'P2-call-return-values', fn.q, fn.site,
                'impl_base::call (the stop task) must return true')
    n_impl = 0
    for fn in fb.fns(FW + '::impl_type::call'):
        n_impl += 1
        rets = [n for n in fn.all_nodes() if n.get('k') == 'return' and 'sub' in n]
        R.check(len(rets) >= 1 and all(fn.const_value(r['sub']) == 0 for r in rets), 'P2-call-return-values', fn.q, fn.site,
                'impl_type::call must return false (true shuts the worker down)')
        inv = [n for n in fn.all_nodes() if n.get('k') == 'call' and n.get('op') == '()' and n.get('recv') is not None
               and (fn.sn(n['recv']) or {}).get('k') == 'member']
        ids = {n['id'] for n in inv}
        w = path_search(fn, fn.entry, exit_t, lambda e: e in ids, from_block_start=True)
        twice = any(path_search(fn, i, lambda e: e in ids, lambda e: False) for i in ids)
        R.check(len(inv) >= 1 and w is None and not twice, 'P2-call-invokes-once', fn.q, fn.site,
                'impl_type::call must invoke the stored functor exactly once on every path')
    if n_impl == 0 or not fb.fns(FW + '::impl_base::call'):
        R.broken('function_wrapper call() variants not found')
    for fn in fb.fns(FW + '::operator()'):
        c = [n for n in fn.all_nodes() if n.get('k') == 'call' and n.get('q') == FW + '::impl_base::call']
        rets = [n for n in fn.all_nodes() if n.get('k') == 'return' and 'sub' in n]
        ok = len(c) == 1 and len(rets) == 1 and fn.strip(rets[0]['sub']) == c[0]['id']
        R.check(ok, 'P2-wrapper-forwards', fn.q, fn.site, 'function_wrapper::operator() must return impl->call()')

    # P3
    for fn in fb.fns(P + '::shutdown_all_workers'):
        pushes = [n for n in fn.all_nodes() if n.get('k') == 'call' and n.get('q') == Q + '::push']
        ok = len(pushes) == 1
        if ok:
            p = pushes[0]
            ok = in_cfg_loop(fn, p['id'])
            # loop bound is m_num_threads, counter from 0 step 1 (for or while form)
            gs = guards_of(fn, p['id'])
            bound = False
            for (c, sense, _b) in gs:
                x = fn.sn(c)
                if x is None or x.get('k') != 'binop':
                    continue
                pairs = []
                if sense and x['op'] in ('<', '!='):
                    pairs.append((x['lhs'], x['rhs']))
                if sense and x['op'] in ('>', '!='):
                    pairs.append((x['rhs'], x['lhs']))
                for (cv_, bv_) in pairs:
                    r = fn.sn(_named_value(fn, bv_))
                    lv = fn.sn(cv_)
                    if r is not None and r.get('k') == 'member' and r['name'] == 'm_num_threads' and lv is not None and lv.get('k') == 'var':
                        bound = bound or counts_from_zero_by_one(fn, lv['d'])
            ok = ok and bound
            # pushed value is the stop wrapper: constructed from function_wrapper(int)
            stop = False
            for x in fn.subtree(p['id']):
                nx = fn.nodes[x]
                if nx.get('k') == 'construct' and nx.get('q') == FW + '::(ctor)' and nx.get('args'):
                    a = fn.sn(nx['args'][0])
                    if a is not None and a.get('t') == 'int':
                        stop = True
            ok = ok and stop
        R.check(ok, 'P3-one-stop-task-per-worker', fn.q, fn.site,
                'shutdown_all_workers must push exactly one stop task (function_wrapper{int}) per worker thread (loop to m_num_threads)')
    for fn in fb.fns(P + '::(dtor)'):
        c = [n for n in fn.all_nodes() if n.get('k') == 'call' and n.get('q') == P + '::shutdown_all_workers']
        ids = {n['id'] for n in c}
        w = path_search(fn, fn.entry, exit_t, lambda e: e in ids, from_block_start=True)
        R.check(bool(c) and w is None, 'P3-dtor-shuts-down', fn.q, fn.site, '~Pool must call shutdown_all_workers on every path')
    if not fb.fns(P + '::(dtor)') or not fb.fns(P + '::shutdown_all_workers'):
        R.broken('Pool destructor / shutdown_all_workers not found')
    for fn in fb.fns(P + '::thread_joiner::(dtor)'):
        joins = [n for n in fn.all_nodes() if n.get('k') == 'call' and n.get('q') == 'std::thread::join']
        ok = len(joins) == 1
        if ok:
            j = joins[0]
            gs = guards_of(fn, j['id'])
            ok = any(sense and (fn.sn(c) or {}).get('q') == 'std::thread::joinable' for (c, sense, _b) in gs)
            inl = [l for l in fn.loops if fn.in_range(j['id'], l['b'], l['e']) and l['cls'] == 'CXXForRangeStmt']
            if len(inl) != 1:
                # explicit iterator loop: for (it = v.begin(); it != v.end(); ++it) it->join()   (every element, from begin to end)
                loops = [l for l in fn.loops if fn.in_range(j['id'], l['b'], l['e'])]
                rv = fn.root_var(j.get('recv')) if j.get('recv') is not None else None
                whole = False
                if len(loops) == 1 and rv and rv[0] == 'var':
                    d = rv[1]
                    init_begin = False
                    for dn in fn.all_nodes():
                        if dn.get('k') == 'decl':
                            for dv in dn.get('vars', []):
                                if dv['d'] == d and dv.get('init') is not None:
                                    iv = fn.sn(dv['init'])
                                    while iv is not None and iv.get('k') == 'construct' and iv.get('args'):
                                        iv = fn.sn(iv['args'][0])
                                    if iv is not None and iv.get('k') == 'call' and iv.get('q', '').endswith('::begin') \
                                            and (fn.root_var(iv.get('recv')) or ('',))[0] == 'field':
                                        init_begin = True
                    to_end = False
                    for (c, sense, _b) in gs:
                        x = fn.sn(c)
                        if x is not None and x.get('k') == 'call' and x.get('op') in ('!=',) and sense:
                            names = [fn.sn(a) for a in x.get('args', [])] + ([fn.sn(x['recv'])] if x.get('recv') is not None else [])
                            if any(a is not None and a.get('k') == 'var' and a.get('d') == d for a in names) and \
                                    any(e_.get('q', '').endswith('::end') for y in fn.subtree(x['id']) for e_ in [fn.nodes[y]] if e_.get('k') == 'call'):
                                to_end = True
                    steps = [n for n in fn.all_nodes() if n.get('k') == 'call' and n.get('op') == '++' and (fn.root_var(n.get('recv') if n.get('recv') is not None else (n.get('args') or [None])[0]) or ('', None))[1] == d]
                    others = [n for n in fn.all_nodes() if n.get('k') in ('assign',) and (fn.root_var(n['lhs']) or ('', None))[1] == d]
                    whole = init_begin and to_end and len(steps) == 1 and not others
                ok = ok and whole
            else:
                ok = ok and True
        elif not joins:
            # std::for_each(m_threads.begin(), m_threads.end(), [](std::thread& t) { if (t.joinable()) t.join(); })
            for lam in [n for n in fn.all_nodes() if n.get('k') == 'lambda']:
                g = fb.lambda_fn(fn, lam)
                if g is None:
                    continue
                lj = [n for n in g.all_nodes() if n.get('k') == 'call' and n.get('q') == 'std::thread::join']
                if len(lj) != 1:
                    continue
                guarded = any(sense and (g.sn(c) or {}).get('q') == 'std::thread::joinable' for (c, sense, _b) in guards_of(g, lj[0]['id']))
                byref = bool(g.params) and g.params[0]['t'].rstrip().endswith('&') and 'const' not in g.params[0]['t']
                whole = False
                for fe in [n for n in fn.all_nodes() if n.get('k') == 'call' and n.get('q') == 'std::for_each' and len(n.get('args', [])) == 3]:
                    if lam['id'] not in set(fn.subtree(fe['args'][2])):
                        continue
                    b_, e_ = fn.sn(fe['args'][0]), fn.sn(fe['args'][1])
                    if b_ is not None and e_ is not None and b_.get('q', '').endswith('::begin') and e_.get('q', '').endswith('::end') \
                            and fn.root_var(b_.get('recv')) == fn.root_var(e_.get('recv')) and (fn.root_var(b_.get('recv')) or ('',))[0] == 'field':
                        whole = True
                if guarded and byref and whole:
                    ok = True
        R.check(ok, 'P3-joiner-joins-all', fn.q, fn.site, 'thread_joiner::~thread_joiner must join every joinable thread of the vector')
    if not fb.fns(P + '::thread_joiner::(dtor)'):
        R.broken('thread_joiner destructor not found')
    # declaration order: queue, threads before joiner
    names = [f['name'] for f in rec.fields]
    qf = next((f for f in rec.fields if f['tC'].startswith('osmium::thread::Queue<')), None)
    tf = next((f for f in rec.fields if f['tC'].startswith('std::vector<std::thread')), None)
    jf = next((f for f in rec.fields if f['tC'].endswith('thread_joiner')), None)
    ok = qf is not None and tf is not None and jf is not None and qf['idx'] < jf['idx'] and tf['idx'] < jf['idx']
    R.check(ok, 'P3-joiner-declared-last', P + '#fields', '%s:%d' % (rec.file, rec.line),
            'the thread_joiner member must be declared after the work queue and the thread vector (destroyed first => joins before they die); order is %s' % names)

    # P5: a failure while spawning workers must not leave started workers without their stop task: the spawn sits in a try whose
    # catch-all pushes the stop tasks (shutdown_all_workers) and rethrows -- otherwise ~thread_joiner joins workers forever
    nspawn = 0
    for fn in fb.fns(P + '::(ctor)'):
        spawns = [n for n in fn.all_nodes() if n.get('k') == 'call' and n.get('q') in ('std::vector::emplace_back', 'std::vector::push_back')
                  and (fn.sn(n.get('recv')) or {}).get('k') == 'member' and 'std::thread' in (fn.sn(n.get('recv')) or {}).get('t', '')]
        for sp in spawns:
            nspawn += 1
            ok = False
            for t in fn.enclosing_tries(sp['id']):
                for h in t['handlers']:
                    if not h.get('all'):
                        continue
                    calls = [n for n in fn.all_nodes() if n.get('k') == 'call' and n.get('q') == P + '::shutdown_all_workers'
                             and fn.in_range(n['id'], h['b'], h['e'])]
                    rethrows = [n for n in fn.all_nodes() if n.get('k') == 'throw' and n.get('rethrow') and fn.in_range(n['id'], h['b'], h['e'])]
                    if calls and rethrows:
                        ok = True
            R.check(ok, 'P5-spawn-failure-shuts-workers-down', P + '::(ctor)#spawn', fn.loc(sp['id']),
                    'worker threads are started outside a try whose catch-all calls shutdown_all_workers() and rethrows: if starting a '
                    'later thread fails, the workers already running never get a stop task and ~thread_joiner blocks forever')
    if nspawn == 0:
        R.broken('Pool constructor: no std::thread is added to the thread vector')

    # P4 submit
    nsub = 0
    for fn in fb.fns(P + '::submit'):
        nsub += 1
        gf = [n for n in fn.all_nodes() if n.get('k') == 'call' and n.get('q', '').startswith('std::packaged_task') and n['q'].endswith('::get_future')]
        pushes = [n for n in fn.all_nodes() if n.get('k') == 'call' and n.get('q') == Q + '::push']
        ok = len(gf) == 1 and len(pushes) == 1 and fn.elem_dominates(gf[0]['id'], pushes[0]['id'])
        # the pushed value is the task variable (moved)
        if ok:
            taskvar = fn.root_var(gf[0]['recv'])
            moved = [fn.root_var(x) for x in fn.subtree(pushes[0]['id']) if fn.nodes[x].get('k') == 'var']
            ok = taskvar is not None and taskvar in moved
            ids = {pushes[0]['id']}
            w = path_search(fn, fn.entry, lambda e: isinstance(e, tuple) and e[0] == 'exit', lambda e: e in ids, from_block_start=True)
            ok = ok and w is None
            # returned value is the future variable initialised from get_future
            rets = [n for n in fn.all_nodes() if n.get('k') == 'return' and 'sub' in n]
            fut = None
            for n in fn.all_nodes():
                if n.get('k') == 'decl':
                    for v in n['vars']:
                        if isinstance(v.get('init'), int) and gf[0]['id'] in fn.subtree(v['init']):
                            fut = v['d']
            okr = bool(rets) and fut is not None
            for r in rets:
                rv = fn.root_var(r['sub'])
                okr = okr and rv is not None and rv[0] == 'var' and rv[1] == fut
            ok = ok and okr
        R.check(ok, 'P4-submit-future-before-push', fn.q, fn.site,
                'submit must take the future from the packaged_task before moving the task into the queue, push it exactly once and return that future')
    if nsub == 0:
        R.broken('no instantiation of Pool::submit found')


def run(ctx):
    R = ctx.R
    configs = ['ndebug14'] if ctx.tier == 'quick' else ['ndebug14', 'debug14', 'ndebug17', 'debug17']
    for cfg in configs:
        fb = ctx.facts(['thread'], cfg)
        queue_rules(fb, R)
        pool_rules(fb, R)
    R.expect('Q1-flag-is-atomic', 1)
    R.expect('Q1-access-under-lock', 6)  # 8 today; a bare wait loop instead of a predicate lambda or a merged accessor lowers the count
    R.expect('Q2-insert-notifies-consumers', 1)
    R.expect('Q3-remove-notifies-producers', 2)
    R.expect('Q4-consumer-predicate', 1)
    R.expect('Q4-consumer-wait-not-timed-out', 1)
    R.expect('Q4-removal-guarded-by-nonempty', 2)
    R.expect('Q5-shutdown-notify_all', 1)
    R.expect('Q6-front-before-pop', 3)
    R.expect('Q7-push-inserts', 2)
    R.expect('Q8-no-callout-under-lock', 6)
    R.expect('P2-call-return-values', 2)
    R.expect('P4-submit-future-before-push', 1)
    R.expect('P5-spawn-failure-shuts-workers-down', 1)
    R.expect('P6-task-released-before-next-wait', 1)
    R.expect('P7-submit-forwards-callable', 1)
    R.expect('P8-default-pool-is-destroyed-at-exit', 1)


def _selftest_queue(fb, R):
    queue_rules(fb, R)


SELFTESTS = [
    ('Q1-access-under-lock', 'c19_queue.cpp', _selftest_queue),
    ('Q2-insert-notifies-consumers', 'c19_queue.cpp', _selftest_queue),
    ('Q8-no-callout-under-lock', 'c19_queue.cpp', _selftest_queue),
]
