"""C08 -- Writer produces the complete file or throws; OS write errors are never lost.

Engines: ERRDISC (osmlint/errdisc.py, written for this property and reusable by C09/C12/C13), EXCFLOW-style try/catch
rules kept local (C07 owns osmlint/excflow.py), PAIR-style must-pass rules on the CFG.

Decided (design section 5, C08):
 1   E1-oserror-reaches-throw        every call of a function with a failure convention (write, fsync, close, dup, open, fstat,
                                      fdopen, fclose, gzdopen, gzwrite, gzclose_w, BZ2_bzWriteOpen/Write/WriteClose64, compress2,
                                      LZ4_compress_fast ...) on the write path: assuming the call failed, no normal exit of the
                                      enclosing function is reachable (throw / [[noreturn]] helper / always-throwing helper / retry)
     E1-nothrow-explicit-discard     the same calls inside destructors / noexcept functions: explicit (void) discard
 1b  E2-short-write-completed        the ::write call: loop until accumulated offset == size, accumulator advanced by the result,
                                      buffer pointer advanced by the accumulator, count derived from size - offset, EINTR re-enters
                                      the call without touching the accumulator
 2   C1-close-fsync-when-requested   every Compressor::close override: do_fsync() => an fsync-reaching call before the descriptor close
     C2-close-closes-descriptor      ... every success path passes a call that reaches ::close/fclose (stdout / already-closed excepted)
     C3-close-layer-first            ... the compression layer close (gzclose_w, BZ2_bzWriteClose64) dominates fsync and descriptor close
     C4-file-size-after-layer-close  ... the field file_size() returns is assigned only after the layer close, never on its failure path
 3   T1-write-thread-try-covers-work pop / write / close / set_value of WriteThread::operator() lie in one try with catch (...)
     T2-write-thread-handler-forwards the handler sets the notification flag, set_exception(current_exception()), shuts the queue down
     T3-write-thread-loop            every popped chunk that is not end-of-data is written; the loop is left only at end-of-data; then
                                      close() and set_value(file_size()) on every path, in this order
 4   G1-writer-mutators-gated        every call into the OutputFormat (directly or through the private helpers) is made from a lambda
                                      run by ensure_cleanup, helpers are not public
     G2-ensure-cleanup-shape         status test (throwing) dominates the invocation; catch (...) sets status error, queues the exception,
                                      then end-of-data, and rethrows on every path
     G3-close-gets-future            Writer::close: do_close() first, then m_write_future.get() whenever valid(), its value returned
     G4-do-close-end-of-data-once    do_close: the lambda writes the rest, write_end(), status closed, end-of-data exactly once as its last
                                      action (the outer `m_status == okay` test is redundant with ensure_cleanup's and not required)
     G5-flush-polls-future           do_flush polls the write future whenever the notification flag is set (check_for_exception shape)
 5   F1-output-queue-gets-pool-futures every push on a Queue<future<string>> passes the result of Pool::submit or the future of a local promise
     F3-encoder-exceptions-travel    no catch handler inside a functor class submitted to the pool completes without rethrowing
     F2-write-buffer-submits         each OutputFormat::write_buffer override submits the buffer on every path (or, for the class that
                                      batches, write_end flushes the pending batch)
 +   D1-dtor-swallows                ~Writer and the Compressor destructors run their close inside try { } catch (...) { }

Not decided (moved to "not decided"): bytes on disk for every fault offset (needs fault injection); gzwrite/BZ2 partial-write
semantics inside the libraries; that fclose/gzclose flush everything they buffered (library contract, assumed); thread
interleavings of producer / pool / write thread (C19/C07 decide the monitor discipline); the strtol in PBFOutputFormat's
constructor (option parsing, belongs to C13); declaration order of Writer members versus the thread (C07 LAYOUT rule).
"""
from .. import errdisc as E
from ..c08_util import (WRITER, WRITE_THREAD, COMPRESSOR, OUTPUT_FORMAT, is_exit, write_path_functions, in_io_layer,
                        scn, vars_in, catch_all_handler, nodes_in_handler, must_pass, must_pass_after, calls_reaching, cond_blocks,
                        is_pointer_truth, reads_only_object_state, compares_with_const, guards)
from ..flow import path_search, describe_path

# genuine findings on the pristine tree: (rule, key, explanation)
KNOWN = []

EXPLANATION = (
    'Decided: (1) ERRDISC on the write path: for every call of an OS / stdio / zlib / bzip2 / lz4 function with a failure convention, '
    'assuming the failure value, no normal exit of the enclosing function is reachable in its CFG (conditions on the result are '
    'evaluated three-valued, so a test that does not separate failure from success counts as no test); (1b) the write(2) loop completes '
    'short writes and retries EINTR; (2) each Compressor::close override: layer close, then fsync when requested, then descriptor close, '
    'file size assigned only after a successful layer close; (3) WriteThread forwards any exception (flag, promise, queue shutdown) and '
    'writes every chunk; (4) Writer methods are gated by ensure_cleanup (status test, error state, exception + end-of-data queued, rethrow), '
    'close() collects the write future, do_close pushes end-of-data once, do_flush polls the future; (5) only pool futures or '
    'add_to_queue values enter the output queue and every write_buffer override submits its buffer; destructors swallow. '
    'NOT decided: completeness of the bytes on disk for every fault offset (fault injection), partial-write semantics inside zlib/libbz2, '
    'thread interleavings, option parsing (strtol, C13).')
ASSUMPTIONS = ['failure conventions of POSIX / stdio / zlib / libbz2 / lz4 as tabulated in osmlint/errdisc.py (DESIGN appendix B)',
               'EINTR == 4 (Linux)', 'drivers/io_write.cpp instantiates every output format and compressor the library registers',
               'exceptions leaving a function are handled by its callers as decided by rules T1/T2/G2 (no implicit EH edges in the CFG)']


# ------------------------------------------------------------------------------------------------ 1 / 1b  ERRDISC

def errdisc_rules(fb, R, fns):
    want = lambda name: E.classify(name)[0] != 'special'
    done = E.run_sites(R, fb, fns, 'E1-oserror-reaches-throw', 'E1-nothrow-explicit-discard', want=want, io_layer=in_io_layer)
    nwrite = 0
    for (fn, call, conv, o) in done:
        if call['q'] in ('write', 'pwrite'):
            nwrite += 1
            short_write(fb, R, fn, call, o)
    if nwrite == 0:
        R.broken('no ::write call found on the write path')
    return done


def _assigned_from(fn, call):
    """local variable that receives the call's result (decl init or assignment)."""
    pm = fn.parent_map()
    x = call['id']
    hops = 0
    while x in pm and hops < 8:
        x = pm[x]
        hops += 1
        n = fn.nodes[x]
        if n.get('k') == 'assign' and n.get('op') == '=':
            c = E.carrier_of(fn, n['lhs'])
            return c[1] if c and c[0] == 'var' else None
        if n.get('k') == 'decl':
            for v in n['vars']:
                if isinstance(v.get('init'), int) and call['id'] in fn.subtree(v['init']):
                    return v['d']
            return None
        if n.get('k') not in ('wrap', 'icast', 'cast'):
            return None
    return None


def short_write(fb, R, fn, call, outcome):
    rule = 'E2-short-write-completed'
    key0 = fn.q
    site = fn.loc(call['id'])
    args = call.get('args', [])
    if len(args) < 3:
        R.broken('%s: write call with %d arguments' % (fn.q, len(args)))
        return
    # the count argument: W (local) initialised as S - A, or S - A directly; S parameter, A local accumulator
    cn = scn(fn, args[2])
    W = None
    diff = None
    if cn is not None and cn.get('k') == 'var' and cn.get('vk') == 'local':
        W = cn['d']
        for n in fn.all_nodes():
            if n.get('k') == 'decl':
                for v in n['vars']:
                    if v['d'] == W and isinstance(v.get('init'), int):
                        diff = scn(fn, v['init'])
    elif cn is not None and cn.get('k') == 'binop':
        diff = cn
    S = A = None
    if diff is not None and diff.get('k') == 'binop' and diff.get('op') == '-':
        l, r = scn(fn, diff['lhs']), scn(fn, diff['rhs'])
        if l is not None and r is not None and l.get('k') == 'var' and r.get('k') == 'var' and l.get('vk') == 'param' and r.get('vk') == 'local':
            S, A = l['d'], r['d']
    if not R.check(S is not None, rule, key0 + '#count-is-remaining', site,
                   'the byte count passed to write() is not derived from <size parameter> - <accumulated offset> (a short write would '
                   'be followed by a write past the end of the buffer or by lost data)'):
        for sub in ('count-only-clamped', 'pointer-advanced', 'accumulates-result', 'loops-until-complete', 'eintr-retries'):
            R.bad(rule, '%s#%s' % (key0, sub), site, 'not decidable: no accumulated offset identified (see #count-is-remaining)')
        return
    bad = None
    for n in fn.all_nodes():
        if n.get('k') == 'assign':
            c = E.carrier_of(fn, n['lhs'])
            if W is not None and c == ('var', W) and not (n.get('op') == '=' and E.const_of(fn, n['rhs']) is not None):
                bad = n
    R.check(bad is None, rule, key0 + '#count-only-clamped', site if bad is None else fn.loc(bad['id']),
            'the remaining-byte count is modified by something other than a clamp to a constant')
    # pointer argument: <pointer parameter> + A
    pv = vars_in(fn, args[1])
    ptr_params = {p['d'] for p in fn.params if p['tC'].rstrip().endswith('*')}
    pn = scn(fn, args[1])
    R.check(A in pv and bool(pv & ptr_params) and pn is not None and pn.get('k') == 'binop' and pn.get('op') == '+',
            rule, key0 + '#pointer-advanced', site,
            'the buffer pointer passed to write() is not <buffer parameter> + <accumulated offset> (after a short write the same bytes '
            'would be written again)')
    # accumulator advanced by the result
    L = _assigned_from(fn, call)
    acc = []
    for n in fn.all_nodes():
        if n.get('k') == 'assign' and n.get('op') == '+=' and E.carrier_of(fn, n['lhs']) == ('var', A):
            r = scn(fn, n['rhs'])
            if L is not None and r is not None and r.get('k') == 'var' and r.get('d') == L:
                acc.append(n['id'])
            elif r is not None and r.get('id') == call['id']:
                acc.append(n['id'])
    # outer loop condition: comparison of A with S
    loop_blocks = []
    for b in cond_blocks(fn):
        c = fn.sn(E.effective_cond(fn, b))
        if c is None or c.get('k') != 'binop' or c.get('op') not in ('<', '!=', '>'):
            continue
        l, r = scn(fn, c['lhs']), scn(fn, c['rhs'])
        if l is None or r is None or l.get('k') != 'var' or r.get('k') != 'var':
            continue
        if c['op'] in ('<', '!=') and (l.get('d'), r.get('d')) == (A, S) or c['op'] in ('>', '!=') and (l.get('d'), r.get('d')) == (S, A):
            loop_blocks.append(b)
    ok = bool(acc)
    w = None
    if ok:
        # assuming the call succeeded (result >= 0): every path reaches the accumulation before the loop test / the exit
        tests = {fn.strip(b['cond']) for b in loop_blocks} | {b['cond'] for b in loop_blocks}
        o = E.outcome_assuming(fb, fn, call, E.ge(0), stop_at=acc)
        ok = not o.exits and not (tests & o.reached) and not o.retry and not o.truncated
        w = o.exits[0] if o.exits else None
    R.check(ok, rule, key0 + '#accumulates-result', site,
            'the accumulated offset is not advanced by the result of write() on every path to the loop test: %s' % describe_path(fn, w))
    ok = bool(loop_blocks)
    w = None
    if ok:
        lb = {b['id'] for b in loop_blocks}
        # the function is left only through the false edge of the loop test ...
        w = must_pass_after(fn, call['id'], [], edge_ok=lambda b, idx, s: not (b in lb and idx == 1))
        # ... and its true edge leads back to the call
        back = all(path_search(fn, b['succs'][0], lambda e: e == call['id'], lambda e: False, from_block_start=True) is not None
                   for b in loop_blocks if b['succs'][0] is not None)
        ok = w is None and back
    R.check(ok, rule, key0 + '#loops-until-complete', site,
            'write() is not repeated until the accumulated offset reaches the requested size (a short write would be reported as success): %s'
            % describe_path(fn, w))
    # EINTR: failure re-enters the call, accumulator untouched, the throw is guarded by an errno test against EINTR
    eintr = False
    for t in (outcome.throws if outcome is not None else ()):
        for (c, sense, _b) in guards(fn, t):
            x = fn.sn(c)
            if x is not None and x.get('k') == 'binop' and x.get('op') in ('!=', '==') and E.const_of(fn, x['rhs']) == 4:
                if any(fn.nodes[y].get('q') == '__errno_location' for y in fn.subtree(x['lhs'])):
                    eintr = True
    R.check(outcome is not None and outcome.retry and eintr and not (set(acc) & outcome.reached), rule, key0 + '#eintr-retries', site,
            'an interrupted write() (EINTR) must re-enter the call without advancing the offset; other errors must throw')


# ------------------------------------------------------------------------------------------------ 2  close completeness

def close_rules(fb, R):
    recs = fb.derived_from(COMPRESSOR)
    if len(recs) < 3:
        R.broken('expected at least 3 Compressor subclasses, found %d' % len(recs))
    for rec in recs:
        fns = fb.fns(rec.q + '::close')
        if not fns:
            R.broken('%s::close not found' % rec.q)
            continue
        for fn in fns:
            _close_one(fb, R, rec, fn)


def _close_one(fb, R, rec, fn):
    key = fn.q
    layer = [n for n in fn.all_nodes() if E.is_extern_c(n) and E.classify(n['q'])[0] == 'check']
    fsyncs = calls_reaching(fb, fn, ('fsync', 'fdatasync', '_commit'))
    dcloses = calls_reaching(fb, fn, ('close', 'fclose'))
    dclose_ids = {n['id'] for n in dcloses}
    fsync_ids = {n['id'] for n in fsyncs}

    def is_dofsync(cond):
        c = fn.sn(cond)
        return c is not None and c.get('k') == 'call' and c.get('q') == COMPRESSOR + '::do_fsync'

    # C1
    guarded = [n for n in fsyncs if any(sense and is_dofsync(c) for (c, sense, _b) in guards(fn, n['id']))
               or not guards(fn, n['id'])]
    ok = bool(guarded) and bool(dcloses)
    w = None
    if ok:
        def edge_ok(b, idx, s):
            c = E.effective_cond(fn, fn.blocks[b])
            if idx == 1 and (is_dofsync(c) or is_pointer_truth(fn, c)):
                return False   # fsync not requested / no handle to sync
            return True
        w = path_search(fn, fn.entry, lambda e: e in dclose_ids, lambda e: e in fsync_ids, edge_ok, from_block_start=True)
        ok = w is None
    R.check(ok, 'C1-close-fsync-when-requested', key, fn.site,
            'close(): when do_fsync() holds the descriptor close must be preceded by a call that reaches ::fsync: %s' % describe_path(fn, w))

    # C2
    # "already closed" = the state close() itself establishes (m_fd = -1, m_gzfile = nullptr ...)
    closed_env = {}
    for n in fn.all_nodes():
        if n.get('k') == 'assign' and n.get('op') == '=':
            c = E.carrier_of(fn, n['lhs'])
            v = E.const_of(fn, n['rhs'])
            if c is not None and c[0] == 'field' and v is not None:
                closed_env[c] = E.fin(v)

    def edge_ok2(b, idx, s):
        blk = fn.blocks[b]
        c = E.effective_cond(fn, blk)
        if reads_only_object_state(fn, c):
            v = E.eval3(fn, c, closed_env)
            if v is not None and idx == (0 if v else 1):
                return False   # object already closed (idempotence guard)
        if compares_with_const(fn, c, ('==',), 1) and idx == 0 or compares_with_const(fn, c, ('!=',), 1) and idx == 1:
            return False       # stdout is neither synced nor closed
        return True
    w = must_pass(fn, fn.entry, dclose_ids, edge_ok2) if dcloses else [('exit', fn.exit)]
    R.check(w is None, 'C2-close-closes-descriptor', key, fn.site,
            'close(): a success path returns without a call that reaches ::close / fclose (close errors such as a deferred ENOSPC/EIO are '
            'never observed): %s' % describe_path(fn, w))

    if not layer:
        return
    # C3
    for l in layer:
        later = [n for n in fsyncs + dcloses if not fn.elem_dominates(l['id'], n['id'])]
        R.check(not later, 'C3-close-layer-first', '%s#%s' % (key, l['q']), fn.loc(l['id']),
                'close(): %s must come before the fsync / descriptor close on every path (buffered compressed data is written by it)' % l['q'])
    # C4
    fsz = fb.fns(rec.q + '::file_size')
    field = None
    for g in fsz:
        for n in g.all_nodes():
            if n.get('k') == 'return' and 'sub' in n:
                m = g.sn(n['sub'])
                if m is not None and m.get('k') == 'member' and m.get('field'):
                    field = m['q']
    if field is None:
        R.broken('%s: cannot identify the member returned by file_size()' % rec.q)
        return
    assigns = [n for n in fn.all_nodes() if n.get('k') == 'assign' and E.carrier_of(fn, n['lhs']) == ('field', field)]
    if not assigns:
        R.broken('%s: close() never assigns %s' % (rec.q, field))
        return
    for l in layer:
        o, _p = E.fail_outcome(fb, fn, l, E.CONVENTIONS[l['q']])
        for a in assigns:
            ok = fn.elem_dominates(l['id'], a['id']) and o is not None and a['id'] not in o.reached
            R.check(ok, 'C4-file-size-after-layer-close', '%s#%s' % (key, field.rsplit('::', 1)[-1]), fn.loc(a['id']),
                    'close(): %s is assigned before %s succeeded (or on its failure path)' % (field, l['q']))


def _role_ids(fb, fn, nodes, pred, depth=1):
    """ids of `nodes` (of fn) that play a role: pred(fn, node) holds, or the node calls a method of the same class whose
    body performs the role on every path (handler body extracted into a helper)."""
    ids = [n['id'] for n in nodes if pred(fn, n)]
    if depth > 0:
        for n in nodes:
            if n.get('k') == 'call' and 'u' in n and n.get('rcls') and n.get('rcls') == _class_of(fb, fn):
                for g in fb.by_usr.get(n['u'], [])[:1]:
                    inner = _role_ids(fb, g, list(g.all_nodes()), pred, depth - 1)
                    if inner and g.has_cfg and must_pass(g, g.entry, inner) is None:
                        ids.append(n['id'])
    return ids


def _class_of(fb, fn):
    """class a function body belongs to (for a lambda: the class of the enclosing method)."""
    hops = 0
    while fn is not None and fn.is_lambda and hops < 5:
        fn = fb.by_id.get((fn.unit, fn.outer))
        hops += 1
    return fn.cls if fn is not None else None


def _role_order(fb, fn, pred_a, pred_b, nodes):
    """every b is preceded (dominated) by an a; a helper call that plays both roles is looked into."""
    a_ids = _role_ids(fb, fn, nodes, pred_a)
    b_ids = _role_ids(fb, fn, nodes, pred_b)
    if not a_ids or not b_ids:
        return False
    for b in b_ids:
        if any(a != b and fn.elem_dominates(a, b) for a in a_ids):
            continue
        if b in a_ids and not pred_b(fn, fn.nodes[b]):
            g = next(iter(fb.by_usr.get(fn.nodes[b].get('u'), [])), None)
            if g is not None and _role_order(fb, g, pred_a, pred_b, list(g.all_nodes())):
                continue
        return False
    return True


# ------------------------------------------------------------------------------------------------ 3  write thread

def write_thread_rules(fb, R):
    fns = fb.fns(WRITE_THREAD + '::operator()')
    if not fns:
        R.broken('WriteThread::operator() not found')
        return
    for fn in fns:
        key = fn.q
        pops = [n for n in fn.calls(name='pop') if n.get('rcls') == 'osmium::io::detail::queue_wrapper']
        writes = list(fn.calls(COMPRESSOR + '::write'))
        closes = list(fn.calls(COMPRESSOR + '::close'))
        setvals = list(fn.calls('std::promise::set_value'))
        if len(pops) != 1 or len(writes) > 1 or len(closes) > 1 or len(setvals) > 1:
            R.broken('WriteThread::operator(): expected one pop and at most one write / close / set_value, found %d/%d/%d/%d'
                     % (len(pops), len(writes), len(closes), len(setvals)))
            return
        P = pops[0]
        W = writes[0] if writes else None
        C = closes[0] if closes else None
        S = setvals[0] if setvals else None
        # T1
        hs = {}
        for role, n in (('pop', P), ('write', W), ('close', C), ('set_value', S)):
            if n is None:
                R.bad('T1-write-thread-try-covers-work', '%s#%s' % (key, role), fn.site, 'WriteThread::operator() has no %s call' % role)
                continue
            h = catch_all_handler(fn, n['id'])
            hs[role] = h
            R.check(h is not None, 'T1-write-thread-try-covers-work', '%s#%s' % (key, role), fn.loc(n['id']),
                    'WriteThread: %s is not inside a try with catch (...): an exception would terminate the process / be lost' % n['q'])
        same = len(hs) == 4 and all(h is not None for h in hs.values()) and len({h[0]['b'] for h in hs.values()}) == 1
        R.check(same, 'T1-write-thread-try-covers-work', key + '#one-try', fn.site, 'pop/write/close/set_value must share one try block')
        h3 = hs.get('pop') or next((h for h in hs.values() if h is not None), None)
        if h3 is None or h3[2] is None:
            for role in ('flag', 'set_exception', 'shutdown'):
                R.bad('T2-write-thread-handler-forwards', '%s#%s' % (key, role), fn.site, 'WriteThread has no catch (...) around its work')
        else:
            _write_thread_handler(fb, R, fn, key, h3, P, S)
        _write_thread_loop(R, fn, key, P, W, C, S)


def _write_thread_handler(fb, R, fn, key, h3, P, S):
    t, h, hb = h3
    # T2
    hn = nodes_in_handler(fn, h)
    promise = fn.root_var(S['recv']) if S is not None else None
    queue = fn.root_var(P['recv'])
    flag = _role_ids(fb, fn, hn, lambda f, n: n.get('k') == 'call' and n.get('rclsT', '').startswith('std::atomic<bool>')
                     and n['q'].rsplit('::', 1)[-1] in ('store', 'operator=') and n.get('args') and f.const_value(n['args'][0]) == 1)
    setex = _role_ids(fb, fn, hn, lambda f, n: n.get('k') == 'call' and n.get('q') == 'std::promise::set_exception'
                      and any(f.nodes[x].get('q') == 'std::current_exception' for x in f.subtree(n['id']))
                      and (promise is None or f.root_var(n['recv']) == promise))
    shut = _role_ids(fb, fn, hn, lambda f, n: n.get('k') == 'call' and n.get('q', '').rsplit('::', 1)[-1] == 'shutdown'
                     and f.root_var(n.get('recv')) == queue)
    for role, ids, why in (('flag', flag, 'set the notification flag (the Writer polls the future only when it is set)'),
                           ('set_exception', setex, 'store current_exception() in the promise (otherwise close() reports success)'),
                           ('shutdown', shut, 'shut the input queue down (otherwise a producer blocked on the full queue never returns)')):
        w = must_pass(fn, hb, ids) if ids else [('exit', fn.exit)]
        R.check(w is None, 'T2-write-thread-handler-forwards', '%s#%s' % (key, role), '%s:%s' % (fn.file, h.get('l')),
                'WriteThread catch (...) must %s on every path' % why)


def _write_thread_loop(R, fn, key, P, W, C, S):
    if W is None:
        R.bad('T3-write-thread-loop', key + '#every-chunk-written', fn.site, 'WriteThread never calls Compressor::write')
    if C is None or S is None:
        R.bad('T3-write-thread-loop', key + '#close-then-value', fn.site,
              'WriteThread does not close the compressor / fulfil the promise: buffered data is never flushed, close errors are never seen')
    if W is None:
        return
    # T3
    datavar = None
    for n in fn.all_nodes():
        if n.get('k') == 'decl':
            for v in n['vars']:
                if isinstance(v.get('init'), int) and P['id'] in fn.subtree(v['init']):
                    datavar = v['d']
    warg = scn(fn, W['args'][0]) if W.get('args') else None
    ok = datavar is not None and warg is not None and warg.get('k') == 'var' and warg.get('d') == datavar

    def edge_ok(b, idx, s):
        c = fn.sn(E.effective_cond(fn, fn.blocks[b]))
        end_idx = 0
        while c is not None and c.get('k') == 'unop' and c.get('op') == '!':
            c = fn.sn(c['sub'])
            end_idx = 1 - end_idx
        if idx == end_idx and c is not None and c.get('k') == 'call' and c.get('q') == 'osmium::io::detail::at_end_of_data':
            a = scn(fn, c['args'][0]) if c.get('args') else None
            if a is not None and a.get('k') == 'var' and a.get('d') == datavar:
                return False
        return True
    w = must_pass_after(fn, P['id'], [W['id']], edge_ok, targets=[P['id']])
    R.check(ok and w is None, 'T3-write-thread-loop', key + '#every-chunk-written', fn.loc(W['id']),
            'a chunk popped from the queue that is not the end-of-data marker is not handed to Compressor::write (or the loop '
            'is left before end-of-data): %s' % describe_path(fn, w))
    if C is None or S is None:
        return
    w = must_pass(fn, fn.entry, [C['id']])
    sarg = scn(fn, S['args'][0]) if S.get('args') else None
    ok = (w is None and fn.elem_dominates(C['id'], S['id']) and sarg is not None and sarg.get('q') == COMPRESSOR + '::file_size'
          and path_search(fn, C['id'], lambda e: e == W['id'], lambda e: False) is None
          and must_pass_after(fn, C['id'], [S['id']]) is None)
    R.check(ok, 'T3-write-thread-loop', key + '#close-then-value', fn.loc(C['id']),
            'after the loop the compressor must be closed and then the promise fulfilled with file_size() on every path')


# ------------------------------------------------------------------------------------------------ 4  Writer gating

def _status_field(fb):
    rec = fb.record(WRITER)
    if rec is None:
        return None
    for f in rec.fields:
        if f['tC'].endswith('Writer::status'):
            return f['q']
    return None


def _is_status_cmp(fn, cond, status_q):
    """-> index of the successor taken when status != okay (0 true edge / 1 false edge) or None."""
    c = fn.sn(cond)
    if c is None or c.get('k') != 'binop' or c.get('op') not in ('==', '!='):
        return None
    l, r = fn.sn(c['lhs']), fn.sn(c['rhs'])
    for a, b in ((l, r), (r, l)):
        if a is not None and b is not None and a.get('k') == 'member' and a.get('q') == status_q and b.get('vk') == 'enumconst' \
                and b.get('q', '').endswith('::okay'):
            return 0 if c['op'] == '!=' else 1
    return None


def writer_rules(fb, R):
    rec = fb.record(WRITER)
    status_q = _status_field(fb)
    if rec is None or status_q is None:
        R.broken('Writer record / status member not found')
        return
    wfns = [f for f in fb.functions if f.q.startswith(WRITER + '::')]
    methods = [f for f in wfns if not f.is_lambda and f.cls == WRITER]
    EC = WRITER + '::ensure_cleanup'

    # ---- G1
    def out_calls(f):
        return [n for n in f.all_nodes() if n.get('k') == 'call' and n.get('rcls') == OUTPUT_FORMAT]
    H = {f.q for f in methods if f.kind == 'method' and out_calls(f)}
    changed = True
    while changed:
        changed = False
        for f in methods:
            if f.kind == 'method' and f.q not in H and f.q != EC and any(n['q'] in H for n in f.calls()):
                H.add(f.q)
                changed = True
    if not H:
        R.broken('Writer: no helper calling into the OutputFormat found')
    gated = set()
    for f in methods:
        for c in f.calls(EC):
            for a in c.get('args', []):
                for x in f.subtree(a):
                    if f.nodes[x].get('k') == 'lambda':
                        g = fb.lambda_fn(f, f.nodes[x])
                        if g is not None:
                            gated.add((g.unit, g.id))
    for f in methods:
        if f.q in H:
            R.check(f.access in ('private', 'protected'), 'G1-writer-mutators-gated', f.q + '#not-public', f.site,
                    '%s writes to the output and is public: it bypasses ensure_cleanup (status test / error bookkeeping)' % f.q)
    for f in wfns:
        for n in f.all_nodes():
            if n.get('k') != 'call' or 'q' not in n:
                continue
            if not (n.get('rcls') == OUTPUT_FORMAT or n['q'] in H):
                continue
            ok = f.q in H or (f.is_lambda and (f.unit, f.id) in gated)
            R.check(ok, 'G1-writer-mutators-gated', '%s#%s' % (f.q, n['q'].rsplit('::', 1)[-1]), f.loc(n['id']),
                    '%s is called from %s, which is neither a private output helper nor a lambda run by ensure_cleanup' % (n['q'], f.q))

    # ---- G2
    ecs = fb.fns(EC)
    if not ecs:
        R.broken('Writer::ensure_cleanup not instantiated')
    for fn in ecs:
        key = fn.q
        inv = [n for n in fn.all_nodes() if n.get('k') == 'call' and n.get('op') == '()' and fn.params
               and fn.root_var(n.get('recv')) == ('var', fn.params[0]['d'], fn.params[0]['name'])]
        if len(inv) != 1:
            R.broken('ensure_cleanup: expected exactly one invocation of the function parameter, found %d' % len(inv))
            continue
        I = inv[0]
        ok = False
        for b in cond_blocks(fn):
            idx = _is_status_cmp(fn, E.effective_cond(fn, b), status_q)
            if idx is None or b['succs'][idx] is None:
                continue
            pos = fn.positions()
            dominates = b['id'] in fn.dominators().get(pos[I['id']][0], ())
            refuses = must_pass(fn, b['succs'][idx], []) is None   # every path from the not-okay edge throws
            if dominates and refuses:
                ok = True
        R.check(ok, 'G2-ensure-cleanup-shape', key + '#status-first', fn.site,
                'ensure_cleanup must refuse (throw) when m_status != okay before running the operation')
        h = catch_all_handler(fn, I['id'])
        if not R.check(h is not None and h[2] is not None, 'G2-ensure-cleanup-shape', key + '#try-catch-all', fn.loc(I['id']),
                       'the operation must run inside try { } catch (...)'):
            continue
        t, hd, hb = h
        hn = nodes_in_handler(fn, hd)
        p_st = lambda f, n: (n.get('k') == 'assign' and n.get('op') == '=' and E.carrier_of(f, n['lhs']) == ('field', status_q)
                             and (f.sn(n['rhs']) or {}).get('q', '').endswith('::error'))
        p_exq = lambda f, n: (n.get('k') == 'call' and n.get('q') == 'osmium::io::detail::add_to_queue'
                              and any(f.nodes[x].get('q') == 'std::current_exception' for x in f.subtree(n['id'])))
        p_eod = lambda f, n: n.get('k') == 'call' and n.get('q') == 'osmium::io::detail::add_end_of_data_to_queue'
        st = _role_ids(fb, fn, hn, p_st)
        exq = _role_ids(fb, fn, hn, p_exq)
        eod = _role_ids(fb, fn, hn, p_eod)
        rethrow = [n['id'] for n in hn if n.get('k') == 'throw' and n.get('rethrow')]
        for role, ids, why in (('status-error', st, 'set m_status = error (a Writer in error state must refuse further data)'),
                               ('queues-exception', exq, 'queue current_exception() for the write thread'),
                               ('end-of-data', eod, 'queue the end-of-data marker (otherwise the write thread never finishes)')):
            w = path_search(fn, hb, lambda e: is_exit(e) or e in rethrow, lambda e: e in ids, from_block_start=True) if ids else [1]
            R.check(w is None, 'G2-ensure-cleanup-shape', '%s#handler-%s' % (key, role), '%s:%s' % (fn.file, hd.get('l')),
                    'the catch (...) of ensure_cleanup must %s on every path' % why)
        w = path_search(fn, hb, is_exit, lambda e: e in rethrow, from_block_start=True)
        R.check(bool(rethrow) and w is None, 'G2-ensure-cleanup-shape', key + '#handler-rethrows', '%s:%s' % (fn.file, hd.get('l')),
                'the catch (...) of ensure_cleanup must end in `throw;` on every path (the caller has to see the error)')
        R.check(_role_order(fb, fn, p_exq, p_eod, hn), 'G2-ensure-cleanup-shape',
                key + '#exception-before-end-of-data', '%s:%s' % (fn.file, hd.get('l')),
                'the exception must be queued before the end-of-data marker (the write thread stops reading at the marker)')

    # ---- G3
    for fn in fb.fns(WRITER + '::close'):
        key = fn.q
        dc = list(fn.calls(WRITER + '::do_close'))
        gets = [n for n in fn.calls('std::future::get') if fn.root_var(n.get('recv')) is not None and fn.root_var(n['recv'])[0] == 'field']
        ok = len(dc) >= 1 and len(gets) == 1
        w = None
        if ok:
            G = gets[0]
            fld = fn.root_var(G['recv'])

            def is_valid(c):
                x = fn.sn(c)
                return x is not None and x.get('k') == 'call' and x['q'].rsplit('::', 1)[-1] == 'valid' and fn.root_var(x.get('recv')) == fld
            ok = any(fn.elem_dominates(d['id'], G['id']) for d in dc)
            ok = ok and all(sense and is_valid(c) for (c, sense, _b) in guards(fn, G['id']))
            w = must_pass(fn, fn.entry, [G['id']], lambda b, idx, s: not (idx == 1 and is_valid(E.effective_cond(fn, fn.blocks[b]))))
            ok = ok and w is None
            # the value of get() is what close() returns on that path
            holders = {v['d'] for n in fn.all_nodes() if n.get('k') == 'decl' for v in n['vars']
                       if isinstance(v.get('init'), int) and G['id'] in fn.subtree(v['init'])}
            holders |= {E.carrier_of(fn, n['lhs'])[1] for n in fn.all_nodes() if n.get('k') == 'assign' and n.get('op') == '='
                        and G['id'] in fn.subtree(n['rhs']) and (E.carrier_of(fn, n['lhs']) or ('',))[0] == 'var'}
            rets = [n for n in fn.all_nodes() if n.get('k') == 'return' and 'sub' in n
                    and (G['id'] in fn.subtree(n['sub']) or ((scn(fn, n['sub']) or {}).get('k') == 'var' and scn(fn, n['sub']).get('d') in holders))]
            ok = ok and len(rets) >= 1
            ok = ok and must_pass(fn, fn.entry, [d['id'] for d in dc]) is None
        R.check(ok, 'G3-close-gets-future', key, fn.site,
                'Writer::close must run do_close() and then return m_write_future.get() whenever the future is valid (the only place the '
                'write thread\'s exception and the file size reach the caller): %s' % describe_path(fn, w))
    if not fb.fns(WRITER + '::close'):
        R.broken('Writer::close not found')

    # ---- G4
    for fn in fb.fns(WRITER + '::do_close'):
        key = fn.q
        ecalls = list(fn.calls(EC))
        lam = None
        for c in ecalls:
            for a in c.get('args', []):
                for x in fn.subtree(a):
                    if fn.nodes[x].get('k') == 'lambda':
                        lam = fb.lambda_fn(fn, fn.nodes[x])
        # (the `m_status == okay` test around the call is redundant with ensure_cleanup's own test: not required)
        if len(ecalls) != 1 or lam is None:
            R.bad('G4-do-close-end-of-data-once', key + '#lambda', fn.site, 'do_close must run one closing operation through ensure_cleanup')
            continue
        g = lam
        eod = [n for n in g.calls('osmium::io::detail::add_end_of_data_to_queue')]
        wend = [n for n in g.all_nodes() if n.get('k') == 'call' and n.get('q') == OUTPUT_FORMAT + '::write_end']
        dw = [n for n in g.calls() if n['q'] in H]
        closed = [n['id'] for n in g.all_nodes() if n.get('k') == 'assign' and n.get('op') == '=' and (g.sn(n['rhs']) or {}).get('q', '').endswith('::closed')
                  and (g.sn(n['lhs']) or {}).get('q') == status_q]
        ok = len(eod) == 1 and len(wend) >= 1 and len(dw) >= 1
        if ok:
            e = eod[0]
            ok = must_pass(g, g.entry, [e['id']]) is None
            ok = ok and path_search(g, e['id'], lambda x: x == e['id'], lambda x: False) is None
            ok = ok and all(g.elem_dominates(x['id'], e['id']) for x in wend) and any(g.elem_dominates(d['id'], wend[0]['id']) for d in dw)
            # nothing that could throw runs after the marker was pushed (the handler would push a second one)
            after = path_search(g, e['id'], lambda x: not isinstance(x, tuple) and g.nodes[x].get('k') in ('call', 'construct', 'throw'), lambda x: False)
            ok = ok and after is None
            ok = ok and bool(closed) and must_pass(g, g.entry, closed) is None
        R.check(ok, 'G4-do-close-end-of-data-once', key + '#lambda', g.site,
                'the closing operation must write the pending buffer, call write_end(), set status closed and push the end-of-data marker '
                'exactly once as its last action')
    if not fb.fns(WRITER + '::do_close'):
        R.broken('Writer::do_close not found')

    # ---- G5
    flag_fields = {f['q'] for f in rec.fields if f['tC'].startswith('std::atomic<bool>')}
    fut_fields = {f['q'] for f in rec.fields if f['tC'].startswith('std::future<')}
    CFE = 'osmium::thread::check_for_exception'
    for fn in fb.fns(WRITER + '::do_flush'):
        polls = [n for n in fn.calls(CFE) if n.get('args') and (fn.root_var(n['args'][0]) or (None, None))[1] in fut_fields]

        def reads_flag(c):
            x = fn.sn(c)
            return x is not None and x.get('k') == 'call' and x.get('rclsT', '').startswith('std::atomic<bool>') \
                and (fn.root_var(x.get('recv')) or (None, None))[1] in flag_fields
        ok = len(polls) >= 1 and all(sense and reads_flag(c) for p in polls[:1] for (c, sense, _b) in guards(fn, p['id']))
        # reached on every path on which the flag is set
        w = None
        if ok:
            w = must_pass(fn, fn.entry, [p['id'] for p in polls],
                          lambda b, idx, s: not (idx == 1 and reads_flag(E.effective_cond(fn, fn.blocks[b]))))
            ok = w is None
        R.check(ok, 'G5-flush-polls-future', fn.q, fn.site,
                'do_flush must call check_for_exception(m_write_future) whenever the notification flag is set (otherwise a dead write '
                'thread is noticed only at close()): %s' % describe_path(fn, w))
    if not fb.fns(WRITER + '::do_flush'):
        R.broken('Writer::do_flush not found')
    if not fb.fns(CFE) and any(list(fn.calls(CFE)) for fn in fb.fns(WRITER + '::do_flush')):
        R.broken('check_for_exception is called but has no body in the fact base')
    for fn in fb.fns(CFE):
        gets = [n for n in fn.all_nodes() if n.get('k') == 'call' and n.get('q') == 'std::future::get']
        ok = len(gets) == 1
        if ok:
            for (c, sense, _b) in guards(fn, gets[0]['id']):
                x = fn.sn(c)
                names = {fn.nodes[y].get('q', '').rsplit('::', 1)[-1] for y in fn.subtree(c) if fn.nodes[y].get('k') == 'call'}
                if not sense or not names or not names <= {'valid', 'wait_for', 'duration', '(ctor)', 'seconds'}:
                    ok = False
            # a ready, valid future is always collected
            def edge_ok(b, idx, s):
                c = E.effective_cond(fn, fn.blocks[b])
                names = {fn.nodes[y].get('q', '').rsplit('::', 1)[-1] for y in fn.subtree(c) if fn.nodes[y].get('k') == 'call'}
                return not (idx == 1 and names & {'valid', 'wait_for'})
            ok = ok and must_pass(fn, fn.entry, [gets[0]['id']], edge_ok) is None
        R.check(ok, 'G5-flush-polls-future', fn.q, fn.site,
                'check_for_exception must call future.get() exactly when the future is valid and ready')


# ------------------------------------------------------------------------------------------------ 5  who may push

FUTURE_STRING_QUEUE = 'osmium::thread::Queue<std::future<std::basic_string<char>>>'
PUSH_WHITELIST = {'osmium::io::detail::add_to_queue': 'pushes the future of a local promise that it fulfils itself (value or exception)'}
NO_OUTPUT_FORMATS = {'osmium::io::detail::BlackholeOutputFormat': 'discards everything by design'}


def _push_sites(fn):
    return [n for n in fn.calls('osmium::thread::Queue::push') if n.get('rclsT') == FUTURE_STRING_QUEUE]


def _is_submit_push(fn, n):
    a = scn(fn, n['args'][0]) if n.get('args') else None
    return a is not None and a.get('k') == 'call' and a.get('q') == 'osmium::thread::Pool::submit'


def _is_local_promise_push(fn, n):
    """queue.push(promise.get_future()) with a local promise (fulfilled by the pushing function itself)."""
    a = scn(fn, n['args'][0]) if n.get('args') else None
    if a is None or a.get('k') != 'call' or a.get('q') != 'std::promise::get_future':
        return False
    rv = fn.root_var(a.get('recv'))
    return rv is not None and rv[0] == 'var'


def _pool_functor_classes(fb):
    out = set()
    fmts = {r.q for r in fb.derived_from(OUTPUT_FORMAT)}
    for f in fb.functions:
        if f.cls not in fmts:
            continue
        for c in f.calls('osmium::thread::Pool::submit'):
            for a in c.get('args', []):
                t = (f.sn(a) or {}).get('t', '').replace('const ', '').strip().split('<', 1)[0]
                if t.startswith('osmium::') and fb.records_named(t):
                    out.add(t)
    return out


def queue_rules(fb, R):
    for fn in fb.functions:
        for n in _push_sites(fn):
            if fn.q in PUSH_WHITELIST:
                R.ok('F1-output-queue-gets-pool-futures', fn.q + '#push', fn.loc(n['id']), PUSH_WHITELIST[fn.q])
                continue
            R.check(_is_submit_push(fn, n) or _is_local_promise_push(fn, n), 'F1-output-queue-gets-pool-futures', fn.q + '#push', fn.loc(n['id']),
                    'a future that is neither the result of Pool::submit nor the future of a local promise is pushed on the output queue (an '
                    'invalid or foreign future reads as end-of-data / loses the encoder\'s exception in the write thread)')
    # encoder exceptions travel: no handler inside a pool functor class swallows
    functors = _pool_functor_classes(fb)
    if not functors:
        R.broken('no functor class submitted to the pool for the output queue found')
    for c in sorted(functors):
        ops = fb.fns(c + '::operator()')
        if not ops:
            R.broken('%s::operator() not instantiated' % c)
            continue
        bad = None
        for f in fb.functions:
            if f.cls != c:
                continue
            for t in f.tries:
                for h in t['handlers']:
                    hb = next((b['id'] for b in f.blocks.values() if (b.get('label') or {}).get('catch') and b['label'].get('o') == h['b']), None)
                    if hb is None or must_pass(f, hb, []) is not None:
                        bad = (f, h)
        R.check(bad is None, 'F3-encoder-exceptions-travel', ops[0].q, ops[0].site if bad is None else '%s:%s' % (bad[0].file, bad[1].get('l')),
                'a catch handler in %s can complete without rethrowing: an encoder failure would yield a partial block that is written as if complete'
                % (bad[0].q if bad else c))
    for rec in fb.derived_from(OUTPUT_FORMAT):
        if rec.q in NO_OUTPUT_FORMATS:
            continue
        wbs = fb.fns(rec.q + '::write_buffer')
        if not wbs:
            R.broken('%s::write_buffer not found' % rec.q)
            continue
        for fn in wbs:
            pushes = [n for n in _push_sites(fn) if _is_submit_push(fn, n)]
            if pushes:
                pd = fn.params[0]['d'] if fn.params else None
                ok = must_pass(fn, fn.entry, [n['id'] for n in pushes]) is None and all(pd in vars_in(fn, n['id']) for n in pushes)
                R.check(ok, 'F2-write-buffer-submits', fn.q, fn.site,
                        'write_buffer must submit an output block built from its buffer argument to the pool and queue the future on every path')
                continue
            # batching format: some other method of the class pushes; write_end must flush it on every path
            pushers = {f.q for f in fb.functions if f.cls == rec.q and f.name not in ('write_buffer', 'write_header', 'write_end')
                       and any(_is_submit_push(f, n) for n in _push_sites(f))}
            ends = fb.fns(rec.q + '::write_end')
            ok = bool(pushers) and bool(ends)
            for g in ends:
                ids = [n['id'] for n in g.calls() if n['q'] in pushers]
                ok = ok and bool(ids) and must_pass(g, g.entry, ids) is None
            R.check(ok, 'F2-write-buffer-submits', fn.q, fn.site,
                    '%s neither submits in write_buffer nor flushes its pending block in write_end on every path (the last block would be lost)' % rec.q)


# ------------------------------------------------------------------------------------------------ destructors

def dtor_rules(fb, R):
    classes = [WRITER] + [r.q for r in fb.derived_from(COMPRESSOR)]
    for c in classes:
        ds = fb.fns(c + '::(dtor)')
        if not ds:
            R.broken('%s: destructor body not found' % c)
            continue
        for fn in ds:
            work = [n for n in fn.all_nodes() if n.get('k') == 'call' and n.get('q', '').startswith('osmium::')
                    and not any(g.noexcept for g in fb.by_usr.get(n.get('u'), [])[:1])]
            ok = bool(work)
            for n in work:
                h = catch_all_handler(fn, n['id'])
                if h is None or any(x.get('k') == 'throw' for x in nodes_in_handler(fn, h[1])):
                    ok = False
            R.check(ok, 'D1-dtor-swallows', fn.q, fn.site,
                    'the destructor must run its closing call inside try { } catch (...) { } without rethrowing (std::terminate otherwise)')


# ------------------------------------------------------------------------------------------------ driver

def all_rules(fb, R):
    fns, _classes = write_path_functions(fb)
    errdisc_rules(fb, R, fns)
    close_rules(fb, R)
    write_thread_rules(fb, R)
    writer_rules(fb, R)
    queue_rules(fb, R)
    dtor_rules(fb, R)


def run(ctx):
    R = ctx.R
    configs = ['ndebug14'] if ctx.tier == 'quick' else ['ndebug14', 'debug14', 'ndebug17', 'debug17']
    for cfg in configs:
        fb = ctx.facts(['io_write'], cfg)
        all_rules(fb, R)
    R.expect('E1-oserror-reaches-throw', 17)
    R.expect('E1-nothrow-explicit-discard', 1)
    R.expect('E2-short-write-completed', 6)
    R.expect('C1-close-fsync-when-requested', 3)
    R.expect('C2-close-closes-descriptor', 3)
    R.expect('C3-close-layer-first', 2)
    R.expect('C4-file-size-after-layer-close', 2)
    R.expect('T1-write-thread-try-covers-work', 5)
    R.expect('T2-write-thread-handler-forwards', 3)
    R.expect('T3-write-thread-loop', 2)
    R.expect('G1-writer-mutators-gated', 10)    # 13 today; individual call sites may go without breaking the analysis
    R.expect('G2-ensure-cleanup-shape', 7)
    R.expect('G3-close-gets-future', 1)
    R.expect('G4-do-close-end-of-data-once', 1)
    R.expect('G5-flush-polls-future', 1)     # + check_for_exception while it is used
    R.expect('F1-output-queue-gets-pool-futures', 7)
    R.expect('F2-write-buffer-submits', 5)
    R.expect('F3-encoder-exceptions-travel', 5)
    R.expect('D1-dtor-swallows', 4)


def _selftest_errdisc(fb, R):
    from ..engine import AnalysisBroken
    fns = [f for f in fb.functions if f.q.startswith('c08pos::')]
    E.run_sites(R, fb, fns, 'E1-oserror-reaches-throw', 'E1-nothrow-explicit-discard', io_layer=lambda fn: True)
    # negative controls: the ok_* functions of the example must stay silent, every bad_* function must be reported
    wrong = [i.key for i in R.instances.values() if (not i.ok) != ('::bad_' in i.key)]
    if wrong or R.broken_msgs or len(R.instances) < 17:
        raise AnalysisBroken('ERRDISC self-test: unexpected verdicts on selftest/positive/c08_errdisc.cpp: %s %s' % (wrong, R.broken_msgs))


SELFTESTS = [
    ('E1-oserror-reaches-throw', 'c08_errdisc.cpp', _selftest_errdisc),
    ('E1-nothrow-explicit-discard', 'c08_errdisc.cpp', _selftest_errdisc),
]
