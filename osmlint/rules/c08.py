"""C08 -- Writer produces the complete file or throws; OS write errors are never lost.

Engines: ERRDISC (osmlint/errdisc.py, written for this property and reusable by C09/C12/C13), EXCFLOW-style try/catch
rules kept local (C07 owns osmlint/excflow.py), PAIR-style must-pass rules on the CFG.

Decided (design section 5, C08):
 1   E1-oserror-reaches-throw        every call of a function with a failure convention (write, fsync, close, dup, open, fstat,
                                      fdopen, fclose, gzdopen, gzwrite, gzclose_w, BZ2_bzWriteOpen/Write/WriteClose64, compress2,
                                      LZ4_compress_fast ...) on the write path: assuming the call failed, no normal exit of the
                                      enclosing function is reachable (throw / [[noreturn]] helper / always-throwing helper / retry)
     E1-nothrow-explicit-discard     the same calls inside destructors / noexcept functions: explicit (void) discard
 1b  E2-short-write-completed        the ::write call: loop until accumulated offset == size, accumulator advanced by the result,
                                      buffer pointer advanced by the accumulator, count derived from size - offset, EINTR re-enters
                                      the call without touching the accumulator
 2   C1-close-fsync-when-requested   every Compressor::close override: do_fsync() => an fsync-reaching call before the descriptor close
     C2-close-closes-descriptor      ... every success path passes a call that reaches ::close/fclose (stdout / already-closed excepted)
     C3-close-layer-first            ... the compression layer close (gzclose_w, BZ2_bzWriteClose64) dominates fsync and descriptor close
     C4-file-size-after-layer-close  ... the field file_size() returns is assigned only after the layer close, never on its failure path
     C5-close-finishes-stream        ... every path that finds the stream open passes the finishing call (gzclose_w, BZ2_bzWriteClose64) -- the
                                      stdout special case may only skip fsync / descriptor close; a class whose constructor opens a gz / bz2
                                      stream has the matching finishing call in close() (sibling agreement)
 1c  O1-open-flags-match-overwrite-mode must-bits of the flags word at ::open: overwrite::allow => O_WRONLY|O_CREAT|O_TRUNC, overwrite::no =>
                                      O_WRONLY|O_CREAT|O_EXCL (any spelling: initialiser, |=, ?:, helper function)
 3   T1-write-thread-try-covers-work pop / write / close / set_value of WriteThread::operator() lie in one try with catch (...)
     T2-write-thread-handler-forwards the handler sets the notification flag, set_exception(current_exception()), shuts the queue down
     T3-write-thread-loop            every popped chunk that is not end-of-data is written; the loop is left only at end-of-data; then
                                      close() and set_value(file_size()) on every path, in this order
 4   G1-writer-mutators-gated        every call into the OutputFormat (directly or through the private helpers) is made from a lambda
                                      run by ensure_cleanup, helpers are not public
     G2-ensure-cleanup-shape         status test (throwing) dominates the invocation; catch (...) sets status error, queues the exception,
                                      then end-of-data, and rethrows on every path
     G3-close-gets-future            Writer::close: do_close() first, then m_write_future.get() whenever valid(), its value returned
     G4-do-close-end-of-data-once    do_close: the lambda writes the rest, write_end(), status closed, end-of-data exactly once as its last
                                      action (the outer `m_status == okay` test is redundant with ensure_cleanup's and not required)
     G6-no-empty-buffer-to-encoder   end-of-data marker discipline: every hand-over to OutputFormat::write_buffer is unreachable when
                                      committed() of the handed-over Buffer (followed through swap / move / helper parameter) is 0 -- an empty
                                      block encodes to the empty string, i.e. the marker that only the closing path (G4, G2) may produce
     G7-internal-buffer-items-committed every Buffer member called on the Writer's own buffer that reserves space either commits itself
                                      (push_back) or is followed by commit() on every path (add_item alone leaves the object invisible)
     G5-flush-polls-future           do_flush polls the write future whenever the notification flag is set (check_for_exception shape)
 5   F1-output-queue-gets-pool-futures every push on a Queue<future<string>> passes the result of Pool::submit or the future of a local promise
     F3-encoder-exceptions-travel    no catch handler inside a functor class submitted to the pool completes without rethrowing
     F2-write-buffer-submits         each OutputFormat::write_buffer override submits the buffer on every path (or, for the class that
                                      batches, write_end flushes the pending batch)
 +   D1-dtor-swallows                ~Writer and the Compressor destructors run their close inside try { } catch (...) { }

Shape independence: the rules follow code into private methods of the same class (a role is played by the call itself or
by a helper whose body plays it on every path; a close() that only delegates is analysed in the delegate; the write(2) retry
loop may live in a wrapper that passes pointer/count through), resolve single-definition named locals to their initialiser,
fold `!` / early-return / if-else polarity of tests, and decide loops by walking them under an assumption (T3: "this chunk is
not the end marker", E2: "write succeeded") instead of matching a loop form -- while(true)+break, for(;;), do/while with a
flag, priming read + while all read the same.

Not decided (moved to "not decided"): bytes on disk for every fault offset (needs fault injection); gzwrite/BZ2 partial-write
semantics inside the libraries; that fclose/gzclose flush everything they buffered (library contract, assumed); thread
interleavings of producer / pool / write thread (C19/C07 decide the monitor discipline); the strtol in PBFOutputFormat's
constructor (option parsing, belongs to C13); declaration order of Writer members versus the thread (C07 LAYOUT rule).
"""
from .. import errdisc as E
from ..c08_util import (WRITER, WRITE_THREAD, COMPRESSOR, OUTPUT_FORMAT, is_exit, write_path_functions, in_io_layer,
                        scn, vars_in, catch_all_handler, nodes_in_handler, must_pass, must_pass_after, calls_reaching, cond_blocks,
                        is_pointer_truth, reads_only_object_state, compares_with_const, guards, resolved, callees_deep, vars_in_deep,
                        helper_bodies, role_ids, role_ids_may, work_functions, atom_guards, false_edge_of, must_bits_at)
from ..flow import path_search, describe_path


def inlined(fb, fn):
    """fn with the private methods of its class (called on this) inlined into its CFG (helper-inlined normal form shared with
    C09: a step function driving a loop, a tail split off into a method ... read like the unsplit code); fn itself when the
    normaliser cannot handle the body."""
    try:
        from ..c09_util import normalized
        g = normalized(fb, fn)
        return g if g is not None and getattr(g, 'has_cfg', False) else fn
    except Exception:      # noqa: BLE001 -- the original body is always a valid (if less general) input for the rules
        return fn

# genuine findings on the pristine tree: (rule, key, explanation)
KNOWN = []

EXPLANATION = (
    'Decided: (1) ERRDISC on the write path: for every call of an OS / stdio / zlib / bzip2 / lz4 function with a failure convention, '
    'assuming the failure value, no normal exit of the enclosing function is reachable in its CFG (conditions on the result are '
    'evaluated three-valued, so a test that does not separate failure from success counts as no test); (1b) the write(2) loop completes '
    'short writes and retries EINTR; (2) each Compressor::close override: layer close, then fsync when requested, then descriptor close, '
    'file size assigned only after a successful layer close; (3) WriteThread forwards any exception (flag, promise, queue shutdown) and '
    'writes every chunk; (4) Writer methods are gated by ensure_cleanup (status test, error state, exception + end-of-data queued, rethrow), '
    'close() collects the write future, do_close pushes end-of-data once, do_flush polls the future; (5) only pool futures or '
    'add_to_queue values enter the output queue and every write_buffer override submits its buffer; destructors swallow. '
    'NOT decided: completeness of the bytes on disk for every fault offset (fault injection), partial-write semantics inside zlib/libbz2, '
    'thread interleavings, option parsing (strtol, C13).')
ASSUMPTIONS = ['failure conventions of POSIX / stdio / zlib / libbz2 / lz4 as tabulated in osmlint/errdisc.py (DESIGN appendix B)',
               'EINTR == 4, O_WRONLY/O_CREAT/O_EXCL/O_TRUNC == 01/0100/0200/01000 (Linux)', 'drivers/io_write.cpp instantiates every output format and compressor the library registers',
               'exceptions leaving a function are handled by its callers as decided by rules T1/T2/G2 (no implicit EH edges in the CFG)']


# ------------------------------------------------------------------------------------------------ 1 / 1b  ERRDISC

def errdisc_rules(fb, R, fns):
    want = lambda name: E.classify(name)[0] != 'special'
    done = E.run_sites(R, fb, fns, 'E1-oserror-reaches-throw', 'E1-nothrow-explicit-discard', want=want, io_layer=in_io_layer)
    nwrite = 0
    for (fn, call, conv, o) in done:
        if call['q'] in ('write', 'pwrite'):
            nwrite += 1
            short_write(fb, R, fn, call, o)
    if nwrite == 0:
        R.broken('no ::write call found on the write path')
    nopen = open_flag_rules(fb, R, [(fn, call) for (fn, call, _c, _o) in done if call['q'] in ('open', 'open64')])
    if nopen == 0:
        R.broken('no ::open call found on the write path')
    return done


# open(2) flag words (Linux, asm-generic/fcntl.h): the fact base only has the folded values of the O_* macros
O_WRONLY, O_CREAT, O_EXCL, O_TRUNC = 0o1, 0o100, 0o200, 0o1000
OVERWRITE = 'osmium::io::overwrite'


def open_flag_rules(fb, R, open_sites):
    """O1: at every ::open on the write path, the bits definitely set in the flags argument (must-dataflow over the flags
    word along every path, spelling-independent: initialiser, |=, ?:, helper function) agree with the overwrite mode:
    overwrite::allow => O_WRONLY|O_CREAT|O_TRUNC (an existing longer file must not keep its tail),
    overwrite::no    => O_WRONLY|O_CREAT|O_EXCL  (an existing file must not be touched)."""
    rule = 'O1-open-flags-match-overwrite-mode'
    en = fb.enum(OVERWRITE)
    vals = {e['name']: int(e['value']) for e in en['enumerators']} if en else {}
    if 'allow' not in vals or 'no' not in vals:
        R.broken('enum %s {no, allow} not found' % OVERWRITE)
        return 0
    n = 0
    for (fn, call) in open_sites:
        args = call.get('args', []) or []
        if len(args) < 2:
            R.broken('%s: ::open with %d arguments' % (fn.q, len(args)))
            continue
        modes = [p for p in fn.params if p['tC'].replace('const ', '').strip() == OVERWRITE]
        if len(modes) != 1:
            R.broken('%s calls ::open for writing but has no single %s parameter: cannot relate the flags to the overwrite mode' % (fn.q, OVERWRITE))
            continue
        n += 1
        for mode, need, why in (('allow', O_WRONLY | O_CREAT | O_TRUNC, 'overwriting a longer existing file would leave its old tail on disk'),
                                ('no', O_WRONLY | O_CREAT | O_EXCL, 'an existing file would be opened and clobbered although overwriting is not allowed')):
            got = must_bits_at(fb, fn, {('var', modes[0]['d']): E.fin(vals[mode])}, {call['id']: args[1]})
            if got is None or not got:
                R.broken('%s: ::open is not reachable / not analysable with %s == %s' % (fn.q, modes[0]['name'], mode))
                continue
            missing = 0
            for (_e, bits) in got:
                missing |= need & ~bits
            R.check(missing == 0, rule, '%s#%s' % (fn.q, mode), fn.loc(call['id']),
                    'with %s == overwrite::%s the flags passed to ::open are not guaranteed to contain %s (missing bits 0%o): %s'
                    % (modes[0]['name'], mode, 'O_WRONLY|O_CREAT|O_TRUNC' if mode == 'allow' else 'O_WRONLY|O_CREAT|O_EXCL', missing, why))
    return n


def _assigned_from(fn, call):
    """local variable that receives the call's result (decl init or assignment)."""
    pm = fn.parent_map()
    x = call['id']
    hops = 0
    while x in pm and hops < 8:
        x = pm[x]
        hops += 1
        n = fn.nodes[x]
        if n.get('k') == 'assign' and n.get('op') == '=':
            c = E.carrier_of(fn, n['lhs'])
            return c[1] if c and c[0] == 'var' else None
        if n.get('k') == 'decl':
            for v in n['vars']:
                if isinstance(v.get('init'), int) and call['id'] in fn.subtree(v['init']):
                    return v['d']
            return None
        if n.get('k') not in ('wrap', 'icast', 'cast'):
            return None
    return None


def _cmp_polarity(fn, c, A, S):
    """comparison of the accumulator A with the size S: True = holds while incomplete (A < S), False = holds when complete."""
    if c is None or c.get('k') != 'binop':
        return None
    l, r = scn(fn, c['lhs']), scn(fn, c['rhs'])
    if l is None or r is None or l.get('k') != 'var' or r.get('k') != 'var':
        return None
    pair, op = (l.get('d'), r.get('d')), c.get('op')
    if pair == (A, S):
        return True if op in ('<', '!=') else False if op in ('>=', '==') else None
    if pair == (S, A):
        return True if op in ('>', '!=') else False if op in ('<=', '==') else None
    return None


def _loop_tests(fn, call, A, S):
    """Blocks that test completion: [(block, index of the successor taken when complete, ids of the comparison nodes)].
    The test is a comparison of A with S, or a boolean local (possibly negated) all of whose non-constant definitions are
    such comparisons of one polarity and one of which is executed on every path from the call to the test (loop flag)."""
    out = []
    for b in cond_blocks(fn):
        c = E.effective_cond(fn, b)
        n = fn.sn(c)
        flip = False
        while n is not None and n.get('k') == 'unop' and n.get('op') == '!':
            flip = not flip
            n = fn.sn(n['sub'])
        n = scn(fn, n['id']) if n is not None else None
        pol = _cmp_polarity(fn, n, A, S)
        cmps = [n['id']] if pol is not None else []
        if pol is None and n is not None and n.get('k') == 'var' and n.get('vk') == 'local':
            defs = []
            for m in fn.all_nodes():
                if m.get('k') == 'decl':
                    defs += [(m['id'], v['init']) for v in m['vars'] if v['d'] == n['d'] and isinstance(v.get('init'), int)]
                elif m.get('k') == 'assign' and E.carrier_of(fn, m['lhs']) == ('var', n['d']):
                    defs.append((m['id'], m['rhs'] if m.get('op') == '=' else None))
            pols = set()
            live = []
            for (did, rhs) in defs:
                if rhs is not None and E.const_of(fn, rhs) is not None:
                    continue
                x = fn.sn(rhs) if rhs is not None else None
                f2 = False
                while x is not None and x.get('k') == 'unop' and x.get('op') == '!':
                    f2 = not f2
                    x = fn.sn(x['sub'])
                x = scn(fn, x['id']) if x is not None else None
                q = _cmp_polarity(fn, x, A, S)
                pols.add(None if q is None else (q != f2))
                live.append(did)
                if q is not None:
                    cmps.append(x['id'])
            if len(pols) == 1 and None not in pols and live:
                tests = {fn.strip(b['cond']), b['cond']}
                if path_search(fn, call['id'], lambda e: e in tests, lambda e: e in live) is None:
                    pol = next(iter(pols))
        if pol is None:
            continue
        incomplete_when_true = (pol != flip)
        out.append((b, 1 if incomplete_when_true else 0, cmps))
    return out


def _eintr_check(R, fn, call, outcome, key0, site, acc=()):
    """EINTR: failure re-enters the call, accumulator untouched, the throw is guarded by an errno test against EINTR."""
    eintr = False
    for t in (outcome.throws if outcome is not None else ()):
        for (c, sense, _b) in guards(fn, t):
            x = fn.sn(c)
            if x is not None and x.get('k') == 'binop' and x.get('op') in ('!=', '==') and E.const_of(fn, x['rhs']) == 4:
                if any(fn.nodes[y].get('q') == '__errno_location' for y in fn.subtree(x['lhs'])):
                    eintr = True
    R.check(outcome is not None and outcome.retry and eintr and not (set(acc) & outcome.reached), 'E2-short-write-completed',
            key0 + '#eintr-retries', site,
            'an interrupted write() (EINTR) must re-enter the call without advancing the offset; other errors must throw')


def short_write(fb, R, fn, call, outcome, ptr_idx=1, cnt_idx=2, eintr_done=False, depth=0):
    """`call` is ::write itself, or (recursively) a call of a function that passes its pointer/count parameters straight to
    the write primitive and returns its non-negative result (the retry loop extracted into a helper)."""
    rule = 'E2-short-write-completed'
    key0 = fn.q
    site = fn.loc(call['id'])
    args = call.get('args', [])
    if len(args) <= max(ptr_idx, cnt_idx):
        R.broken('%s: write call with %d arguments' % (fn.q, len(args)))
        return
    pidx = {p['d']: i for i, p in enumerate(fn.params)}
    pn0, cn0 = scn(fn, args[ptr_idx]), scn(fn, args[cnt_idx])
    L = _assigned_from(fn, call)
    if depth < 3 and all(x is not None and x.get('k') == 'var' and x.get('vk') == 'param' and x.get('d') in pidx for x in (pn0, cn0)):
        rets = [n for n in fn.all_nodes() if n.get('k') == 'return' and 'sub' in n]
        hands_back = bool(rets) and all((scn(fn, r['sub']) or {}).get('id') == call['id'] or
                                        (L is not None and (scn(fn, r['sub']) or {}).get('k') == 'var' and scn(fn, r['sub']).get('d') == L) for r in rets)
        callers = E.callers_of(fb, fn) if hands_back else []
        if callers:
            if not eintr_done:
                _eintr_check(R, fn, call, outcome, key0, site)
            for (g, c) in callers:
                short_write(fb, R, g, c, None, pidx[pn0['d']], pidx[cn0['d']], True, depth + 1)
            return
    subs = ['count-only-clamped', 'pointer-advanced', 'accumulates-result', 'loops-until-complete'] + ([] if eintr_done else ['eintr-retries'])
    # the count argument: W (local) initialised as S - A, or S - A directly; S parameter, A local accumulator
    cn = scn(fn, args[cnt_idx])
    W = None
    diff = None
    if cn is not None and cn.get('k') == 'var' and cn.get('vk') == 'local':
        W = cn['d']
        for n in fn.all_nodes():
            if n.get('k') == 'decl':
                for v in n['vars']:
                    if v['d'] == W and isinstance(v.get('init'), int):
                        diff = scn(fn, v['init'])
    elif cn is not None and cn.get('k') == 'binop':
        diff = cn
    S = A = None
    if diff is not None and diff.get('k') == 'binop' and diff.get('op') == '-':
        l, r = scn(fn, diff['lhs']), scn(fn, diff['rhs'])
        if l is not None and r is not None and l.get('k') == 'var' and r.get('k') == 'var' and l.get('vk') == 'param' and r.get('vk') == 'local':
            S, A = l['d'], r['d']
    if not R.check(S is not None, rule, key0 + '#count-is-remaining', site,
                   'the byte count passed to write() is not derived from <size parameter> - <accumulated offset> (a short write would '
                   'be followed by a write past the end of the buffer or by lost data)'):
        for sub in subs:
            R.bad(rule, '%s#%s' % (key0, sub), site, 'not decidable: no accumulated offset identified (see #count-is-remaining)')
        return
    bad = None
    for n in fn.all_nodes():
        if n.get('k') == 'assign':
            c = E.carrier_of(fn, n['lhs'])
            if W is not None and c == ('var', W) and not (n.get('op') == '=' and E.const_of(fn, n['rhs']) is not None):
                bad = n
    R.check(bad is None, rule, key0 + '#count-only-clamped', site if bad is None else fn.loc(bad['id']),
            'the remaining-byte count is modified by something other than a clamp to a constant')
    # pointer argument: <pointer parameter> + A
    pv = vars_in_deep(fn, args[ptr_idx])
    ptr_params = {p['d'] for p in fn.params if p['tC'].rstrip().endswith('*')}
    pn = resolved(fn, args[ptr_idx])
    R.check(A in pv and bool(pv & ptr_params) and pn is not None and pn.get('k') == 'binop' and pn.get('op') == '+',
            rule, key0 + '#pointer-advanced', site,
            'the buffer pointer passed to write() is not <buffer parameter> + <accumulated offset> (after a short write the same bytes '
            'would be written again)')
    # accumulator advanced by the result
    acc = []
    for n in fn.all_nodes():
        if n.get('k') == 'assign' and E.carrier_of(fn, n['lhs']) == ('var', A):
            r = None
            if n.get('op') == '+=':
                r = scn(fn, n['rhs'])
            elif n.get('op') == '=':       # A = A + result
                x = scn(fn, n['rhs'])
                if x is not None and x.get('k') == 'binop' and x.get('op') == '+':
                    a1, a2 = scn(fn, x['lhs']), scn(fn, x['rhs'])
                    if a1 is not None and a1.get('k') == 'var' and a1.get('d') == A:
                        r = a2
                    elif a2 is not None and a2.get('k') == 'var' and a2.get('d') == A:
                        r = a1
            if r is None:
                continue
            if L is not None and r.get('k') == 'var' and r.get('d') == L:
                acc.append(n['id'])
            elif r.get('id') == call['id']:
                acc.append(n['id'])
    tests_b = _loop_tests(fn, call, A, S)
    ok = bool(acc)
    w = None
    if ok:
        # assuming the call succeeded (result >= 0): every path reaches the accumulation before the loop test / the exit
        tests = set()
        for (b, _ci, cmps) in tests_b:
            tests |= {fn.strip(b['cond']), b['cond']} | set(cmps)
        o = E.outcome_assuming(fb, fn, call, E.ge(0), stop_at=acc)
        ok = not o.exits and not (tests & o.reached) and not o.retry and not o.truncated
        w = o.exits[0] if o.exits else None
    R.check(ok, rule, key0 + '#accumulates-result', site,
            'the accumulated offset is not advanced by the result of write() on every path to the loop test: %s' % describe_path(fn, w))
    ok = bool(tests_b)
    w = None
    if ok:
        done_edge = {b['id']: ci for (b, ci, _c) in tests_b}
        # the function is left only through the "complete" edge of the loop test ...
        w = must_pass_after(fn, call['id'], [], edge_ok=lambda b, idx, s: not (b in done_edge and idx == done_edge[b]))
        # ... and its other edge leads back to the call
        back = all(path_search(fn, b['succs'][1 - ci], lambda e: e == call['id'], lambda e: False, from_block_start=True) is not None
                   for (b, ci, _c) in tests_b if b['succs'][1 - ci] is not None)
        ok = w is None and back
    R.check(ok, rule, key0 + '#loops-until-complete', site,
            'write() is not repeated until the accumulated offset reaches the requested size (a short write would be reported as success): %s'
            % describe_path(fn, w))
    if not eintr_done:
        _eintr_check(R, fn, call, outcome, key0, site, acc)


# ------------------------------------------------------------------------------------------------ 2  close completeness

def close_rules(fb, R):
    recs = fb.derived_from(COMPRESSOR)
    if len(recs) < 3:
        R.broken('expected at least 3 Compressor subclasses, found %d' % len(recs))
    for rec in recs:
        fns = fb.fns(rec.q + '::close')
        if not fns:
            R.broken('%s::close not found' % rec.q)
            continue
        for fn in fns:
            _close_one(fb, R, rec, inlined(fb, fn))


def _is_layer_call(n):
    return E.is_extern_c(n) and E.classify(n['q'])[0] == 'check' and n['q'] not in ('close', 'fclose', 'fsync', 'fdatasync')


def _close_one(fb, R, rec, fn, key=None, depth=0):
    key = key or fn.q
    fsyncs = calls_reaching(fb, fn, ('fsync', 'fdatasync', '_commit'))
    dcloses = calls_reaching(fb, fn, ('close', 'fclose'))
    # close() that only delegates to one private method doing all the work: analyse that method
    own = [n for n in dcloses if helper_bodies(fb, fn, n)]
    if depth < 2 and dcloses and len(own) == len(dcloses) == 1 and not any(_is_layer_call(n) for n in fn.all_nodes()):
        g = helper_bodies(fb, fn, own[0])[0]
        if calls_reaching(fb, g, ('close', 'fclose')):
            _close_one(fb, R, rec, g, key, depth + 1)
            return
    # the compression layer close: the library call itself, or the private method it was extracted into
    layer = [n for n in fn.all_nodes() if _is_layer_call(n)]
    layer += [n for n in fn.all_nodes() if n['id'] not in {x['id'] for x in fsyncs + dcloses}
              and any(any(_is_layer_call(m) for m in h.all_nodes()) for g in helper_bodies(fb, fn, n) for h in work_functions(fb, g, 2))]
    dclose_ids = {n['id'] for n in dcloses}
    fsync_ids = {n['id'] for n in fsyncs}

    def is_dofsync(cond):
        c = resolved(fn, cond)
        return c is not None and c.get('k') == 'call' and c.get('q') == COMPRESSOR + '::do_fsync'

    # C1
    guarded = [n for n in fsyncs if any(sense and is_dofsync(c) for (c, sense, _b) in atom_guards(fn, n['id']))
               or not guards(fn, n['id'])]
    ok = bool(guarded) and bool(dcloses)
    w = None
    if ok:
        def edge_ok(b, idx, s):
            if idx == false_edge_of(fn, fn.blocks[b], lambda c: is_dofsync(c) or is_pointer_truth(fn, c)):
                return False   # fsync not requested / no handle to sync
            return True
        w = path_search(fn, fn.entry, lambda e: e in dclose_ids, lambda e: e in fsync_ids, edge_ok, from_block_start=True)
        ok = w is None
    R.check(ok, 'C1-close-fsync-when-requested', key, fn.site,
            'close(): when do_fsync() holds the descriptor close must be preceded by a call that reaches ::fsync: %s' % describe_path(fn, w))

    # C2
    # "already closed" = the state close() itself establishes (m_fd = -1, m_gzfile = nullptr ...)
    closed_env = {}
    for g in work_functions(fb, fn, 2):
        for n in g.all_nodes():
            st = E.store_of(g, n)
            if st is not None:
                c = E.carrier_of(g, st[0])
                v = E.const_of(g, st[1])
                if c is not None and c[0] == 'field' and v is not None:
                    closed_env[c] = E.fin(v)

    def edge_ok2(b, idx, s):
        blk = fn.blocks[b]
        c = E.effective_cond(fn, blk)
        if reads_only_object_state(fn, c):
            v = E.eval3(fn, c, closed_env)
            if v is not None and idx == (0 if v else 1):
                return False   # object already closed (idempotence guard)
        def cmp1(op):
            def atom(x):
                n = resolved(fn, x)
                return n is not None and n.get('k') == 'binop' and n.get('op') == op and 1 in (E.const_of(fn, n['rhs']), E.const_of(fn, n['lhs']))
            return atom
        fe = false_edge_of(fn, blk, cmp1('=='))
        if fe is not None and idx == 1 - fe:
            return False       # stdout is neither synced nor closed
        fe = false_edge_of(fn, blk, cmp1('!='))
        if fe is not None and idx == fe:
            return False
        return True
    w = must_pass(fn, fn.entry, dclose_ids, edge_ok2) if dcloses else [('exit', fn.exit)]
    R.check(w is None, 'C2-close-closes-descriptor', key, fn.site,
            'close(): a success path returns without a call that reaches ::close / fclose (close errors such as a deferred ENOSPC/EIO are '
            'never observed): %s' % describe_path(fn, w))

    # C5: a stream that was opened in the constructor is finished in close(), on every path that finds it open
    FAMILIES = {'gz': (('gzdopen', 'gzopen', 'gzopen64'), ('gzclose', 'gzclose_w')),
                'bz2': (('BZ2_bzWriteOpen',), ('BZ2_bzWriteClose', 'BZ2_bzWriteClose64'))}
    opened = {n['q'] for c in fb.fns(rec.q + '::(ctor)') for g in work_functions(fb, c, 2) for n in g.all_nodes() if E.is_extern_c(n)}
    finished = {n['q'] for g in work_functions(fb, fn, 2) for n in g.all_nodes() if E.is_extern_c(n)}
    for fam, (openers, finishers) in sorted(FAMILIES.items()):
        if opened & set(openers):
            R.check(bool(finished & set(finishers)), 'C5-close-finishes-stream', '%s#%s-finished' % (key, fam), fn.site,
                    'the constructor opens a %s stream (%s) but close() never calls %s: buffered data and the trailer are never written'
                    % (fam, ', '.join(sorted(opened & set(openers))), ' / '.join(finishers)))
    if not layer:
        return

    def edge_ok3(b, idx, s):     # only "already closed" excuses a path; stdout does not (it may only skip fsync / ::close)
        c = E.effective_cond(fn, fn.blocks[b])
        if reads_only_object_state(fn, c):
            v = E.eval3(fn, c, closed_env)
            if v is not None and idx == (0 if v else 1):
                return False
        return True
    w = must_pass(fn, fn.entry, [l['id'] for l in layer], edge_ok3)
    R.check(w is None, 'C5-close-finishes-stream', key, fn.site,
            'close(): a path on which the stream is still open returns without the finishing call (%s): compressed data still buffered in '
            'the library and the stream trailer are never written (e.g. output to stdout): %s' % (', '.join(sorted({l['q'] for l in layer})), describe_path(fn, w)))
    # C3
    for l in layer:
        later = [n for n in fsyncs + dcloses if not fn.elem_dominates(l['id'], n['id'])]
        R.check(not later, 'C3-close-layer-first', '%s#%s' % (key, l['q']), fn.loc(l['id']),
                'close(): %s must come before the fsync / descriptor close on every path (buffered compressed data is written by it)' % l['q'])
    # C4
    fsz = fb.fns(rec.q + '::file_size')
    field = None
    for g in fsz:
        for n in g.all_nodes():
            if n.get('k') == 'return' and 'sub' in n:
                m = g.sn(n['sub'])
                if m is not None and m.get('k') == 'member' and m.get('field'):
                    field = m['q']
    if field is None:
        R.broken('%s: cannot identify the member returned by file_size()' % rec.q)
        return
    assigns = [n for n in fn.all_nodes() if (n.get('k') == 'assign' and E.carrier_of(fn, n['lhs']) == ('field', field))
               or (E.store_of(fn, n) is not None and E.carrier_of(fn, E.store_of(fn, n)[0]) == ('field', field))]
    if not assigns:
        if not any(E.carrier_of(g, n['lhs']) == ('field', field) for n0 in fn.all_nodes() for g0 in helper_bodies(fb, fn, n0)
                   for g in work_functions(fb, g0, 2) for n in g.all_nodes() if n.get('k') == 'assign'):
            R.broken('%s: close() never assigns %s' % (rec.q, field))
        else:   # assignment lives in a helper called from here: it must be called after the layer close
            for l in layer:
                hs = [n0 for n0 in fn.all_nodes() for g0 in helper_bodies(fb, fn, n0) for g in work_functions(fb, g0, 2)
                      if any(n.get('k') == 'assign' and E.carrier_of(g, n['lhs']) == ('field', field) for n in g.all_nodes())]
                R.check(all(h['id'] == l['id'] or fn.elem_dominates(l['id'], h['id']) for h in hs), 'C4-file-size-after-layer-close',
                        '%s#%s' % (key, field.rsplit('::', 1)[-1]), fn.site, 'close(): %s is assigned before %s succeeded' % (field, l['q']))
        return
    for l in layer:
        # a layer close extracted into a helper reports failure by throwing (rule E1 inside it): dominance is enough
        o = E.fail_outcome(fb, fn, l, E.CONVENTIONS[l['q']])[0] if l['q'] in E.CONVENTIONS else None
        for a in assigns:
            ok = fn.elem_dominates(l['id'], a['id']) and (l['q'] not in E.CONVENTIONS or (o is not None and a['id'] not in o.reached))
            R.check(ok, 'C4-file-size-after-layer-close', '%s#%s' % (key, field.rsplit('::', 1)[-1]), fn.loc(a['id']),
                    'close(): %s is assigned before %s succeeded (or on its failure path)' % (field, l['q']))


_role_ids = role_ids


def _role_order(fb, fn, pred_a, pred_b, nodes):
    """every b is preceded (dominated) by an a; a helper call that plays both roles is looked into."""
    a_ids = _role_ids(fb, fn, nodes, pred_a)
    b_ids = _role_ids(fb, fn, nodes, pred_b)
    if not a_ids or not b_ids:
        return False
    for b in b_ids:
        if any(a != b and fn.elem_dominates(a, b) for a in a_ids):
            continue
        if b in a_ids and not pred_b(fn, fn.nodes[b]):
            g = next(iter(fb.by_usr.get(fn.nodes[b].get('u'), [])), None)
            if g is not None and _role_order(fb, g, pred_a, pred_b, list(g.all_nodes())):
                continue
        return False
    return True


# ------------------------------------------------------------------------------------------------ 3  write thread

def _p_pop(f, n):
    return n.get('k') == 'call' and n.get('q', '').rsplit('::', 1)[-1] == 'pop' and n.get('rcls') == 'osmium::io::detail::queue_wrapper'


def _p_q(q):
    return lambda f, n: n.get('k') == 'call' and n.get('q') == q


def write_thread_rules(fb, R):
    fns = fb.fns(WRITE_THREAD + '::operator()')
    if not fns:
        R.broken('WriteThread::operator() not found')
        return
    for fn in fns:
        key = fn.q
        nodes0 = list(fn.all_nodes())
        # each role is played in operator() by the call itself or by a call of a private method that contains it
        roles = {'pop': role_ids_may(fb, fn, nodes0, _p_pop), 'write': role_ids_may(fb, fn, nodes0, _p_q(COMPRESSOR + '::write')),
                 'close': role_ids_may(fb, fn, nodes0, _p_q(COMPRESSOR + '::close')),
                 'set_value': role_ids_may(fb, fn, nodes0, _p_q('std::promise::set_value'))}
        if not roles['pop']:
            R.broken('WriteThread::operator(): no pop from the input queue found')
            return
        # T1
        hs = {}
        for role, ids in roles.items():
            if not ids:
                R.bad('T1-write-thread-try-covers-work', '%s#%s' % (key, role), fn.site, 'WriteThread::operator() has no %s call' % role)
                continue
            cov = [catch_all_handler(fn, i) for i in ids]
            hs[role] = cov
            R.check(all(h is not None for h in cov), 'T1-write-thread-try-covers-work', '%s#%s' % (key, role), fn.loc(ids[0]),
                    'WriteThread: %s is not inside a try with catch (...): an exception would terminate the process / be lost' % role)
        allh = [h for cov in hs.values() for h in cov]
        same = len(hs) == 4 and all(h is not None for h in allh) and len({h[0]['b'] for h in allh}) == 1
        R.check(same, 'T1-write-thread-try-covers-work', key + '#one-try', fn.site, 'pop/write/close/set_value must share one try block')
        h3 = next((h for h in hs.get('pop', []) if h is not None), None) or next((h for h in allh if h is not None), None)
        if h3 is None or h3[2] is None:
            for role in ('flag', 'set_exception', 'shutdown'):
                R.bad('T2-write-thread-handler-forwards', '%s#%s' % (key, role), fn.site, 'WriteThread has no catch (...) around its work')
        else:
            _write_thread_handler(fb, R, fn, key, h3)
        _write_thread_loop(fb, R, fn, key, roles)


def _write_thread_handler(fb, R, fn, key, h3):
    t, h, hb = h3
    # T2
    hn = nodes_in_handler(fn, h)
    rec = fb.record(WRITE_THREAD)
    promise = {f['q'] for f in rec.fields if f['tC'].startswith('std::promise<')} if rec else set()
    queue = {f['q'] for f in rec.fields if 'queue_wrapper<' in f['tC'] or f['tC'].startswith('osmium::thread::Queue<')} if rec else set()

    def field_of(f, x):
        rv = f.root_var(x) if x is not None else None
        return rv[1] if rv and rv[0] == 'field' else None
    flag = _role_ids(fb, fn, hn, lambda f, n: n.get('k') == 'call' and n.get('rclsT', '').startswith('std::atomic<bool>')
                     and n['q'].rsplit('::', 1)[-1] in ('store', 'operator=') and n.get('args') and f.const_value(n['args'][0]) == 1)
    setex = _role_ids(fb, fn, hn, lambda f, n: n.get('k') == 'call' and n.get('q') == 'std::promise::set_exception'
                      and 'std::current_exception' in callees_deep(f, n['id']) and field_of(f, n.get('recv')) in promise)
    shut = _role_ids(fb, fn, hn, lambda f, n: n.get('k') == 'call' and n.get('q', '').rsplit('::', 1)[-1] == 'shutdown'
                     and field_of(f, n.get('recv')) in queue)
    for role, ids, why in (('flag', flag, 'set the notification flag (the Writer polls the future only when it is set)'),
                           ('set_exception', setex, 'store current_exception() in the promise (otherwise close() reports success)'),
                           ('shutdown', shut, 'shut the input queue down (otherwise a producer blocked on the full queue never returns)')):
        w = must_pass(fn, hb, ids) if ids else [('exit', fn.exit)]
        R.check(w is None, 'T2-write-thread-handler-forwards', '%s#%s' % (key, role), '%s:%s' % (fn.file, h.get('l')),
                'WriteThread catch (...) must %s on every path' % why)


def _write_thread_loop(fb, R, fn0, key, roles):
    rule = 'T3-write-thread-loop'
    # ---- every chunk: decided in the function that contains the pop (operator() or the private method holding the loop)
    loopfns = [(g, [n for n in g.all_nodes() if _p_pop(g, n)]) for g in [inlined(fb, fn0)]]
    if not loopfns[0][1]:
        loopfns = [(g, [n for n in g.all_nodes() if _p_pop(g, n)]) for g in work_functions(fb, fn0)]
    loopfns = [(g, ps) for (g, ps) in loopfns if ps]
    if len(loopfns) != 1:
        R.broken('WriteThread: pops from the input queue found in %d functions, expected one' % len(loopfns))
        return
    g, pops = loopfns[0]
    gn = list(g.all_nodes())
    popids = {P['id'] for P in pops}
    # the variable(s) holding the popped chunk (one pop per iteration, or a priming pop plus one at the end of the body)
    datavars = set()
    for n in gn:
        if n.get('k') == 'decl':
            datavars |= {v['d'] for v in n['vars'] if isinstance(v.get('init'), int) and popids & set(g.subtree(v['init']))}
        elif n.get('k') == 'assign' and n.get('op') == '=' and popids & set(g.subtree(n['rhs'])):
            c = E.carrier_of(g, n['lhs'])
            if c and c[0] == 'var':
                datavars.add(c[1])
        elif n.get('k') == 'call' and n.get('op') == '=' and n.get('args') and popids & set(g.subtree(n['id'])):
            rv = g.root_var(n.get('recv')) if n.get('recv') is not None else (g.root_var(n['args'][0]) if n.get('args') else None)
            if rv and rv[0] == 'var':
                datavars.add(rv[1])
    datavar = next(iter(datavars)) if len(datavars) == 1 else None

    def is_data(x):
        r = scn(g, x) if x is not None else None
        return r is not None and r.get('k') == 'var' and r.get('d') == datavar
    # the chunk is handed to Compressor::write (directly or through a private method that always writes its argument)
    W = [i for i in _role_ids(fb, g, gn, _p_q(COMPRESSOR + '::write')) if any(is_data(a) for a in g.nodes[i].get('args', []) or [])]
    # end-of-data tests on the chunk
    ends = [n['id'] for n in gn if n.get('k') == 'call' and (
        (n.get('q') == 'osmium::io::detail::at_end_of_data' and n.get('args') and is_data(n['args'][0]))
        or (n.get('q') == 'std::basic_string::empty' and is_data(n.get('recv'))))]
    pos = g.positions()
    ok = datavar is not None and bool(W) and bool(ends) and all(i in pos for i in popids)
    why = ''
    if datavar is None:
        why = 'cannot identify the variable that receives the popped chunk'
    elif not W:
        why = 'the popped chunk is never handed to Compressor::write'
    elif not ends:
        why = 'no end-of-data test on the popped chunk'
    if ok:
        # assume the chunk is NOT the end-of-data marker: every path from a pop reaches the write (never the next pop, never
        # the code after the loop), and after the write the next thing is a pop again
        env = {('node', e): E.fin(0) for e in ends}
        for P in pops:
            b, i = pos[P['id']]
            o1 = E.explore(g, (b, i + 1), env, site=popids, fb=fb, stop_at=set(W))
            if o1.exits or o1.retry or o1.truncated or o1.throws or not o1.stopped:
                ok = False
                why = 'a chunk that is not the end-of-data marker can skip Compressor::write: %s' % E.describe(g, o1.exits[0] if o1.exits else [])
            for wid, arrivals in o1.stopped.items():
                wb, wi = pos[wid]
                for (env2, facts2) in arrivals:
                    o2 = E.explore(g, (wb, wi + 1), env2, site=popids, fb=fb, facts=facts2)
                    if o2.exits or o2.truncated or not o2.retry:
                        ok = False
                        why = 'after writing a chunk that is not the end-of-data marker the loop is left: %s' % E.describe(g, o2.exits[0] if o2.exits else [])
    P = pops[0]
    R.check(ok, rule, key + '#every-chunk-written', g.loc(P['id']),
            'a chunk popped from the queue that is not the end-of-data marker must be handed to Compressor::write and the loop must go on: %s' % why)
    # ---- after the loop: close, then set_value(file_size())
    C, S, Wr, Pp = roles['close'], roles['set_value'], roles['write'], roles['pop']
    if not C or not S:
        R.bad(rule, key + '#close-then-value', fn0.site,
              'WriteThread does not close the compressor / fulfil the promise: buffered data is never flushed, close errors are never seen')
        return
    ok = must_pass(fn0, fn0.entry, C) is None
    ok = ok and all(any(c != s and fn0.elem_dominates(c, s) for c in C) or s in C for s in S)
    ok = ok and all(path_search(fn0, c, lambda e: e in Wr or e in Pp, lambda e: False) is None for c in C if c not in Wr and c not in Pp)
    ok = ok and all(must_pass_after(fn0, c, S) is None for c in C if c not in S)
    for wf in work_functions(fb, fn0):
        for n in wf.all_nodes():
            if n.get('k') == 'call' and n.get('q') == 'std::promise::set_value':
                v = resolved(wf, n['args'][0]) if n.get('args') else None
                if v is None or v.get('q') != COMPRESSOR + '::file_size':
                    ok = False
                else:   # the size is read after the close
                    cl = [m['id'] for m in wf.all_nodes() if m.get('k') == 'call' and m.get('q') == COMPRESSOR + '::close']
                    if cl and not any(wf.elem_dominates(c, v['id']) for c in cl):
                        ok = False
    R.check(ok, rule, key + '#close-then-value', fn0.loc(C[0]),
            'after the loop the compressor must be closed and then the promise fulfilled with file_size() on every path')


# ------------------------------------------------------------------------------------------------ 4  Writer gating

def _status_field(fb):
    rec = fb.record(WRITER)
    if rec is None:
        return None
    for f in rec.fields:
        if f['tC'].endswith('Writer::status'):
            return f['q']
    return None


def _is_status_cmp(fn, cond, status_q):
    """-> index of the successor taken when status != okay (0 true edge / 1 false edge) or None."""
    c = fn.sn(cond)
    if c is None or c.get('k') != 'binop' or c.get('op') not in ('==', '!='):
        return None
    l, r = fn.sn(c['lhs']), fn.sn(c['rhs'])
    for a, b in ((l, r), (r, l)):
        if a is not None and b is not None and a.get('k') == 'member' and a.get('q') == status_q and b.get('vk') == 'enumconst' \
                and b.get('q', '').endswith('::okay'):
            return 0 if c['op'] == '!=' else 1
    return None


def writer_rules(fb, R):
    rec = fb.record(WRITER)
    status_q = _status_field(fb)
    if rec is None or status_q is None:
        R.broken('Writer record / status member not found')
        return
    wfns = [f for f in fb.functions if f.q.startswith(WRITER + '::')]
    methods = [f for f in wfns if not f.is_lambda and f.cls == WRITER]
    EC = WRITER + '::ensure_cleanup'

    # ---- G1
    def out_calls(f):
        return [n for n in f.all_nodes() if n.get('k') == 'call' and n.get('rcls') == OUTPUT_FORMAT]
    H = {f.q for f in methods if f.kind == 'method' and out_calls(f)}
    changed = True
    while changed:
        changed = False
        for f in methods:
            if f.kind == 'method' and f.q not in H and f.q != EC and any(n['q'] in H for n in f.calls()):
                H.add(f.q)
                changed = True
    if not H:
        R.broken('Writer: no helper calling into the OutputFormat found')
    gated = set()
    for f in methods:
        for c in f.calls(EC):
            for a in c.get('args', []):
                for x in f.subtree(a):
                    if f.nodes[x].get('k') == 'lambda':
                        g = fb.lambda_fn(f, f.nodes[x])
                        if g is not None:
                            gated.add((g.unit, g.id))
    for f in methods:
        if f.q in H:
            R.check(f.access in ('private', 'protected'), 'G1-writer-mutators-gated', f.q + '#not-public', f.site,
                    '%s writes to the output and is public: it bypasses ensure_cleanup (status test / error bookkeeping)' % f.q)
    for f in wfns:
        for n in f.all_nodes():
            if n.get('k') != 'call' or 'q' not in n:
                continue
            if not (n.get('rcls') == OUTPUT_FORMAT or n['q'] in H):
                continue
            ok = f.q in H or (f.is_lambda and (f.unit, f.id) in gated)
            R.check(ok, 'G1-writer-mutators-gated', '%s#%s' % (f.q, n['q'].rsplit('::', 1)[-1]), f.loc(n['id']),
                    '%s is called from %s, which is neither a private output helper nor a lambda run by ensure_cleanup' % (n['q'], f.q))

    # ---- G6  end-of-data marker discipline: an empty buffer encodes to the empty string, which IS the end marker
    WB = OUTPUT_FORMAT + '::write_buffer'
    COMMITTED = 'osmium::memory::Buffer::committed'

    def aliases(f, root):
        """variables that hold the same Buffer as `root` at some point: partners of a swap, source of a move into it."""
        out = {root[:2]}
        for n in f.all_nodes():
            if n.get('k') == 'call' and n.get('q', '').rsplit('::', 1)[-1] == 'swap':
                rs = [f.root_var(a) for a in ([n.get('recv')] if n.get('recv') is not None else []) + list(n.get('args', []) or []) if a is not None]
                rs = [r[:2] for r in rs if r is not None]
                if len(rs) == 2 and (rs[0] in out or rs[1] in out):
                    out |= set(rs)
            elif n.get('k') == 'decl':
                for v in n['vars']:
                    if ('var', v['d']) in out and isinstance(v.get('init'), int):
                        r = f.root_var(strip_to_source(f, v['init']))
                        if r is not None:
                            out.add(r[:2])
        return out

    def strip_to_source(f, nid):
        x = scn(f, nid)
        return x['id'] if x is not None else nid

    def nonempty_guarded(f, call, argi, depth=0):
        """Assuming every committed() on the handed-over buffer returns 0, the hand-over is unreachable."""
        args = call.get('args', []) or []
        if argi >= len(args):
            return False, 'no buffer argument'
        root = f.root_var(args[argi])
        if root is None or root[0] not in ('var', 'field'):
            return False, 'cannot identify the buffer that is handed over'
        names = aliases(f, root)
        seeds = [n['id'] for n in f.all_nodes() if n.get('k') == 'call' and n.get('q') == COMMITTED
                 and (f.root_var(n.get('recv')) or (None,))[:2] in names]
        if seeds:
            o = E.explore(f, (f.entry, 0), {('node', i): E.fin(0) for i in seeds}, fb=fb)
            if call['id'] not in o.reached and not o.truncated:
                return True, ''
            return False, 'the hand-over is reachable with committed() == 0'
        # the test may sit in the callers when the buffer is a parameter of a private helper
        pidx = {p['d']: i for i, p in enumerate(f.params)}
        if depth < 2 and root[0] == 'var' and root[1] in pidx and f.cls == WRITER and not f.is_lambda and f.access != 'public':
            callers = E.callers_of(fb, f)
            if callers:
                for (g, c) in callers:
                    ok, why = nonempty_guarded(g, c, pidx[root[1]], depth + 1)
                    if not ok:
                        return False, 'caller %s: %s' % (g.q, why)
                return True, ''
        return False, 'no committed() test on the buffer that is handed over'
    nwb = 0
    for f in wfns:
        for n in f.all_nodes():
            if n.get('k') == 'call' and n.get('q') == WB:
                nwb += 1
                ok, why = nonempty_guarded(f, n, 0)
                R.check(ok, 'G6-no-empty-buffer-to-encoder', '%s#write_buffer' % f.q, f.loc(n['id']),
                        'an empty Buffer can be handed to OutputFormat::write_buffer from %s (%s): its encoding is the empty string, which the '
                        'write thread takes for the end-of-data marker -- the file is closed early, later data is dropped and close() reports '
                        'success; only the closing path may produce the marker' % (f.q, why))
    if nwb == 0:
        R.broken('Writer never calls OutputFormat::write_buffer')

    # ---- G7  what is put into the Writer's own buffer is committed (uncommitted data is invisible to do_write / do_flush)
    BUF = 'osmium::memory::Buffer'
    buf_fields = {f['q'] for f in rec.fields if f['tC'].replace('const ', '').strip() == BUF}

    def adds_uncommitted(n):
        """call of a Buffer member that reserves space in the buffer and does not commit it itself."""
        if n.get('k') != 'call' or n.get('rcls') != BUF or 'u' not in n:
            return False
        for g in fb.by_usr.get(n['u'], [])[:1]:
            reach = E.closure_fns(fb, [g], depth=4)
            if not any(h.q == BUF + '::reserve_space' for h in reach):
                return False
            commits = [m['id'] for m in g.all_nodes() if m.get('k') == 'call' and m.get('q') == BUF + '::commit']
            return not (commits and g.has_cfg and must_pass(g, g.entry, commits) is None)
        return False
    nadd = 0
    for f in wfns:
        for n in f.all_nodes():
            if n.get('k') != 'call' or n.get('rcls') != BUF or n.get('recv') is None:
                continue
            rv = f.root_var(n['recv'])
            if rv is None or rv[0] != 'field' or rv[1] not in buf_fields:
                continue
            if not any(h.q == BUF + '::reserve_space' for g in fb.by_usr.get(n.get('u'), [])[:1] for h in E.closure_fns(fb, [g], depth=4)):
                continue
            nadd += 1
            ok = True
            if adds_uncommitted(n):
                commits = [m['id'] for m in f.all_nodes() if m.get('k') == 'call' and m.get('q') == BUF + '::commit'
                           and m.get('recv') is not None and f.root_var(m['recv']) == rv]
                ok = bool(commits) and must_pass_after(f, n['id'], commits) is None
            R.check(ok, 'G7-internal-buffer-items-committed', '%s#%s' % (f.q, n['q'].rsplit('::', 1)[-1]), f.loc(n['id']),
                    '%s puts data into the Writer\'s internal buffer without committing it on every path: do_write / do_flush only look at '
                    'committed() data, so the object is silently dropped when it is the last one before close()' % n['q'])
    if nadd == 0:
        R.broken('Writer never adds anything to its internal buffer')

    # ---- G2
    ecs = fb.fns(EC)
    if not ecs:
        R.broken('Writer::ensure_cleanup not instantiated')
    for fn in ecs:
        key = fn.q
        inv = [n for n in fn.all_nodes() if n.get('k') == 'call' and n.get('op') == '()' and fn.params
               and fn.root_var(n.get('recv')) == ('var', fn.params[0]['d'], fn.params[0]['name'])]
        if len(inv) != 1:
            R.broken('ensure_cleanup: expected exactly one invocation of the function parameter, found %d' % len(inv))
            continue
        I = inv[0]
        ok = False
        for b in cond_blocks(fn):
            idx = _is_status_cmp(fn, E.effective_cond(fn, b), status_q)
            if idx is None or b['succs'][idx] is None:
                continue
            pos = fn.positions()
            dominates = b['id'] in fn.dominators().get(pos[I['id']][0], ())
            refuses = must_pass(fn, b['succs'][idx], []) is None   # every path from the not-okay edge throws
            if dominates and refuses:
                ok = True
        if not ok:   # the test extracted into a private method that throws unless the status is okay
            for n in fn.all_nodes():
                for g in helper_bodies(fb, fn, n):
                    for b in cond_blocks(g):
                        idx = _is_status_cmp(g, E.effective_cond(g, b), status_q)
                        if idx is not None and b['succs'][idx] is not None and must_pass(g, b['succs'][idx], []) is None \
                                and b['id'] in g.dominators().get(g.exit, ()) and fn.elem_dominates(n['id'], I['id']):
                            ok = True
        R.check(ok, 'G2-ensure-cleanup-shape', key + '#status-first', fn.site,
                'ensure_cleanup must refuse (throw) when m_status != okay before running the operation')
        h = catch_all_handler(fn, I['id'])
        if not R.check(h is not None and h[2] is not None, 'G2-ensure-cleanup-shape', key + '#try-catch-all', fn.loc(I['id']),
                       'the operation must run inside try { } catch (...)'):
            continue
        t, hd, hb = h
        hn = nodes_in_handler(fn, hd)
        p_st = lambda f, n: (E.store_of(f, n) is not None and E.carrier_of(f, E.store_of(f, n)[0]) == ('field', status_q)
                             and (f.sn(E.store_of(f, n)[1]) or {}).get('q', '').endswith('::error'))
        p_exq = lambda f, n: (n.get('k') == 'call' and n.get('q') == 'osmium::io::detail::add_to_queue'
                              and 'std::current_exception' in callees_deep(f, n['id']))
        p_eod = lambda f, n: n.get('k') == 'call' and n.get('q') == 'osmium::io::detail::add_end_of_data_to_queue'
        st = _role_ids(fb, fn, hn, p_st)
        exq = _role_ids(fb, fn, hn, p_exq)
        eod = _role_ids(fb, fn, hn, p_eod)
        rethrow = [n['id'] for n in hn if n.get('k') == 'throw' and n.get('rethrow')]
        for role, ids, why in (('status-error', st, 'set m_status = error (a Writer in error state must refuse further data)'),
                               ('queues-exception', exq, 'queue current_exception() for the write thread'),
                               ('end-of-data', eod, 'queue the end-of-data marker (otherwise the write thread never finishes)')):
            w = path_search(fn, hb, lambda e: is_exit(e) or e in rethrow, lambda e: e in ids, from_block_start=True) if ids else [1]
            R.check(w is None, 'G2-ensure-cleanup-shape', '%s#handler-%s' % (key, role), '%s:%s' % (fn.file, hd.get('l')),
                    'the catch (...) of ensure_cleanup must %s on every path' % why)
        w = path_search(fn, hb, is_exit, lambda e: e in rethrow, from_block_start=True)
        R.check(bool(rethrow) and w is None, 'G2-ensure-cleanup-shape', key + '#handler-rethrows', '%s:%s' % (fn.file, hd.get('l')),
                'the catch (...) of ensure_cleanup must end in `throw;` on every path (the caller has to see the error)')
        R.check(_role_order(fb, fn, p_exq, p_eod, hn), 'G2-ensure-cleanup-shape',
                key + '#exception-before-end-of-data', '%s:%s' % (fn.file, hd.get('l')),
                'the exception must be queued before the end-of-data marker (the write thread stops reading at the marker)')

    # ---- G3
    fut_fields = {f['q'] for f in rec.fields if f['tC'].startswith('std::future<')}

    def p_get(f, n):
        rv = f.root_var(n.get('recv')) if n.get('k') == 'call' and n.get('q') == 'std::future::get' else None
        return rv is not None and rv[0] == 'field' and rv[1] in fut_fields

    def is_valid(f, c):
        x = resolved(f, c)
        rv = f.root_var(x.get('recv')) if x is not None and x.get('k') == 'call' and x.get('q', '').rsplit('::', 1)[-1] == 'valid' else None
        return rv is not None and rv[0] == 'field' and rv[1] in fut_fields

    def not_valid_edge(f):
        return lambda b, idx, s: idx != false_edge_of(f, f.blocks[b], lambda c: is_valid(f, c))
    for fn in fb.fns(WRITER + '::close'):
        key = fn.q
        nodes = list(fn.all_nodes())
        dc = role_ids(fb, fn, nodes, lambda f, n: n.get('k') == 'call' and n.get('q') == WRITER + '::do_close')
        gets = role_ids(fb, fn, nodes, p_get, edge_ok=not_valid_edge)
        ok = bool(dc) and bool(gets)
        w = None
        if ok:
            ok = all(any(fn.elem_dominates(d, G) for d in dc) for G in gets)
            ok = ok and all(sense and is_valid(fn, c) for G in gets for (c, sense, _b) in atom_guards(fn, G))
            w = must_pass(fn, fn.entry, gets, not_valid_edge(fn))
            ok = ok and w is None
            # the value of get() is what close() returns on that path
            holders = {v['d'] for n in nodes if n.get('k') == 'decl' for v in n['vars']
                       if isinstance(v.get('init'), int) and set(gets) & set(fn.subtree(v['init']))}
            holders |= {E.carrier_of(fn, n['lhs'])[1] for n in nodes if n.get('k') == 'assign' and n.get('op') == '='
                        and set(gets) & set(fn.subtree(n['rhs'])) and (E.carrier_of(fn, n['lhs']) or ('',))[0] == 'var'}
            rets = [n for n in nodes if n.get('k') == 'return' and 'sub' in n
                    and (set(gets) & set(fn.subtree(n['sub'])) or ((scn(fn, n['sub']) or {}).get('k') == 'var' and scn(fn, n['sub']).get('d') in holders))]
            ok = ok and len(rets) >= 1
            ok = ok and must_pass(fn, fn.entry, dc) is None
        R.check(ok, 'G3-close-gets-future', key, fn.site,
                'Writer::close must run do_close() and then return m_write_future.get() whenever the future is valid (the only place the '
                'write thread\'s exception and the file size reach the caller): %s' % describe_path(fn, w))
    if not fb.fns(WRITER + '::close'):
        R.broken('Writer::close not found')

    # ---- G4
    for fn in fb.fns(WRITER + '::do_close'):
        key = fn.q
        ecalls = list(fn.calls(EC))
        lam = None
        for c in ecalls:
            for a in c.get('args', []):
                for x in fn.subtree(a):
                    if fn.nodes[x].get('k') == 'lambda':
                        lam = fb.lambda_fn(fn, fn.nodes[x])
        # (the `m_status == okay` test around the call is redundant with ensure_cleanup's own test: not required)
        if len(ecalls) != 1 or lam is None:
            R.bad('G4-do-close-end-of-data-once', key + '#lambda', fn.site, 'do_close must run one closing operation through ensure_cleanup')
            continue
        g = lam
        gn = list(g.all_nodes())
        p_eod = _p_q('osmium::io::detail::add_end_of_data_to_queue')
        p_wend = _p_q(OUTPUT_FORMAT + '::write_end')
        p_dw = lambda f, n: n.get('k') == 'call' and n.get('q') in H
        p_closed = lambda f, n: (E.store_of(f, n) is not None and (f.sn(E.store_of(f, n)[1]) or {}).get('q', '').endswith('::closed')
                                 and E.carrier_of(f, E.store_of(f, n)[0]) == ('field', status_q))
        eod = role_ids(fb, g, gn, p_eod)
        closed = role_ids(fb, g, gn, p_closed)
        ok = len(eod) == 1 and bool(role_ids(fb, g, gn, p_wend)) and bool(role_ids(fb, g, gn, p_dw))
        if ok:
            e = eod[0]
            ok = must_pass(g, g.entry, [e]) is None
            ok = ok and path_search(g, e, lambda x: x == e, lambda x: False) is None
            ok = ok and _role_order(fb, g, p_wend, p_eod, gn) and _role_order(fb, g, p_dw, p_wend, gn)
            # nothing that could throw runs after the marker was pushed (the handler would push a second one)
            def nothing_after(f, i):
                return path_search(f, i, lambda x: not isinstance(x, tuple) and f.nodes[x].get('k') in ('call', 'construct', 'throw'), lambda x: False) is None
            ok = ok and nothing_after(g, e)
            for hb_ in helper_bodies(fb, g, g.nodes[e]):
                ok = ok and all(nothing_after(hb_, n['id']) for n in hb_.all_nodes() if p_eod(hb_, n))
            ok = ok and bool(closed) and must_pass(g, g.entry, closed) is None
        R.check(ok, 'G4-do-close-end-of-data-once', key + '#lambda', g.site,
                'the closing operation must write the pending buffer, call write_end(), set status closed and push the end-of-data marker '
                'exactly once as its last action')
    if not fb.fns(WRITER + '::do_close'):
        R.broken('Writer::do_close not found')

    # ---- G5
    flag_fields = {f['q'] for f in rec.fields if f['tC'].startswith('std::atomic<bool>')}
    CFE = 'osmium::thread::check_for_exception'
    def reads_flag(f, c):
        x = resolved(f, c)
        return x is not None and x.get('k') == 'call' and x.get('rclsT', '').startswith('std::atomic<bool>') \
            and (f.root_var(x.get('recv')) or (None, None))[1] in flag_fields

    def flag_clear_edge(f):
        return lambda b, idx, s: idx != false_edge_of(f, f.blocks[b], lambda c: reads_flag(f, c))
    p_poll = lambda f, n: (n.get('k') == 'call' and n.get('q') == CFE and n.get('args')
                           and (f.root_var(n['args'][0]) or (None, None))[1] in fut_fields)
    for fn in fb.fns(WRITER + '::do_flush'):
        polls = role_ids(fb, fn, list(fn.all_nodes()), p_poll, edge_ok=flag_clear_edge)
        ok = bool(polls) and all(sense and reads_flag(fn, c) for p in polls[:1] for (c, sense, _b) in atom_guards(fn, p))
        # reached on every path on which the flag is set
        w = None
        if ok:
            w = must_pass(fn, fn.entry, polls, flag_clear_edge(fn))
            ok = w is None
        R.check(ok, 'G5-flush-polls-future', fn.q, fn.site,
                'do_flush must call check_for_exception(m_write_future) whenever the notification flag is set (otherwise a dead write '
                'thread is noticed only at close()): %s' % describe_path(fn, w))
    if not fb.fns(WRITER + '::do_flush'):
        R.broken('Writer::do_flush not found')
    if not fb.fns(CFE) and any(list(f.calls(CFE)) for f in wfns):
        R.broken('check_for_exception is called but has no body in the fact base')
    for fn in fb.fns(CFE):
        gets = [n for n in fn.all_nodes() if n.get('k') == 'call' and n.get('q') == 'std::future::get']
        ok = len(gets) == 1
        if ok:
            def cond_calls(c):      # names of the calls a condition depends on, looking through named locals
                return {q.rsplit('::', 1)[-1] for q in callees_deep(fn, c) if q}
            for (c, sense, _b) in atom_guards(fn, gets[0]['id']):
                names = cond_calls(c)
                if not sense or not names or not names <= {'valid', 'wait_for', 'duration', '(ctor)', 'seconds'}:
                    ok = False
            # a ready, valid future is always collected
            def edge_ok(b, idx, s):
                def atom(c):
                    return bool(cond_calls(c) & {'valid', 'wait_for'})
                return idx != false_edge_of(fn, fn.blocks[b], atom)
            ok = ok and must_pass(fn, fn.entry, [gets[0]['id']], edge_ok) is None
        R.check(ok, 'G5-flush-polls-future', fn.q, fn.site,
                'check_for_exception must call future.get() exactly when the future is valid and ready')


# ------------------------------------------------------------------------------------------------ 5  who may push

FUTURE_STRING_QUEUE = 'osmium::thread::Queue<std::future<std::basic_string<char>>>'
PUSH_WHITELIST = {'osmium::io::detail::add_to_queue': 'pushes the future of a local promise that it fulfils itself (value or exception)'}
NO_OUTPUT_FORMATS = {'osmium::io::detail::BlackholeOutputFormat': 'discards everything by design'}


def _push_sites(fn):
    return [n for n in fn.calls('osmium::thread::Queue::push') if n.get('rclsT') == FUTURE_STRING_QUEUE]


def _is_submit_push(fn, n):
    a = resolved(fn, n['args'][0]) if n.get('args') else None
    return a is not None and a.get('k') == 'call' and a.get('q') == 'osmium::thread::Pool::submit'


def _is_local_promise_push(fn, n):
    """queue.push(promise.get_future()) with a local promise (fulfilled by the pushing function itself)."""
    a = resolved(fn, n['args'][0]) if n.get('args') else None
    if a is None or a.get('k') != 'call' or a.get('q') != 'std::promise::get_future':
        return False
    rv = fn.root_var(a.get('recv'))
    return rv is not None and rv[0] == 'var'


def _pool_functor_classes(fb):
    out = set()
    fmts = {r.q for r in fb.derived_from(OUTPUT_FORMAT)}
    for f in fb.functions:
        if f.cls not in fmts:
            continue
        for c in f.calls('osmium::thread::Pool::submit'):
            for a in c.get('args', []):
                t = (f.sn(a) or {}).get('t', '').replace('const ', '').strip().split('<', 1)[0]
                if t.startswith('osmium::') and fb.records_named(t):
                    out.add(t)
    return out


def queue_rules(fb, R):
    for fn in fb.functions:
        for n in _push_sites(fn):
            if fn.q in PUSH_WHITELIST:
                R.ok('F1-output-queue-gets-pool-futures', fn.q + '#push', fn.loc(n['id']), PUSH_WHITELIST[fn.q])
                continue
            R.check(_is_submit_push(fn, n) or _is_local_promise_push(fn, n), 'F1-output-queue-gets-pool-futures', fn.q + '#push', fn.loc(n['id']),
                    'a future that is neither the result of Pool::submit nor the future of a local promise is pushed on the output queue (an '
                    'invalid or foreign future reads as end-of-data / loses the encoder\'s exception in the write thread)')
    # encoder exceptions travel: no handler inside a pool functor class swallows
    functors = _pool_functor_classes(fb)
    if not functors:
        R.broken('no functor class submitted to the pool for the output queue found')
    for c in sorted(functors):
        ops = fb.fns(c + '::operator()')
        if not ops:
            R.broken('%s::operator() not instantiated' % c)
            continue
        bad = None
        for f in fb.functions:
            if f.cls != c:
                continue
            for t in f.tries:
                for h in t['handlers']:
                    hb = next((b['id'] for b in f.blocks.values() if (b.get('label') or {}).get('catch') and b['label'].get('o') == h['b']), None)
                    if hb is None or must_pass(f, hb, []) is not None:
                        bad = (f, h)
        R.check(bad is None, 'F3-encoder-exceptions-travel', ops[0].q, ops[0].site if bad is None else '%s:%s' % (bad[0].file, bad[1].get('l')),
                'a catch handler in %s can complete without rethrowing: an encoder failure would yield a partial block that is written as if complete'
                % (bad[0].q if bad else c))
    for rec in fb.derived_from(OUTPUT_FORMAT):
        if rec.q in NO_OUTPUT_FORMATS:
            continue
        wbs = fb.fns(rec.q + '::write_buffer')
        if not wbs:
            R.broken('%s::write_buffer not found' % rec.q)
            continue
        for fn in wbs:
            p_push = lambda f, n: (n.get('k') == 'call' and n.get('q') == 'osmium::thread::Queue::push' and n.get('rclsT') == FUTURE_STRING_QUEUE
                                   and _is_submit_push(f, n))
            pushes = role_ids(fb, fn, list(fn.all_nodes()), p_push)
            if pushes:
                pd = fn.params[0]['d'] if fn.params else None
                ok = must_pass(fn, fn.entry, pushes) is None and all(pd in vars_in_deep(fn, i) for i in pushes)
                R.check(ok, 'F2-write-buffer-submits', fn.q, fn.site,
                        'write_buffer must submit an output block built from its buffer argument to the pool and queue the future on every path')
                continue
            # batching format: some other method of the class pushes; write_end must flush it on every path
            pushers = {f.q for f in fb.functions if f.cls == rec.q and f.name not in ('write_buffer', 'write_header', 'write_end')
                       and any(_is_submit_push(f, n) for n in _push_sites(f))}
            ends = fb.fns(rec.q + '::write_end')
            ok = bool(pushers) and bool(ends)
            for g in ends:
                ids = role_ids(fb, g, list(g.all_nodes()), lambda f, n: n.get('k') == 'call' and n.get('q') in pushers)
                ok = ok and bool(ids) and must_pass(g, g.entry, ids) is None
            R.check(ok, 'F2-write-buffer-submits', fn.q, fn.site,
                    '%s neither submits in write_buffer nor flushes its pending block in write_end on every path (the last block would be lost)' % rec.q)


# ------------------------------------------------------------------------------------------------ destructors

def dtor_rules(fb, R):
    classes = [WRITER] + [r.q for r in fb.derived_from(COMPRESSOR)]
    for c in classes:
        ds = fb.fns(c + '::(dtor)')
        if not ds:
            R.broken('%s: destructor body not found' % c)
            continue
        for fn in ds:
            work = [n for n in fn.all_nodes() if n.get('k') == 'call' and n.get('q', '').startswith('osmium::')
                    and not any(g.noexcept for g in fb.by_usr.get(n.get('u'), [])[:1])]
            ok = bool(work)
            for n in work:
                h = catch_all_handler(fn, n['id'])
                if h is None or any(x.get('k') == 'throw' for x in nodes_in_handler(fn, h[1])):
                    ok = False
            R.check(ok, 'D1-dtor-swallows', fn.q, fn.site,
                    'the destructor must run its closing call inside try { } catch (...) { } without rethrowing (std::terminate otherwise)')


# ------------------------------------------------------------------------------------------------ driver

def all_rules(fb, R):
    fns, _classes = write_path_functions(fb)
    errdisc_rules(fb, R, fns)
    close_rules(fb, R)
    write_thread_rules(fb, R)
    writer_rules(fb, R)
    queue_rules(fb, R)
    dtor_rules(fb, R)


def run(ctx):
    R = ctx.R
    configs = ['ndebug14'] if ctx.tier == 'quick' else ['ndebug14', 'debug14', 'ndebug17', 'debug17']
    for cfg in configs:
        fb = ctx.facts(['io_write'], cfg)
        all_rules(fb, R)
    R.expect('E1-oserror-reaches-throw', 17)
    R.expect('E1-nothrow-explicit-discard', 1)
    R.expect('E2-short-write-completed', 6)
    R.expect('C1-close-fsync-when-requested', 3)
    R.expect('C2-close-closes-descriptor', 3)
    R.expect('C3-close-layer-first', 2)
    R.expect('C4-file-size-after-layer-close', 2)
    R.expect('C5-close-finishes-stream', 4)
    R.expect('O1-open-flags-match-overwrite-mode', 2)
    R.expect('T1-write-thread-try-covers-work', 5)
    R.expect('T2-write-thread-handler-forwards', 3)
    R.expect('T3-write-thread-loop', 2)
    R.expect('G1-writer-mutators-gated', 10)    # 13 today; individual call sites may go without breaking the analysis
    R.expect('G2-ensure-cleanup-shape', 7)
    R.expect('G3-close-gets-future', 1)
    R.expect('G4-do-close-end-of-data-once', 1)
    R.expect('G6-no-empty-buffer-to-encoder', 2)
    R.expect('G7-internal-buffer-items-committed', 1)
    R.expect('G5-flush-polls-future', 1)     # + check_for_exception while it is used
    R.expect('F1-output-queue-gets-pool-futures', 7)
    R.expect('F2-write-buffer-submits', 5)
    R.expect('F3-encoder-exceptions-travel', 5)
    R.expect('D1-dtor-swallows', 4)


def _selftest_errdisc(fb, R):
    from ..engine import AnalysisBroken
    fns = [f for f in fb.functions if f.q.startswith('c08pos::')]
    E.run_sites(R, fb, fns, 'E1-oserror-reaches-throw', 'E1-nothrow-explicit-discard', io_layer=lambda fn: True)
    # negative controls: the ok_* functions of the example must stay silent, every bad_* function must be reported
    wrong = [i.key for i in R.instances.values() if (not i.ok) != ('::bad_' in i.key)]
    if wrong or R.broken_msgs or len(R.instances) < 21:
        raise AnalysisBroken('ERRDISC self-test: unexpected verdicts on selftest/positive/c08_errdisc.cpp: %s %s' % (wrong, R.broken_msgs))


def _selftest_open(fb, R):
    from ..engine import AnalysisBroken
    sites = [(f, n) for f in fb.functions if f.q.startswith('c08pos::') for n in f.all_nodes() if E.is_extern_c(n) and n['q'] in ('open', 'open64')]
    open_flag_rules(fb, R, sites)
    wrong = [i.key for i in R.instances.values() if (not i.ok) != ('::bad_' in i.key) and not ('::bad_' in i.key and i.ok)]
    fired = {i.key.split('#')[0] for i in R.instances.values() if not i.ok}
    want = {'c08pos::bad_no_trunc', 'c08pos::bad_swapped', 'c08pos::bad_trunc_lost'}
    if wrong or R.broken_msgs or fired != want or len(R.instances) < 14:
        raise AnalysisBroken('O1 self-test: unexpected verdicts on selftest/positive/c08_open.cpp: wrong=%s fired=%s %s' % (wrong, sorted(fired), R.broken_msgs))


SELFTESTS = [
    ('O1-open-flags-match-overwrite-mode', 'c08_open.cpp', _selftest_open),
    ('E1-oserror-reaches-throw', 'c08_errdisc.cpp', _selftest_errdisc),
    ('E1-nothrow-explicit-discard', 'c08_errdisc.cpp', _selftest_errdisc),
]
